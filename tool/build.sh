#!/bin/sh
# Builds the libTooling fact extractor offline (clang 14).  Output: /verif/build/cdns-facts
set -e
cd "$(dirname "$0")/.."
mkdir -p build
if [ ! -x build/cdns-facts ] || [ tool/cdns-facts.cc -nt build/cdns-facts ]; then
  clang++ $(llvm-config-14 --cxxflags) -O1 -fno-rtti tool/cdns-facts.cc -o build/cdns-facts \
     /usr/lib/llvm-14/lib/libclang-cpp.so.14 /usr/lib/llvm-14/lib/libLLVM-14.so
fi
echo "cdns-facts built"
