#include "src/cdns.h"
#include <sstream>
#include <iostream>
int main(){
  using namespace CDNS;
  int bad = 0;
  { // 3 MB of nested one-element arrays, then the innermost element and a sentinel
    std::string in(3000000, '\x81'); in += "\x05\x09";
    std::istringstream is(in); CdnsDecoder d(is);
    try { d.skip_item(); auto v = d.read_unsigned(); std::cout << "deep nesting skipped, next=" << v << "\n"; if (v != 9) bad = 1; }
    catch (std::exception& e) { std::cout << "deep nesting: " << e.what() << "\n"; bad = 1; } }
  { // mixed: {1: [_ 1, {_ 2: h'00'}, 6(7)], 3: 4} then 9
    std::string in("\xa2\x01\x9f\x01\xbf\x02\x41\x00\xff\xc6\x07\xff\x03\x04\x09", 15);
    std::istringstream is(in); CdnsDecoder d(is);
    try { d.skip_item(); auto v = d.read_unsigned(); std::cout << "mixed item skipped, next=" << v << "\n"; if (v != 9) bad = 1; }
    catch (std::exception& e) { std::cout << "mixed: " << e.what() << "\n"; bad = 1; } }
  return bad;
}
