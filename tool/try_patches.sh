#!/bin/sh
# Runs every quick check against scratch copies of /repo with one patch applied each; prints per patch the properties
# that raise a VIOLATION and the number of ANALYSIS-BROKEN lines.   usage: tool/try_patches.sh <patch>...
set -u
T=$(mktemp -d "${TMPDIR:-/tmp}/patches.XXXXXX")
trap 'rm -rf "$T"' EXIT
cd /verif
i=0
for p in "$@"; do
  i=$((i+1)); p=$(realpath "$p"); d="$T/r$i"; mkdir -p "$d"
  (cd /repo && tar cf - --exclude=_build --exclude=.git .) | (cd "$d" && tar xf -)
  (cd "$d" && patch -s -p1 < "$p" >/dev/null 2>&1) || { echo "== $p: DOES NOT APPLY"; rm -rf "$d"; continue; }
  echo "$p" > "$d/.patchname"
done
ls -d "$T"/r* 2>/dev/null | xargs -P 10 -I{} sh -c 'VERIF_SEEDRUN=1 VERIF_NO_CACHE=1 ./check all --repo {} > {}/.out 2>&1; echo $? > {}/.rc'
for d in "$T"/r*; do
  [ -f "$d/.patchname" ] || continue
  props=$(grep -E "^VIOLATION" "$d/.out" | sed 's/.*property=\([A-Z0-9]*\).*/\1/' | sort -u | tr '\n' ' ')
  br=$(grep -cE "^ANALYSIS-BROKEN|Traceback" "$d/.out")
  echo "== $(cat $d/.patchname): violations in: ${props:-none}  broken lines: $br"
  grep -A1 "^VIOLATION" "$d/.out" | grep -v "^VIOLATION\|^--" | cut -c1-260 | head -${LINES_PER:-4}
  grep -E "^ANALYSIS-BROKEN|Traceback" "$d/.out" | cut -c1-260 | head -3
done
