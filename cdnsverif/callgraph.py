"""Resolved call graph over the extracted functions (virtual calls expand to overriders)."""
from . import ir


class CallGraph:
    def __init__(self, facts):
        self.facts = facts
        self.by_sig = {}
        for f in facts.functions.values():
            self.by_sig.setdefault((f["qn"], tuple(f["sig"]), f.get("targs", "")), []).append(f)
            self.by_sig.setdefault((f["qn"], tuple(f["sig"])), []).append(f)
        # overriders: base method key -> [derived fn]
        self.overriders = {}
        for r in facts.records.values():
            for m in r.get("methods", []):
                for o in m.get("overrides", []):
                    self.overriders.setdefault(o, []).append(m["key"])
        self._edges = {}
        self.field_types = self._field_allocation_types()

    # ---- exact dynamic types of owning pointer members -------------------------------------------------------
    @staticmethod
    def _first_targ(targs):
        depth = 0
        out = []
        for ch in (targs or "")[1:]:
            if ch in "<(":
                depth += 1
            elif ch in ">)":
                if depth == 0:
                    break
                depth -= 1
            elif ch == "," and depth == 0:
                break
            out.append(ch)
        return "".join(out).strip()

    @staticmethod
    def _ptr_field(e):
        """(class-relative) field path behind `this->f` / `f->` / `*f` for a pointer-like member, else None."""
        e = ir.unwrap(e)
        if isinstance(e, dict) and e.get("k") == "OpCall" and e.get("op") in ("->", "*") and e.get("args"):
            e = ir.unwrap(e["args"][0])
        p = ir.path(e)
        if p and len(p) == 2 and p[0] == "this":
            return p[1]
        return None

    def _field_allocation_types(self):
        """(class, field) -> set of concrete class names, when *every* write to the member in the program installs a
        freshly made object (make_unique<X> / new X) or null.  A virtual call through such a member can only reach X's
        overriders (the over-approximation by class hierarchy would invent cycles such as Gzip::write -> Gzip::write)."""
        types = {}
        spoiled = set()
        for f in self.facts.functions.values():
            cls = f.get("cls")
            if not cls:
                continue
            nodes = list(ir.walk(f.get("body"))) if f.get("body") else []
            for i in f.get("inits", []) or []:
                if i.get("member") and i.get("init") is not None:
                    nodes.append({"k": "Bin", "op": "=", "lhs": {"k": "Member", "field": True, "n": i["member"], "base": {"k": "This"}},
                                  "rhs": i["init"]})
            for n in nodes:
                tgt = rhs = None
                if n.get("k") == "Bin" and n.get("op") == "=":
                    tgt, rhs = ir.path(n.get("lhs")), n.get("rhs")
                elif n.get("k") == "OpCall" and n.get("op") == "=" and len(n.get("args", [])) == 2:
                    tgt, rhs = ir.path(n["args"][0]), n["args"][1]
                elif n.get("k") == "MCall" and ir.callee_name(n) == "reset":
                    tgt, rhs = ir.path(n.get("recv")), (n.get("args") or [None])[0]
                if not tgt or len(tgt) != 2 or tgt[0] != "this":
                    continue
                key = (cls, tgt[1])
                u = ir.unwrap_all_casts(rhs) if rhs is not None else None
                while isinstance(u, dict) and u.get("k") == "Construct" and len(u.get("args", [])) == 1:
                    u = ir.unwrap_all_casts(u["args"][0])
                if u is None or (isinstance(u, dict) and (u.get("null") or (u.get("k") == "Construct" and not u.get("args")))):
                    types.setdefault(key, set())
                    continue
                if isinstance(u, dict) and u.get("k") == "Call" and (ir.callee_qn(u) or "").startswith("std::make_unique"):
                    types.setdefault(key, set()).add(self._first_targ((u.get("callee") or {}).get("targs", "")))
                    continue
                if isinstance(u, dict) and u.get("k") == "New" and u.get("nt"):
                    types.setdefault(key, set()).add(u["nt"])
                    continue
                spoiled.add(key)
        return {k: v for k, v in types.items() if k not in spoiled and v}

    def resolve(self, call, fn=None):
        cal = call.get("callee") or {}
        q = cal.get("qn")
        if not q:
            return []
        c = self.by_sig.get((q, tuple(cal.get("sig", [])), cal.get("targs", "")))
        if c is None:
            c = self.by_sig.get((q, tuple(cal.get("sig", []))), [])
        out = list(c)
        if call.get("virt") or cal.get("virtual"):
            # expand to overriders (transitively)
            keys = set()
            work = []
            # base method key as produced by fnKey: qn(sig,)const?
            base_keys = [f["key"] for f in c]
            if not base_keys:
                base_keys = ["%s(%s)" % (q, "".join(s + "," for s in cal.get("sig", [])))]
            work = list(base_keys)
            while work:
                k = work.pop()
                for d in self.overriders.get(k, []):
                    if d not in keys:
                        keys.add(d)
                        work.append(d)
            exact = None
            if fn is not None and call.get("k") == "MCall":
                recv = call.get("recv")
                fld = self._ptr_field(recv)
                if fld is None:
                    # a local reference bound to `*m_f` (a helper's parameter after inlining) names the same object
                    rp = ir.path(recv)
                    if rp and len(rp) == 1 and rp[0].startswith("l:"):
                        envs = self.__dict__.setdefault("_envs", {})
                        env = envs.get(fn["key"])
                        if env is None:
                            env = envs[fn["key"]] = ir.Env(fn["body"])
                        d = env.defs.get(rp[0])
                        if d is not None and rp[0] not in env.assigned:
                            fld = self._ptr_field(d)
                if fld is not None:
                    exact = self.field_types.get((fn.get("cls"), fld))
            for k in keys:
                f = self.facts.functions.get(k)
                if f is not None and f not in out:
                    out.append(f)
            if exact:
                norm = lambda t: (t or "").replace("std::string", "std::basic_string<char>").replace(" ", "")
                ex = set(norm(t) for t in exact)
                # what an object of each exact class runs: its own definition, the copy it inherits from an intermediate base
                # (hierarchy.py), or the nearest base's definition
                name = q.split("::")[-1]
                narrowed = []
                complete = True
                for t in ex:
                    found = [f for f in self.facts.functions.values() if norm(f.get("cls")) == t and f["qn"].split("::")[-1] == name and
                             f["sig"] == cal.get("sig", [])]
                    cur = [r_ for r_ in self.facts.records if norm(r_) == t]
                    depth = 0
                    while not found and cur and depth < 6:
                        nxt = []
                        for c_ in cur:
                            for b_ in (self.facts.records.get(c_) or {}).get("bases", []):
                                nxt.append(b_["t"])
                                found += [f for f in self.facts.functions.values() if f.get("cls") == b_["t"] and
                                          f["qn"].split("::")[-1] == name and f["sig"] == cal.get("sig", []) and f.get("body") is not None]
                        cur = nxt
                        depth += 1
                    if not found:
                        complete = False
                    narrowed += [f for f in found if f not in narrowed]
                if narrowed and complete:
                    out = narrowed
        return out

    def callees(self, fn):
        k = fn["key"]
        if k in self._edges:
            return self._edges[k]
        out = {}
        for c in ir.calls_in(fn["body"]):
            for g in self.resolve(c, fn):
                out[g["key"]] = g
        # constructor member/base initialisers
        for i in fn.get("inits", []) or []:
            for c in ir.calls_in(i.get("init")):
                for g in self.resolve(c):
                    out[g["key"]] = g
        self._edges[k] = out
        return out

    def reachable(self, entries):
        seen = {}
        work = list(entries)
        while work:
            f = work.pop()
            if f["key"] in seen:
                continue
            seen[f["key"]] = f
            work.extend(self.callees(f).values())
        return seen

    def sccs(self, nodes):
        """Tarjan over the sub-graph induced by nodes (dict key->fn). Returns list of lists of keys."""
        index = {}
        low = {}
        stack = []
        on = set()
        out = []
        counter = [0]
        import sys
        sys.setrecursionlimit(10000)

        def strong(v):
            index[v] = low[v] = counter[0]
            counter[0] += 1
            stack.append(v)
            on.add(v)
            for w in self.callees(nodes[v]):
                if w not in nodes:
                    continue
                if w not in index:
                    strong(w)
                    low[v] = min(low[v], low[w])
                elif w in on:
                    low[v] = min(low[v], index[w])
            if low[v] == index[v]:
                comp = []
                while True:
                    w = stack.pop()
                    on.discard(w)
                    comp.append(w)
                    if w == v:
                        break
                out.append(comp)

        for v in nodes:
            if v not in index:
                strong(v)
        return out
