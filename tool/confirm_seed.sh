#!/bin/sh
# Confirms a seeded change in a clean scratch worktree: demo passes without the change, tests pass and demo fails with it.
# usage: tool/confirm_seed.sh <seed dir containing patch.diff and run_demo.sh>
S="$1"; W=/tmp/wt/confirm
cd $W || exit 3
git checkout -q -- . ; git clean -fdq -e _build
cmake --build _build >/dev/null 2>&1 || { echo "baseline build failed"; exit 3; }
( cd "$S" && timeout 600 sh ./run_demo.sh $W ) >/tmp/wt/confirm_base.log 2>&1; b=$?
git apply "$S/patch.diff" || { echo "patch does not apply"; exit 3; }
cmake --build _build >/tmp/wt/confirm_build.log 2>&1 || { echo "build with change FAILED"; tail -5 /tmp/wt/confirm_build.log; git checkout -q -- .; exit 3; }
t=$(_build/tests/tests 2>&1 | tail -1)
( cd "$S" && timeout 600 sh ./run_demo.sh $W ) >/tmp/wt/confirm_mut.log 2>&1; m=$?
git checkout -q -- . ; git clean -fdq -e _build
cmake --build _build >/dev/null 2>&1
echo "demo without change: exit $b | tests with change: $t | demo with change: exit $m"
tail -3 /tmp/wt/confirm_mut.log
