// F18: writes a valid one-block file at 1 tick per second whose earliest time is 2^62 s and whose single Q/R has the
// time offset 2^62-1 (every tick total < 2^63, so the generator itself stays inside the library's stated range).
// F18_merge_offset.sh then patches that one offset to 2^62: the record's tick total becomes exactly 2^63.
#include "src/cdns.h"
int main(int argc, char **argv){
  using namespace CDNS;
  FilePreamble fp;
  fp.m_block_parameters[0].storage_parameters.ticks_per_second = 1;
  CdnsExporter ex(fp, std::string(argv[1]), CborOutputCompression::NO_COMPRESSION);
  GenericQueryResponse first; first.ts = Timestamp(1ULL << 62, 0); first.client_port = 1;
  GenericQueryResponse q;     q.ts = Timestamp((1ULL << 62) + ((1ULL << 62) - 1), 0); q.client_port = 2;
  ex.buffer_qr(first); ex.buffer_qr(q);
  ex.write_block();
}
