"""C04 Storage hints are honoured: nothing the configuration excludes reaches the file."""
from .. import ir, tables, consumption, emission
from ..ir import (path, path_str, unwrap, unwrap_all_casts, callee_name, callee_qn, const_value, show, show_f, Env,
                  conjuncts, f_and)
from ..facts import AnalysisBroken
from . import C01

META = {
    "level": "other",
    "rule_text": "Control-dependence rules over the generic entry points of CdnsBlock: R04.1 every assignment to a hinted "
                 "item member is dominated by the test of its namesake bit in the right hint word; R04.2 every block-table "
                 "insertion is dominated by the same test as the member that receives its index; R04.3 every guarded block "
                 "that inserts into a table marks its object as filled and the object is stored under that flag (table "
                 "entries stay reachable); R04.4 address events / malformed messages are stored only behind the "
                 "other-data hint test; R04.5 the preamble serialises exactly the hint words the guards read and blocks are "
                 "re-armed with the parameters of the index they carry. R04.6 (R19.2 restricted): CdnsBlock::operator= takes m_block_parameters and m_block_preamble from the source, directly or through a copy-aside temporary that is swapped in. R04.7: a data member that is always assigned the same function of other members (cdnsverif/derived.py) is recomputed by every member function that changes those members; the lazy form under a validity flag / stored key is refreshed before every read and invalidated after every change (cached hint masks).",
    "explanation": "Guard (control-dependence) analysis on structured code: whether a hint test dominates the insertion and "
                   "the assignment does not depend on the mask value, so the verdict covers all 2^18 x 2^17 x 4 x 4 masks.",
    "trusted_base": ["clang 14 AST", "rfc8618_tables.json (hint bit numbers)"],
    "assumptions": ["members without a hint bit in RFC 8618 (mandatory RR/Question members, private asn/country_code/round_trip_time) are exempt, listed in evidence"],
}

HINTS = ("this", "m_block_parameters", "storage_parameters", "storage_hints")
WORD_ENUM = {
    "query_response_hints": "CDNS::QueryResponseHintsMask",
    "query_response_signature_hints": "CDNS::QueryResponseSignatureHintsMask",
    "rr_hints": "CDNS::RrHintsMask",
    "other_data_hints": "CDNS::OtherDataHintsMask",
}
STRUCT_WORD = {
    "CDNS::QueryResponse": "query_response_hints",
    "CDNS::QueryResponseSignature": "query_response_signature_hints",
    "CDNS::RR": "rr_hints",
}
# members whose hint bit is not their namesake: (struct chain field) -> (word, bit); RFC 8618 has no bit for
# response questions, the code reuses bit 11 (query-question-sections) for them
SECTION_BITS = {
    "query_extended.question_index": ("query_response_hints", "query_question_sections"),
    "query_extended.answer_index": ("query_response_hints", "query_answer_sections"),
    "query_extended.authority_index": ("query_response_hints", "query_authority_sections"),
    "query_extended.additional_index": ("query_response_hints", "query_additional_sections"),
    "response_extended.question_index": ("query_response_hints", "query_question_sections"),
    "response_extended.answer_index": ("query_response_hints", "response_answer_sections"),
    "response_extended.authority_index": ("query_response_hints", "response_authority_sections"),
    "response_extended.additional_index": ("query_response_hints", "response_additional_sections"),
    "response_processing_data.bailiwick_index": ("query_response_hints", "response_processing_data"),
    "response_processing_data.processing_flags": ("query_response_hints", "response_processing_data"),
}
NO_HINT = {
    "asn": "implementation-specific member (private key -1), RFC 8618 defines no hint bit",
    "country_code": "implementation-specific member (private key -2), RFC 8618 defines no hint bit",
    "round_trip_time": "implementation-specific member (private key -3), RFC 8618 defines no hint bit",
    "query_extended": "container; its members are checked individually (section bits)",
    "response_extended": "container; its members are checked individually (section bits)",
}


def short(q):
    return q.replace("CDNS::", "")


def bit_atom(word, name):
    return ("bit", HINTS + (word,), WORD_ENUM[word], name)


def has_bit(g, word, name):
    return bit_atom(word, name) in conjuncts(g)


def rfc_mandatory(struct_qn, field):
    for mname, m in tables.rfc()["maps"].items():
        if m["struct"] == struct_qn:
            for rname, mem in m["members"].items():
                code = mem.get("code", rname.replace("-", "_"))
                if code == field or rname.replace("-", "_") == field.rstrip("_"):
                    return not mem["optional"]
    return False


def entry_points(facts, rule):
    B = "CDNS::CdnsBlock::"
    opt = "const boost::optional<CDNS::BlockStatistics> &"
    return {
        "qr": facts.fn(B + "add_question_response_record", sig=["const CDNS::GenericQueryResponse &", opt], rule=rule),
        "rrlist": facts.fn(B + "add_generic_rrlist", rule=rule),
        "qlist": facts.fn(B + "add_generic_qlist", rule=rule),
        "aec_g": facts.fn(B + "add_address_event_count", sig=["const CDNS::GenericAddressEventCount &", opt], rule=rule),
        "aec_d": facts.fn(B + "add_address_event_count", sig=["const CDNS::AddressEventCount &", opt], rule=rule),
        "mm_g": facts.fn(B + "add_malformed_message", sig=["const CDNS::GenericMalformedMessage &", opt], rule=rule),
        "mm_d": facts.fn(B + "add_malformed_message", sig=["const CDNS::MalformedMessage &", opt], rule=rule),
    }


def guarded_assignments(fn):
    """[(lhs path, rhs, node, guard, block-stmts)] with the A1 guard of each assignment statement."""
    env = Env(fn["body"])
    out = []
    for st, g, loops in ir.guarded_statements(fn["body"], env):
        if st.get("k") in ("IfCond", "LoopHead", "SwitchHead"):
            continue
        for lp, rhs, node in consumption.assignment_targets([st]):
            out.append((lp, rhs, node, g, st))
    return out, env


def check(run):
    # hints cached from the block parameters are recomputed wherever the parameters change
    from .. import derived as _derived
    _derived.report(run, "R04.7", ["CDNS::CdnsBlock", "CDNS::CdnsBlockRead", "CDNS::CdnsExporter", "CDNS::FilePreamble", "CDNS::BlockParameters"])
    # a copied block applies the hints its preamble names: parameters and the preamble (which carries their index) travel together
    from . import C19
    C19.check_block_assignment(run, "R04.6", only=("m_block_parameters", "m_block_preamble"))
    facts = run.facts
    eps = entry_points(facts, "R04.1")
    adders, getters, tabs = tables.adders_getters(facts)
    masks = {q: set(e["n"] for e in facts.enum(q, rule="R04.1")["enumerators"]) for q in WORD_ENUM.values()}
    # hint bit numbers against RFC 8618 (A6)
    for q, names in tables.rfc()["hints"].items():
        en = facts.enum(q, rule="R04.1")
        vals = {e["n"]: e["v"] for e in en["enumerators"]}
        for nm, bit in names.items():
            ok = vals.get(nm) == 1 << bit
            run.ob("R04.5", "%s::%s=bit%d" % (short(q), nm, bit), ok, en["file"], en["line"],
                   "hint bit %d as in RFC 8618" % bit if ok else "%s::%s = %s, RFC 8618 assigns bit %d" % (q, nm, vals.get(nm), bit), nontrivial=False)

    exempt = {}
    n_tests = set()
    # ---------------- R04.1 / R04.2 / R04.3 on the QR entry point and the RR-list helper
    for tag in ("qr", "rrlist", "qlist"):
        fn = eps[tag]
        assigns, env = guarded_assignments(fn)
        M = C01.Mapping(fn, facts, adders, getters, "write")
        types = M.types
        # call-site guards for helpers: union = weakest; we require each call site to be hinted (done via R04.1 on the caller)
        filled_flags = {}
        for lp, rhs, node, g, st in assigns:
            # a "filled" flag: a local bool that starts false and is set to true next to the insertion (whatever its name)
            if lp and len(lp) == 1 and lp[0].startswith("l:") and const_value(rhs) in (1, True) and \
                    (unwrap(node.get("lhs") if node.get("k") == "Bin" else {}) or {}).get("t") == "bool" and const_value(env.defs.get(lp[0])) in (0, False):
                filled_flags.setdefault(g, set()).add(lp[0])
        for lp, rhs, node, g, st in assigns:
            if lp is None or not lp[0].startswith("l:") or len(lp) < 2:
                continue
            vt = types.get(lp[0], (None, None))[0]
            if vt not in ("CDNS::QueryResponse", "CDNS::QueryResponseSignature", "CDNS::RR", "CDNS::Question",
                          "CDNS::ResponseProcessingData", "CDNS::QueryResponseExtended"):
                continue
            field = [x for x in lp[1:] if x != "$"][0]
            chain = M.chain(lp[0])
            full = (chain or "") + field
            key = "%s:%s" % (short(fn["qn"]).split("::")[-1], full)
            need = []
            why_exempt = None
            if vt in STRUCT_WORD and field in masks[WORD_ENUM[STRUCT_WORD[vt]]]:
                need.append((STRUCT_WORD[vt], field))
                if vt == "CDNS::QueryResponseSignature":
                    need.append(("query_response_hints", "qr_signature_index"))
            elif full in SECTION_BITS:
                need.append(SECTION_BITS[full])
            elif field in NO_HINT and vt == "CDNS::QueryResponse":
                why_exempt = NO_HINT[field]
            elif rfc_mandatory(vt, field):
                why_exempt = "mandatory member of %s in RFC 8618 (no hint bit)" % short(vt)
            else:
                run.ob("R04.1", key, None, fn, node.get("l", 0), "no hint bit can be associated with %s.%s" % (short(vt), field))
                continue
            if why_exempt:
                exempt[key] = why_exempt
                continue
            missing = [(w, b) for (w, b) in need if not has_bit(g, w, b)]
            for w, b in need:
                n_tests.add((w, b))
            run.ob("R04.1", key, not missing, fn, node.get("l", 0),
                   "assignment dominated by %s" % " and ".join("%s & %s" % (w, b) for w, b in need) if not missing else
                   "member %s is assigned without the test of hint bit %s (guard: %s): the field reaches the file although its hint is cleared" % (
                       full, " / ".join("%s::%s" % (w, b) for w, b in missing), show_f(g)))
            # R04.2: a table insertion feeding this member sits in the same statement (same guard) -- check the rhs
            e = unwrap_all_casts(rhs)
            while isinstance(e, dict) and e.get("k") == "Construct" and len(e.get("args", [])) == 1:
                e = unwrap_all_casts(e["args"][0])
            if isinstance(e, dict) and e.get("k") == "MCall" and callee_qn(e) in adders:
                run.ob("R04.2", "%s<-%s" % (key, short(callee_qn(e)).split("::")[-1]), not missing, fn, node.get("l", 0),
                       "insertion into %s happens under the hint test of the member that refers to it" % adders[callee_qn(e)] if not missing else
                       "value is inserted into table %s without the hint test of %s: a table entry no enabled field refers to" % (adders[callee_qn(e)], full))
                # R04.3 filled flag in the same guarded block, and the object is stored under that flag
                if vt in ("CDNS::QueryResponse", "CDNS::QueryResponseSignature", "CDNS::ResponseProcessingData", "CDNS::QueryResponseExtended"):
                    flags = filled_flags.get(g, set())
                    stores = []
                    for st2, g2, loops2 in ir.guarded_statements(fn["body"], env):
                        if st2.get("k") in ("IfCond", "LoopHead", "SwitchHead"):
                            continue
                        for c in ir.calls_in(st2):
                            if callee_name(c) in ("push_back", "emplace_back") or callee_qn(c) in adders:
                                if any(path(unwrap_all_casts(a)) == (lp[0],) for a in c.get("args", [])):
                                    stores.append((c, g2))
                        for lp2, rhs2, node2 in consumption.assignment_targets([st2]):
                            r2 = unwrap_all_casts(rhs2)
                            while isinstance(r2, dict) and r2.get("k") == "Construct" and len(r2.get("args", [])) == 1:
                                r2 = unwrap_all_casts(r2["args"][0])      # optional<T>(value), copies
                            if path(r2) == (lp[0],) and lp2 and lp2[0] != lp[0]:
                                stores.append((node2, g2))
                    okf = bool(stores) and all(any(("nz", fl) in conjuncts(g2) for fl in flags) or g2 == ("T",) for c, g2 in stores)
                    run.ob("R04.3", "%s:reachable" % key, okf, fn, node.get("l", 0),
                           "the object receiving the index is marked filled here and stored under that flag" if okf else
                           "table insertion for %s is not tied to a *_filled flag that guards the store of %s: the table entry may be unreachable" % (full, lp[0].split("#")[0][2:]))
    # adder calls that are not the direct right-hand side of a member assignment (hoisted insertions)
    for tag in ("qr", "rrlist", "qlist", "mm_g", "aec_g"):
        fn = eps[tag]
        env = Env(fn["body"])
        for st, g, loops in ir.guarded_statements(fn["body"], env):
            if st.get("k") in ("IfCond", "LoopHead", "SwitchHead"):
                continue
            direct = set()
            for lp, rhs, node in consumption.assignment_targets([st]):
                e = unwrap_all_casts(rhs)
                while isinstance(e, dict) and e.get("k") == "Construct" and len(e.get("args", [])) == 1:
                    e = unwrap_all_casts(e["args"][0])
                if isinstance(e, dict) and e.get("k") == "MCall" and callee_qn(e) in adders and lp and len(lp) >= 2:
                    direct.add(id(e))
            for c in ir.calls_in(st):
                if callee_qn(c) in adders and id(c) not in direct:
                    # allowed: push_back(add_x(..)) into the list handed to add_*_list; return add_*_list(..)
                    ctx_ok = False
                    for n, parents in ir.walk_with_parents(st):
                        if n is c:
                            for p in parents:
                                if p.get("k") == "MCall" and callee_name(p) in ("push_back", "emplace_back"):
                                    ctx_ok = True
                                if p.get("k") == "Return":
                                    ctx_ok = True
                    any_bit = any(cj[0] == "bit" for cj in conjuncts(g))
                    if tag in ("qr",):
                        run.ob("R04.2", "%s:%s@line-independent(%s)" % (tag, short(callee_qn(c)).split("::")[-1], show(c["args"][0]) if c.get("args") else ""),
                               ctx_ok or any_bit and False, fn, c.get("l", 0),
                               "insertion result flows into a list/return" if ctx_ok else
                               "table insertion %s is not the right-hand side of a hinted member assignment: the value enters the table regardless of the field's hint" % show(c))
                    elif not ctx_ok and tag in ("rrlist", "qlist"):
                        run.ob("R04.2", "%s:%s(%s)" % (tag, short(callee_qn(c)).split("::")[-1], show(c["args"][0]) if c.get("args") else ""), False, fn, c.get("l", 0),
                               "table insertion %s is detached from the member assignment it serves" % show(c))
    run.floor("R04.1", 30, "hinted member assignments")
    run.floor("R04.2", 12, "table insertions in the generic entry points")
    run.floor("R04.3", 8, "inserting blocks with a filled flag")
    run.info["exempt_members"] = exempt
    run.info["distinct_hint_tests"] = len(n_tests)

    # ---------------- R04.4 other-data hints
    for tag, bit in (("aec_g", "address_event_counts"), ("aec_d", "address_event_counts"), ("mm_g", "malformed_messages"), ("mm_d", "malformed_messages")):
        fn = eps[tag]
        env = Env(fn["body"])
        stores = []
        for st, g, loops in ir.guarded_statements(fn["body"], env):
            if st.get("k") in ("IfCond", "LoopHead", "SwitchHead"):
                continue
            txt = show(st) if st.get("k") not in ("Decl", "Return") else ""
            is_store = False
            for c in ir.calls_in(st):
                if callee_name(c) in ("push_back", "emplace_back", "insert", "emplace") and path(c.get("recv")) in (("this", "m_malformed_messages"), ("this", "m_address_event_counts")):
                    is_store = True
                if c.get("k") == "OpCall" and c.get("op") == "[]" and c.get("args") and path(c["args"][0]) == ("this", "m_address_event_counts"):
                    is_store = True
                if callee_qn(c) in adders:
                    is_store = True
            for n in ir.walk(st):
                if n.get("k") == "Un" and n.get("op") in ("post++", "pre++") and "second" in show(n.get("e")):
                    is_store = True
            if is_store:
                stores.append((st, g))
        okk = bool(stores) and all(has_bit(g, "other_data_hints", bit) for st, g in stores)
        bad = [st for st, g in stores if not has_bit(g, "other_data_hints", bit)]
        run.ob("R04.4", "%s:behind-%s-hint" % (short(fn["qn"]).split("::")[-1] + "(" + short(fn["sig"][0]).replace("const ", "").replace(" &", "") + ")", bit),
               okk, fn, bad[0].get("l", fn["line"]) if bad else fn["line"],
               "every store/insertion is dominated by the other_data_hints & %s test" % bit if okk else
               "%d store(s)/insertion(s) are reachable with other_data_hints::%s cleared (e.g. line %s)" % (len(bad), bit, bad[0].get("l") if bad else "?"))
    run.floor("R04.4", 4, "other-data entry points")

    # ---------------- R04.5 preamble states the hints applied; blocks re-armed with the parameters of their index
    sh = [f for f in facts.fns("CDNS::StorageHints::write") if emission.is_serialiser_sig(f)]
    if len(sh) != 1:
        raise AnalysisBroken("R04.5", "StorageHints::write not found")
    wa = emission.analyse_writer(sh[0], facts)
    written = set()
    for r in wa.rows:
        v = r["value"]
        p = path(v.ev.call["args"][0]) if v is not None and v.ev.call.get("args") else None
        if p and p[0] == "this" and len(p) == 2 and r["guard"] == ("T",):
            written.add(p[1])
            ok = p[1] == r["name"]
            run.ob("R04.5", "StorageHints::write:%s" % r["name"], ok, sh[0], r["line"],
                   "hint word %s written under its own key" % p[1] if ok else "key %s carries hint word %s" % (r["name"], p[1]))
    ok = written == set(WORD_ENUM)
    run.ob("R04.5", "StorageHints::write:all-words", ok, sh[0], sh[0]["line"],
           "the four hint words the guards read are written unconditionally" if ok else "hint words written: %s, words read by the guards: %s" % (sorted(written), sorted(WORD_ENUM)))
    wb0 = facts.fn("CDNS::CdnsExporter::write_block", sig=[], rule="R04.5")
    calls = [c for c in ir.calls_in(wb0["body"]) if callee_qn(c) == "CDNS::CdnsBlock::set_block_parameters"]
    ok = False
    if len(calls) == 1:
        a = calls[0]["args"]
        g = unwrap(a[0])
        ok = isinstance(g, dict) and callee_qn(g) == "CDNS::FilePreamble::get_block_parameters" and \
            path(g["args"][0]) == ("this", "m_active_block_parameters") == path(a[1]) and path(g.get("recv")) == ("this", "m_file_preamble")
    run.ob("R04.5", "write_block():re-arm-same-index", ok, wb0, wb0["line"],
           "the new block gets the parameter set whose index it records" if ok else
           "write_block() must re-arm with m_file_preamble.get_block_parameters(i) and the same i as the block's index")
    sbp = facts.fn("CDNS::CdnsBlock::set_block_parameters", rule="R04.5")
    aset = {lp: rhs for lp, rhs, node in consumption.assignment_targets(ir.stmts(sbp["body"])) if lp}
    src_bp = path(aset.get(("this", "m_block_parameters"))) if aset.get(("this", "m_block_parameters")) is not None else None
    if src_bp is None:
        # copy-and-swap: `BlockParameters next(bp); swap(m_block_parameters, next);`
        env_s = Env(sbp["body"])
        for c in ir.calls_in(sbp["body"]):
            if callee_name(c) == "swap":
                ops = [path(x) for x in ([c.get("recv")] if c.get("k") == "MCall" else []) + list(c.get("args", [])) if x is not None]
                if ("this", "m_block_parameters") in ops:
                    other = [o for o in ops if o and o != ("this", "m_block_parameters")]
                    d_ = env_s.defs.get(other[0][0]) if other and len(other[0]) == 1 else None
                    u_ = unwrap_all_casts(d_) if d_ is not None else None
                    while isinstance(u_, dict) and u_.get("k") == "Construct" and len(u_.get("args", [])) == 1:
                        u_ = unwrap_all_casts(u_["args"][0])
                    if isinstance(u_, dict) and path(u_):
                        src_bp = path(u_)
    ok = src_bp == ("p:%s" % sbp["params"][0]["n"],) and \
        path(unwrap_all_casts(aset.get(("this", "m_block_preamble", "block_parameters_index")))) == ("p:%s" % sbp["params"][1]["n"],)
    run.ob("R04.5", "set_block_parameters:both", ok, sbp, sbp["line"], "parameters and their index are set together")
    # ... on every path on which the block is empty: no other early exit may skip the copy (the index does not
    # identify the contents: get_active_block_parameters_ref() lets the application edit a set in place)
    envs = Env(sbp["body"])
    for st, g, loops in ir.guarded_statements(sbp["body"], envs):
        if st.get("k") in ("IfCond", "LoopHead", "SwitchHead"):
            continue
        for lp, rhs, node in consumption.assignment_targets([st]):
            if lp == ("this", "m_block_parameters"):
                extra = ir.without_item_count_tests(conjuncts(g))
                run.ob("R04.5", "set_block_parameters:always-copies", not extra, sbp, node.get("l", 0),
                       "an empty block always takes over the parameter set handed in" if not extra else
                       "the copy of the block parameters is skipped when %s: the block keeps building under stale hints while the "
                       "preamble states the new ones" % " && ".join(show_f(a) for a in extra))
    run.floor("R04.5", 40, "hint bits, hint words, re-arm")
