"""C12 Buffering conserves records and flushes blocks exactly at the configured size (structural clauses)."""
from .. import ir, consumption, emission
from ..ir import (path, path_str, unwrap, unwrap_all_casts, callee_name, callee_qn, const_value, show, show_f, Env, conjuncts,
                  cond, f_or, f_not)
from ..facts import AnalysisBroken

META = {
    "level": "other",
    "rule_text": "R12.1 each buffer_* calls write_block() exactly on the true edge of its add_* result and returns that count, else "
                 "0; R12.2 every add_* overload returns full() on every storing path and false only on the hint-off exit; R12.3 "
                 "full() is the disjunction of size() >= max_block_items over exactly the three item containers; R12.4 "
                 "write_block(): write, then clear, then re-arm with the active parameters, no handler around the write; R12.5 "
                 "each storing path of each add_* inserts exactly once and never erases, and the buffered block is cleared only "
                 "by write_block(); R12.6 the exporter's counters delegate to the containers' size(). R12.7: the key obligations of C11 for AddressEventCount (the aggregation map is keyed by it). R12.8: a data member that is always assigned the same function of other members (cdnsverif/derived.py) is recomputed by every member function that changes those members; the lazy form under a validity flag / stored key is refreshed before every read and invalidated after every change (a cached item limit). R12.9 = R01.11: every CdnsBlock member that a method called from buffer_* can change is re-initialised by clear(), so the block re-armed after a flush starts from nothing.",
    "explanation": "Structural rules over seven small functions; the state-machine claims of C12 (order across flushes, max 0 acts "
                   "like 1, counters after parameter switches) follow from R12.1-R12.6 by a short pen-and-paper induction recorded "
                   "in DESIGN.md, not by a mechanised proof.",
    "trusted_base": ["clang 14 AST"],
    "assumptions": [],
}

EXP = "CDNS::CdnsExporter"
BLK = "CDNS::CdnsBlock"
ITEMS = ("m_query_responses", "m_address_event_counts", "m_malformed_messages")
MAXP = "this.m_block_parameters.storage_parameters.max_block_items"


def short(q):
    return q.replace("CDNS::", "")


def check_buffer_methods(run, rule):
    facts = run.facts
    for meth, adder in (("buffer_qr", "add_question_response_record"), ("buffer_aec", "add_address_event_count"), ("buffer_mm", "add_malformed_message")):
        f = facts.fn("%s::%s" % (EXP, meth), rule=rule)
        env = Env(f["body"])
        wb = []
        adds = [c for c in ir.calls_in(f["body"]) if callee_qn(c) == "%s::%s" % (BLK, adder)]
        for st, g, loops in ir.guarded_statements(f["body"], env):
            if st.get("k") in ("IfCond", "LoopHead", "SwitchHead"):
                continue
            for c in ir.calls_in(st):
                if callee_qn(c) == EXP + "::write_block" and not c.get("args"):
                    wb.append((c, g, st))
        ok = len(adds) == 1 and len(wb) == 1
        why = ""
        if ok:
            a = adds[0]
            # arguments are the method's own parameters, receiver is the buffered block
            ok = path(a.get("recv")) == ("this", "m_block") and [path(x) for x in a.get("args", [])] == [("p:%s" % p["n"],) for p in f["params"]]
            if not ok:
                why = "add_* is not called on m_block with the method's own arguments"
        if ok:
            c, g, st = wb[0]
            atoms = conjuncts(g)
            ok = len(atoms) == 1 and atoms[0][0] == "call" and adder in atoms[0][1]
            if not ok:
                why = "write_block() is guarded by %s, not by exactly the result of %s" % (show_f(g), adder)
        if ok:
            # the value returned is 0 when nothing was written and the count of write_block() otherwise: decided by the
            # byte-accounting dataflow (A3), which accepts every additive route from the call to the return
            from .. import accounting
            E_, is_prim_, kbs_ = accounting.emitter_set(facts)
            sites_, rets_, accs_ = accounting.analyse(f, facts, E_, is_prim_, kbs_)
            ok = bool(rets_) and all(s_.status is True for s_ in sites_) and all(r_[1] is True for r_ in rets_) and len(accs_) <= 1
            if not ok:
                why = "the method does not return (0 | the count of the block written): %s" % \
                    "; ".join([s_.why for s_ in sites_ if s_.status is not True] + [r_[2] for r_ in rets_ if r_[1] is not True])
        run.ob(rule, "%s:flush-iff-full" % meth, ok, f, f["line"],
               "writes the block exactly when %s reports it full and returns that byte count, else 0" % adder if ok else why or "unexpected shape")
    run.floor(rule, 3, "buffer methods")


def full_formula():
    return f_or(*[("cmp", "<=", MAXP, "size(this.%s)" % m) for m in ITEMS])


def check_adders(run, rule_ret, rule_cons):
    facts = run.facts
    fns = [f for f in facts.functions.values() if f.get("cls") == BLK and f["qn"].split("::")[-1] in
           ("add_question_response_record", "add_address_event_count", "add_malformed_message")]
    if len(fns) != 6:
        raise AnalysisBroken(rule_ret, "expected 6 add_* overloads, found %d" % len(fns))
    for f in sorted(fns, key=lambda f: f["line"]):
        tag = "%s(%s)" % (f["qn"].split("::")[-1], short(f["sig"][0]).replace("const ", "").replace(" &", ""))
        env = Env(f["body"])
        nret = 0
        for st, g, loops in ir.guarded_statements(f["body"], env):
            if st.get("k") != "Return":
                continue
            nret += 1
            e = unwrap(st.get("e"))
            is_full = False
            if isinstance(e, dict) and e.get("k") == "Cond":
                is_full = callee_qn(unwrap(e["c"])) == BLK + "::full" and const_value(e["a"]) in (1, True) and const_value(e["b"]) in (0, False)
            elif isinstance(e, dict) and callee_qn(e) == BLK + "::full":
                is_full = True
            cv = const_value(st.get("e"))
            if is_full:
                run.ob(rule_ret, "%s:return#%d" % (tag, nret), True, f, st.get("l", 0), "returns full()")
            elif cv in (0, False):
                hint_off = any(a[0] == "not" and a[1][0] == "bit" and "other_data_hints" in path_str(a[1][1]) for a in conjuncts(g))
                run.ob(rule_ret, "%s:return#%d" % (tag, nret), hint_off, f, st.get("l", 0),
                       "returns false only on the hint-off exit (nothing stored)" if hint_off else
                       "returns false on a path that is not the hint-off exit (guard %s): a full block is not flushed" % show_f(g))
            else:
                run.ob(rule_ret, "%s:return#%d" % (tag, nret), False, f, st.get("l", 0),
                       "returns %s instead of full(): the exporter flushes at the wrong time" % show(st.get("e")))
        # conservation: one insertion site per container kind, no erase
        inserts = []
        erases = []
        for c in ir.calls_in(f["body"]):
            rp = path(c.get("recv")) if c.get("k") == "MCall" else None
            if rp and rp[0] == "this" and len(rp) == 2 and rp[1] in ITEMS:
                if callee_name(c) in ("push_back", "emplace_back", "insert", "emplace"):
                    inserts.append(c)
                if callee_name(c) in ("erase", "clear", "pop_back", "resize"):
                    erases.append(c)
            if c.get("k") == "OpCall" and c.get("op") == "[]" and c.get("args") and path(c["args"][0]) and path(c["args"][0])[-1] in ITEMS:
                inserts.append(c)
            if c.get("k") == "MCall" and callee_name(c) == "clear" and path(c.get("recv")) == ("this",):
                erases.append(c)
        # ... and no path reports "accepted" (returns full()) before it got to the insertion: a shortcut in front of the store
        # drops the records that take it
        if len(inserts) == 1:
            order_ = {id(x): i for i, x in enumerate(ir.walk(f["body"]))}
            def empty_record(g_):
                """the guard says that no member of the record handed in is set (such a record is not storable by design)"""
                at = [a_ for a_ in conjuncts(g_) if not (a_[0] == "bit" and "other_data_hints" in path_str(a_[1]))]   # past the storage gate
                return bool(at) and all(a_[0] == "not" and a_[1][0] in ("present", "nonempty") and a_[1][1][0].startswith("p:") for a_ in at)
            early = [st_ for st_, g_, loops_ in ir.guarded_statements(f["body"], env) if st_.get("k") == "Return" and
                     order_[id(st_)] < order_[id(inserts[0])] and const_value(st_.get("e")) not in (0, False) and not empty_record(g_)]
            run.ob(rule_cons, "%s:no-accepting-return-before-the-store" % tag, not early, f, early[0].get("l", f["line"]) if early else f["line"],
                   "every return that reports the record as taken comes after the store" if not early else
                   "a return at line %s reports the record as taken (returns %s) before the function reached its store: records that take this "
                   "path are dropped without trace" % (early[0].get("l"), show(early[0].get("e"))))
        ok = len(inserts) == 1 and not erases
        run.ob(rule_cons, "%s:inserts-once" % tag, ok, f, (erases or inserts or [f])[0].get("l", f["line"]) if (erases or inserts) else f["line"],
               "one insertion site, nothing erased" if ok else
               "%d insertion site(s) and %d erase/clear call(s): a record can be dropped or duplicated" % (len(inserts), len(erases)))
    run.floor(rule_ret, 8, "returns of the add_* overloads")


def check_write_clear_rearm(run, rule):
    """write_block(): the buffered block is serialised, then cleared, then re-armed with the active parameters - all three
    unconditionally (an empty block still has to take over a newly selected parameter set)."""
    facts = run.facts
    wb = facts.fn(EXP + "::write_block", sig=[], rule=rule)
    seq = []
    for st in ir.stmts(wb["body"]):
        for c in ir.calls_in(st):
            q = callee_qn(c)
            if q == EXP + "::write_block" and c.get("args"):
                seq.append("write")
                okarg = path(c["args"][0]) == ("this", "m_block")
                if not okarg:
                    seq.append("write-other-block")
            elif q == BLK + "::clear" and path(c.get("recv")) == ("this", "m_block"):
                seq.append("clear")
            elif q == BLK + "::set_block_parameters" and path(c.get("recv")) == ("this", "m_block"):
                seq.append("rearm")
    tries = [n for n in ir.walk(wb["body"]) if n.get("k") == "Try"]
    # clear and re-arm are unconditional once the write returned (also when nothing was written: an empty block must
    # still take over the active parameters)
    cond_after = []
    envw = Env(wb["body"])
    for st, g, loops in ir.guarded_statements(wb["body"], envw):
        if st.get("k") in ("IfCond", "LoopHead", "SwitchHead"):
            continue
        for c in ir.calls_in(st):
            if callee_qn(c) in (BLK + "::clear", BLK + "::set_block_parameters") and g != ("T",):
                cond_after.append((callee_name(c), g))
    if cond_after:
        seq.append("conditional:%s" % cond_after[0][0])
    ok = seq == ["write", "clear", "rearm"] and not tries
    run.ob(rule, "write_block():write-clear-rearm", ok, wb, wb["line"],
           "the buffered block is serialised, then cleared, then re-armed; an exception from the write leaves it buffered" if ok else
           ("write_block() performs %s only when %s: after set_active_block_parameters() an empty buffered block keeps the old parameters (limit, hints, index)" % (
               cond_after[0][0], show_f(cond_after[0][1]))) if cond_after else
           "write_block() sequence is %s%s; the block must be cleared only after write_block(m_block) returned normally" % (seq, " inside a try block" if tries else ""))
    rets = [n for n in ir.walk(wb["body"]) if n.get("k") == "Return"]
    run.floor(rule, 1, "write_block()")



def check(run):
    # a limit (or anything else) cached from the block parameters is recomputed wherever the parameters change
    from .. import derived as _derived
    _derived.report(run, "R12.8", ["CDNS::CdnsBlock", "CDNS::CdnsBlockRead", "CDNS::CdnsExporter", "CDNS::FilePreamble", "CDNS::BlockParameters"])
    facts = run.facts
    # address events are aggregated in a map keyed by the event itself: the count of distinct events (and with it the
    # moment the block is full) is right only if the key's equality and hash tell all distinct events apart
    from . import C11
    C11.check_hash_eq(run, "R12.7", only=["CDNS::AddressEventCount"], floor=4)
    check_buffer_methods(run, "R12.1")
    check_adders(run, "R12.2", "R12.5")
    # R12.3
    fu = facts.fn(BLK + "::full", rule="R12.3")
    rets = [n for n in ir.walk(fu["body"]) if n.get("k") == "Return"]
    got = cond(rets[0]["e"], Env(fu["body"])) if len(rets) == 1 else None
    ok = got == full_formula()
    run.ob("R12.3", "full:size>=max-over-3-containers", ok, fu, fu["line"],
           "full() == (qr.size() >= max || aec.size() >= max || mm.size() >= max)" if ok else
           "full() computes %s; the block must count as full exactly when one of the three item containers has reached max_block_items" % (show_f(got) if got else "?"))
    run.floor("R12.3", 1, "full()")

    check_write_clear_rearm(run, "R12.4")
    # the block the exporter re-arms after a flush starts from nothing: whatever a buffered record leaves in the block (a
    # look-aside of the last address, a remembered index) is gone with the records it describes (R01.11 imported)
    from . import C01 as _C01
    _C01.check_block_state_cleared(run, "R12.9")
    wb = facts.fn(EXP + "::write_block", sig=[], rule="R12.5")

    # R12.5 who may clear the buffered block
    callers = []
    for f in facts.functions.values():
        if f.get("body") is None or not f.get("file", "").startswith(facts.repo + "/src/") or "/src/bin/" in f.get("file", ""):
            continue
        for c in ir.calls_in(f["body"]):
            rp = path(c.get("recv")) if c.get("k") == "MCall" else None
            # the exporter's buffered block, reached from the exporter itself or through a pointer / reference to it (a helper
            # object's destructor, for instance: that one also runs when an exception unwinds the frame)
            if callee_qn(c) == BLK + "::clear" and rp and rp[-1] == "m_block" and (f.get("cls") == EXP or len(rp) > 2) and f not in callers:
                callers.append(f)
    ok = [f["key"] for f in callers] == [wb["key"]]
    run.ob("R12.5", "m_block.clear:only-write_block", ok, wb, wb["line"],
           "the buffered block is cleared only by write_block()" if ok else "m_block.clear() is also called from %s" % [short(f["qn"]) for f in callers if f["key"] != wb["key"]])
    # no other exporter method mutates the block's item containers directly (reading their size is not a mutation)
    from .. import normalize
    for f in facts.functions.values():
        if f.get("cls") != EXP:
            continue
        for n in ir.walk(f["body"]):
            for p, kind in normalize.node_writes(n, None):
                if p and p[:2] == ("this", "m_block") and len(p) > 2 and p[2] in ITEMS:
                    run.ob("R12.5", "%s:touches-%s" % (short(f["qn"]), p[2]), False, f, n.get("l", 0),
                           "exporter manipulates the block's item container directly (%s)" % kind)
    run.floor("R12.5", 7, "conservation obligations")

    # R12.6 counters (the block's getters are inlined by the normalisation: the exporter's counter must come out as the
    # size of the buffered block's container, and the block's own getter as the size of its container)
    for meth, inner, cont in (("get_block_qr_count", "get_qr_count", "m_query_responses"), ("get_block_aec_count", "get_aec_count", "m_address_event_counts"),
                              ("get_block_mm_count", "get_mm_count", "m_malformed_messages"), ("get_block_item_count", "get_item_count", None)):
        f = facts.fn("%s::%s" % (EXP, meth), rule="R12.6")
        g = facts.fn("%s::%s" % (BLK, inner), rule="R12.6")
        res = []
        for fn_, prefix in ((f, "this.m_block."), (g, "this.")):
            rets = [n for n in ir.walk(fn_["body"]) if n.get("k") == "Return"]
            txt = show(rets[0]["e"]) if len(rets) == 1 and rets[0].get("e") is not None else ""
            if cont:
                res.append((txt == "%s%s.size()" % (prefix, cont), txt))
            else:
                res.append((all(("%s%s.size()" % (prefix, m)) in txt for m in ITEMS) and txt.count("size()") == 3 and
                            "-" not in txt and "*" not in txt, txt))
        ok = res[0][0] and res[1][0]
        run.ob("R12.6", "%s" % meth, ok, f, f["line"],
               "reports the size of the buffered block's container(s)" if ok else "%s returns %s / %s returns %s" % (meth, res[0][1], inner, res[1][1]))
    bw = facts.fn(EXP + "::get_blocks_written_count", rule="R12.6")
    rets = [n for n in ir.walk(bw["body"]) if n.get("k") == "Return"]
    ok = len(rets) == 1 and path(rets[0]["e"]) == ("this", "m_blocks_written")
    run.ob("R12.6", "get_blocks_written_count", ok, bw, bw["line"], "reports m_blocks_written")
    # set_active_block_parameters: bounds-checked, affects only the next block
    sa = facts.fn(EXP + "::set_active_block_parameters", rule="R12.6")
    env = Env(sa["body"])
    okg = False
    for st, g, loops in ir.guarded_statements(sa["body"], env):
        for lp, rhs, node in consumption.assignment_targets([st]) if st.get("k") not in ("IfCond", "LoopHead", "SwitchHead") else []:
            if lp == ("this", "m_active_block_parameters"):
                okg = any(a[0] == "cmp" and a[1] == "<" and a[2] == "p:%s" % sa["params"][0]["n"] for a in conjuncts(g))
    touches_block = any(path(n) and path(n)[:2] == ("this", "m_block") for n in ir.walk(sa["body"]) if n.get("k") == "Member")
    run.ob("R12.6", "set_active_block_parameters:checked-and-deferred", okg and not touches_block, sa, sa["line"],
           "index is bounds-checked and the buffered block is left untouched" if okg and not touches_block else
           "set_active_block_parameters must bounds-check the index and must not touch the buffered block")
    run.floor("R12.6", 6, "counters")
