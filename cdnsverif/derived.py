"""Derived members: data members that are always assigned the same function of other members of the object.

    m_item_limit  = m_block_parameters.storage_parameters.max_block_items        (a cached field)
    m_suffix      = <m_value already ends with m_extension> ? "" : m_extension   (a composed value)

`analyse(facts, cls)` finds them from the code itself: a member D is derived when every store to it - constructor
initialisers included - is a plain assignment whose value, written over the state the function leaves behind (a parameter
that the same function stored into member s counts as `this.s`), is one and the same expression E over other members S, or a
copy `D = other.D` next to copies of all of S from the same object.

For a derived member the class owes an invariant, D == E(S) whenever a member function returns.  It is decided per member
function on the order of its writes (calls of the object's own member functions are followed): the function's last write to a
member of S must be followed by a write to D.  A function that writes S last is reported: D was computed from the old value
(`refresh_suffix(); m_value.swap(next);`, or `swap(m_block_parameters, next); m_item_limit = next...` where the value no
longer comes from the member).  Writes to S from outside the class, or anything other than plain stores to D, leave the
member *undecided* - no claim either way.

`eliminate(facts, cls, info)` rewrites a verified derived member away: reads become E, its stores and its field go.  The
rules then see the class as if the value were computed at every use, which is what they are written for."""
import copy

from . import ir
from .ir import path, unwrap, unwrap_all_casts, callee_name, show, walk


def _member_path(e):
    p = path(unwrap_all_casts(e)) if isinstance(e, dict) else None
    if p and p[0] == "this" and len(p) >= 2:
        return p
    return None


_MEMO = {}


def _accessor(facts, call):
    """an in-repo member function that only checks its arguments (throwing) and returns an element / member of its object:
    no assignment, no loop, no call other than size() / empty() / element access / exception constructors"""
    cal = call.get("callee") or {}
    found = False
    for g in facts.fns(cal.get("qn")):
        if g.get("sig") != cal.get("sig") or g.get("body") is None:
            continue
        found = True
        for x in walk(g["body"]):
            k = x.get("k")
            if k in ("While", "For", "Do", "RangeFor", "Lambda", "New", "Delete"):
                return False
            if k == "Bin" and (x.get("op") or "").endswith("=") and x.get("op") not in ("==", "!=", "<=", ">="):
                return False
            if k == "Un" and x.get("op") in ("pre++", "post++", "pre--", "post--"):
                return False
            if k in ("MCall", "Call", "OpCall"):
                nm = callee_name(x) or ("operator" + (x.get("op") or ""))
                c2 = x.get("callee") or {}
                if not (c2.get("const") or nm in ("size", "empty", "at", "operator[]", "front", "back", "begin", "end", "get", "value", "c_str", "to_string", "operator+") or
                        (k == "OpCall" and x.get("op") in ("[]", "*", "->", "==", "!=", "<", ">", "<=", ">=", "+"))):
                    return False
    return found


def _events(facts, cls, f, depth=0, seen=frozenset()):
    """writes and reads of members of *this in program order (calls of own member functions spliced in):
       ('w', member, value expr or None, node, fn)   ('r', member, node, fn)"""
    if f.get("body") is None or f["key"] in seen or depth > 4:
        return []
    out = []
    for i_ in f.get("inits", []) or []:
        if i_.get("member") and i_.get("init") is not None and not i_.get("inherited_from") and i_.get("written", True):
            for x in walk(i_["init"]):
                mp = _member_path(x) if x.get("k") == "Member" else None
                if mp:
                    out.append(("r", mp[1], x, f))
            out.append(("w", i_["member"], i_["init"], i_, f))
    lhs_nodes = set()

    def visit(n):
        if isinstance(n, list):
            for x in n:
                visit(x)
            return
        if not isinstance(n, dict) or n.get("k") == "Lambda":
            return
        k = n.get("k")
        if k == "If" and n.get("else") is not None and n.get("condvar") is None:
            # `if (c) m = a; else m = b;` is the store `m = c ? a : b` (a lifted conditional expression)
            def single_store(b_):
                sts_ = [x for x in ir.stmts(b_) if isinstance(x, dict) and x.get("k") != "Null"]
                if len(sts_) != 1:
                    return None
                u_ = unwrap(sts_[0])
                if isinstance(u_, dict) and u_.get("k") in ("Bin", "OpCall") and u_.get("op") == "=":
                    l_ = u_.get("lhs") if u_.get("k") == "Bin" else (u_.get("args") or [None])[0]
                    r_ = u_.get("rhs") if u_.get("k") == "Bin" else ((u_.get("args") or [None, None])[1] if len(u_.get("args", [])) > 1 else None)
                    mp_ = _member_path(l_) if l_ is not None else None
                    if mp_ and len(mp_) == 2 and r_ is not None:
                        return mp_[1], r_
                return None
            a_, b_ = single_store(n.get("then")), single_store(n.get("else"))
            if a_ and b_ and a_[0] == b_[0]:
                visit(n.get("cond"))
                visit(a_[1])
                visit(b_[1])
                out.append(("w", a_[0], {"k": "Cond", "c": n["cond"], "a": a_[1], "b": b_[1], "t": (unwrap(a_[1]) or {}).get("t"), "l": n.get("l")}, n, f))
                return
        if k in ("Bin", "OpCall") and (n.get("op") or "").endswith("=") and n.get("op") not in ("==", "!=", "<=", ">="):
            lhs = n.get("lhs") if k == "Bin" else (n.get("args") or [None])[0]
            rhs = n.get("rhs") if k == "Bin" else ((n.get("args") or [None, None])[1] if len(n.get("args", [])) > 1 else None)
            mp = _member_path(lhs) if lhs is not None else None
            if mp:
                visit(rhs)
                # the left-hand side is not a read (for a plain store)
                if n["op"] != "=":
                    out.append(("r", mp[1], lhs, f))
                out.append(("w", mp[1], rhs if (n["op"] == "=" and len(mp) == 2) else None, n, f))
                return
        if k == "Un" and n.get("op") in ("pre++", "post++", "pre--", "post--"):
            mp = _member_path(n.get("e"))
            if mp:
                out.append(("r", mp[1], n, f))
                out.append(("w", mp[1], None, n, f))
                return
        if k == "Un" and n.get("op") == "&":
            mp = _member_path(n.get("e"))
            if mp:
                out.append(("r", mp[1], n, f))
                out.append(("w", mp[1], None, n, f))        # the address escapes: anything may be written through it
                return
        if k in ("MCall", "Call", "OpCall", "Construct"):
            cal = n.get("callee") or {}
            recv = n.get("recv") if k == "MCall" else None
            args = list(n.get("args", []))
            if k == "OpCall" and cal.get("cls") and args:
                recv, args = args[0], args[1:]
            skip_recv = False
            if k == "MCall" and callee_name(n) == "swap" and len(args) == 1 and _member_path(recv) and len(_member_path(recv)) == 2:
                ub_ = unwrap_all_casts(args[0])
                if isinstance(ub_, dict) and ub_.get("k") == "Ref" and ub_.get("d") == "local":
                    skip_recv = True        # the old value goes into a local that is thrown away: not a use of the member
            for c in ([recv] if (recv is not None and not skip_recv) else []) + args:
                visit(c)
            # by-reference arguments
            for a, t in zip(args, cal.get("sig", []) or []):
                if (t.endswith("&") and not t.startswith("const ") and not t.endswith("&&")) or (t.endswith("*") and not t.startswith("const ")):
                    ua = unwrap_all_casts(a)
                    if isinstance(ua, dict) and ua.get("k") == "Un" and ua.get("op") == "*":
                        continue            # what a pointer member points to, not the member
                    mp = _member_path(a)
                    if mp and "$" not in mp:
                        out.append(("w", mp[1], None, n, f))
            if recv is not None:
                ur = unwrap_all_casts(recv)
                if isinstance(ur, dict) and ur.get("k") == "Un" and ur.get("op") == "*" and isinstance(unwrap_all_casts(ur.get("e")), dict) and \
                        unwrap_all_casts(ur["e"]).get("k") == "This":
                    ur = unwrap_all_casts(ur["e"])          # (*this).f(..) / *this = ..
                if isinstance(ur, dict) and ur.get("k") == "This" and cal.get("inrepo") and k in ("MCall", "OpCall"):
                    for g in facts.fns(cal.get("qn")):
                        if g.get("sig") == cal.get("sig"):
                            out.extend(_events(facts, cls, g, depth + 1, seen | {f["key"]}))
                else:
                    mp = _member_path(recv)
                    if mp and k == "MCall" and cal.get("inrepo") and _accessor(facts, n):
                        out.append(("r", mp[1], n, f))
                        return
                    if mp and k == "MCall" and cal.get("inrepo") and "CDNS::CdnsEncoder &" in (cal.get("sig") or []) and cal.get("ret") == "unsigned long":
                        # a serialiser: writes to the encoder it is given, reads its object (the repository's convention,
                        # which R02/R09 check on the serialisers themselves)
                        out.append(("r", mp[1], n, f))
                        return
                    if mp and k == "MCall" and cal.get("inrepo") and not cal.get("virtual"):
                        # an in-repo member function writes what its body (transitively) writes of its own object
                        from . import normalize as _nz
                        try:
                            wr = _nz.node_writes(n, facts, _MEMO)
                        except RecursionError:
                            wr = [(mp, "method")]
                        if not any(w_ and tuple(w_[:2]) == tuple(mp[:2]) for w_, _h in wr) and not any(w_ is None for w_, _h in wr):
                            out.append(("r", mp[1], n, f))
                            return
                    if mp and k == "MCall" and callee_name(n) == "swap" and len(args) == 1 and len(mp) == 2:
                        ub = unwrap_all_casts(args[0])
                        if isinstance(ub, dict) and ub.get("k") == "Ref" and ub.get("d") == "local":
                            out.append(("w", mp[1], {"k": "SwapIn", "local": ub, "node": n}, n, f))
                            return
                    if mp and not cal.get("const") and not cal.get("static") and k in ("MCall", "OpCall"):
                        nm = callee_name(n) or ""
                        if k == "MCall" and nm == "swap" or not cal.get("const"):
                            if not (nm in ("size", "empty", "begin", "end", "find", "at", "c_str", "data", "compare", "length", "front", "back",
                                           "get", "value", "is_initialized", "has_value", "count") or
                                    (k == "OpCall" and n.get("op") in ("[]", "*", "->", "==", "!=", "<", ">", "bool"))):
                                out.append(("w", mp[1], None, n, f))
            # swap(a, b)
            if k == "Call" and callee_name(n) == "swap" and len(args) == 2:
                for a, b in ((args[0], args[1]), (args[1], args[0])):
                    mp = _member_path(a)
                    if mp:
                        ub = unwrap_all_casts(b)
                        out.append(("w", mp[1], ({"k": "SwapIn", "local": ub, "node": n} if isinstance(ub, dict) and ub.get("k") == "Ref" and ub.get("d") == "local" and len(mp) == 2 else None), n, f))
            return
        if k == "Member":
            mp = _member_path(n)
            if mp:
                out.append(("r", mp[1], n, f))
                return
        for c in ir.children(n):
            visit(c)
    visit(f["body"])
    return out


def _canon(V, f, stores_before, facts=None, consts=False, prefer=None, eval_pos=None, order=None):
    """V over the state the function leaves behind: a sub-expression that was stored into member s (and s not written since)
    is `this.s`; -> (text, set of members read) or None when something else than members / literals remains"""
    txt_map = {}
    const_map = {}
    stale_locals = {}
    env = ir.Env(f["body"]) if f.get("body") is not None else None
    for s_, X in stores_before.items():
        if X is None:
            continue
        if isinstance(X, dict) and X.get("k") == "SwapIn":
            key = path(X["local"])[0] if path(X["local"]) else None
            swap_pos = (order or {}).get(id(X.get("node"))) if X.get("node") is not None else None
            if eval_pos is not None and swap_pos is not None and eval_pos < swap_pos:
                # evaluated before the exchange: the local still holds what the member is about to receive
                txt_map[show(X["local"])] = s_
            else:
                stale_locals[show(X["local"])] = s_
            X = env.defs.get(key) if (env is not None and key) else None
            if X is None:
                continue
        ux = unwrap_all_casts(X)
        while isinstance(ux, dict) and ux.get("k") == "Construct" and ux.get("copymove") and len(ux.get("args", [])) == 1:
            ux = unwrap_all_casts(ux["args"][0])
        # only values that name something (a parameter, a local, a member of one): constants do not identify a member
        root = ux
        while isinstance(root, dict) and root.get("k") in ("Member", "Index"):
            root = unwrap_all_casts(root.get("base"))
        if isinstance(root, dict) and root.get("k") == "Ref" and root.get("d") in ("param", "local") and ir.const_value(ux) is None:
            txt_map[show(ux)] = s_
        elif consts and ir.const_value(ux) is not None and not isinstance(ir.const_value(ux), str):
            const_map.setdefault(int(ir.const_value(ux)), set()).add(s_)

    members = set()
    direct = set()
    ok = [True]
    stale = []

    def rec(n):
        if isinstance(n, list):
            return [rec(x) for x in n]
        if not isinstance(n, dict):
            return n
        if n.get("k") == "Cast" and isinstance(n.get("e"), dict):
            # (casts stay in the expression: `(CborType)(b & 0xE0)` is not `b & 0xE0` for the rules; texts are compared
            # through show(), which leaves implicit ones out)
            return {kk: (rec(vv) if kk == "e" else vv) for kk, vv in n.items() if kk not in ("l", "cv")}
        t_ = show(n)
        if t_ in txt_map and n.get("k") in ("Ref", "Member", "MCall", "Call", "Index"):
            members.add(txt_map[t_])
            return {"k": "Member", "field": True, "n": txt_map[t_], "base": {"k": "This"}, "t": n.get("t")}
        if n.get("k") == "Member":
            mp = _member_path(n)
            if mp:
                members.add(mp[1])
                direct.add(mp[1])
                return {kk: (rec(vv) if isinstance(vv, (dict, list)) else vv) for kk, vv in n.items() if kk not in ("l",)}
        if n.get("k") == "Ref" and n.get("d") in ("param", "local"):
            if show(n) in stale_locals:
                stale.append(stale_locals[show(n)])
            ok[0] = False
        if n.get("k") in ("MCall", "Call") and not ((n.get("callee") or {}).get("const") or not (n.get("callee") or {}).get("inrepo")):
            from . import normalize as _nz
            if facts is None or not (_nz.is_pure(n, facts) or _accessor(facts, n)):
                ok[0] = False
        # a constant argument that is also the initial value of exactly one member (constructors only)
        if consts and n.get("k") in ("MCall", "Call", "OpCall", "Index"):
            m2 = dict(n)
            for key in ("args",):
                if isinstance(n.get(key), list):
                    na = []
                    for a in n[key]:
                        cv = ir.const_value(a) if isinstance(a, dict) else None
                        cands_ = set(const_map.get(int(cv), ())) if (cv is not None and not isinstance(cv, str)) else set()
                        if prefer is not None and len(cands_) > 1:
                            cands_ &= set(prefer)
                        if len(cands_) == 1:
                            mem = next(iter(cands_))
                            members.add(mem)
                            na.append({"k": "Member", "field": True, "n": mem, "base": {"k": "This"}, "t": (a or {}).get("t")})
                        else:
                            na.append(rec(a))
                    m2[key] = na
            return {kk: (vv if kk == "args" else (rec(vv) if isinstance(vv, (dict, list)) else vv)) for kk, vv in m2.items() if kk not in ("l", "cv")}
        return {kk: (rec(vv) if isinstance(vv, (dict, list)) else vv) for kk, vv in n.items() if kk not in ("l", "cv")}
    if isinstance(V, dict) and V.get("k") == "SwapIn":
        return None
    if facts is not None and any(x.get("k") == "Ref" and x.get("d") == "global" and x.get("const") for x in walk(V)):
        # named constants read as their value (constructor initialisers are not normalised)
        from . import normalize as _nz
        w_ = {"k": "Return", "e": copy.deepcopy(V)}
        try:
            _nz.substitute_named_constants(w_, facts)
            V = w_["e"]
        except Exception:
            pass
    c = rec(V)
    if stale:
        return ("<stale>", set(stale), None, set())
    if not ok[0]:
        return None
    return show(c), members, c, direct


def analyse(facts, cls, methods=None, record=None):
    rec = record or facts.records.get(cls)
    if rec is None:
        return {"derived": {}, "violations": [], "undecided": {}}
    fields = [f_["n"] for f_ in rec.get("fields", [])]
    if methods is None:
        family = {cls}
        changed = True
        while changed:
            changed = False
            for q, r in facts.records.items():
                if q not in family and any(b.get("t") in family for b in r.get("bases", []) or []):
                    family.add(q)
                    changed = True
        methods = [f for f in facts.functions.values() if f.get("cls") in family and f.get("body") is not None and not f.get("flattened")]
    ev = {f["key"]: _events(facts, cls, f) for f in methods}
    # candidate members: every write is a plain store with a value
    writes = {}
    allw = {}
    for f in methods:
        last = {}
        for e in ev[f["key"]]:
            if e[0] == "w":
                last[e[1]] = e
                if e[4] is f:
                    allw.setdefault(e[1], []).append((f, e))
        # the store that decides what the member holds when f returns (earlier ones in f are overwritten)
        for m_, e in last.items():
            if not any(e is w_[1] for w_ in writes.get(m_, [])):
                writes.setdefault(m_, []).append((e[4], e))
    derived, undecided = {}, {}
    for D in fields:
        ws = writes.get(D, [])
        if not ws or any(e[2] is None for _, e in ws):
            continue
        forms = []
        sites = []
        copies = []
        retry = []
        for f, e in ws:
            # what the other members hold when the function returns: the value of their last write if that is a plain store
            # (a store after this one counts as well: `m_d = f(x); m_s = x;` leaves m_d == f(m_s) behind)
            before = {}
            host = None
            for fk, evs_ in ev.items():
                if any(e2 is e for e2 in evs_):
                    host = evs_
                    if fk == f["key"]:
                        break
            for e2 in (host or []):
                if e2[0] == "w" and e2[1] != D:
                    before[e2[1]] = e2[2]
            V = e[2]
            hf = e[4]
            order_ = {id(x): i for i, x in enumerate(walk(hf["body"]))} if hf.get("body") is not None else {}
            eval_pos = order_.get(id(e[3])) if isinstance(e[3], dict) else None
            if isinstance(V, dict) and V.get("k") == "SwapIn":
                # exchanged with a local: the member takes the value the local was built with
                key_ = path(V["local"])[0] if path(V["local"]) else None
                d_ = ir.Env(hf["body"]).defs.get(key_) if (key_ and hf.get("body") is not None) else None
                if d_ is not None:
                    V = d_
                    eval_pos = order_.get(id(d_), eval_pos)
            uv = unwrap_all_casts(V)
            while isinstance(uv, dict) and uv.get("k") == "Construct" and uv.get("copymove") and len(uv.get("args", [])) == 1:
                uv = unwrap_all_casts(uv["args"][0])
            if isinstance(uv, dict) and uv.get("k") == "Member" and uv.get("n") == D and _member_path(uv) is None and path(uv):
                copies.append((f, e, path(uv)[:-1]))
                continue
            c = _canon(V, hf, before, facts, eval_pos=eval_pos, order=order_)
            forms.append(c)
            sites.append((f, e))
            retry.append((len(forms) - 1, V, f, before) if f.get("ctor") else None)
        # a constructor may spell a member's initial value as the same literal the member itself is initialised with
        texts0 = [c[0] for c in forms if c is not None and c[0] != "<stale>"]
        if texts0:
            from collections import Counter
            major = Counter(texts0).most_common(1)[0][0]
            for r_ in retry:
                if r_ is None:
                    continue
                i_, V_, f_, before_ = r_
                if forms[i_] is None or forms[i_][0] != major:
                    pref = set()
                    for c_ in forms:
                        if c_ is not None and c_[0] == major:
                            pref |= c_[1]
                    c2 = _canon(V_, f_, before_, facts, consts=True, prefer=pref)
                    if c2 is not None and c2[0] == major:
                        forms[i_] = c2
        stale_sites = [(fw, c) for (fw, _e), c in zip(sites, forms) if c is not None and c[0] == "<stale>"]
        real = [c for c in forms if c is not None and c[0] != "<stale>"]
        unknown = [c for c in forms if c is None]
        if len(real) < 2 and not (real and stale_sites):
            continue
        texts = set(c[0] for c in real)
        if len(texts) != 1 and derived:
            # the same value spelled over another derived member (`m_final + ".part"` / `m_value + m_ext + ".part"`)
            def expand_(n, depth=0):
                if isinstance(n, list):
                    return [expand_(x, depth) for x in n]
                if not isinstance(n, dict):
                    return n
                if n.get("k") == "Member" and n.get("n") in derived and n.get("n") != D and depth < 4:
                    b_ = unwrap_all_casts(n.get("base"))
                    if isinstance(b_, dict) and b_.get("k") == "This":
                        return expand_(copy.deepcopy(derived[n["n"]]["E"]), depth + 1)
                return {kk: (expand_(vv, depth) if isinstance(vv, (dict, list)) else vv) for kk, vv in n.items()}
            real2 = []
            for c in real:
                e2 = expand_(c[2])
                m2 = set()
                for x in walk(e2):
                    mp_ = _member_path(x) if x.get("k") == "Member" else None
                    if mp_:
                        m2.add(mp_[1])
                real2.append((show(e2), m2, e2, c[3]))
            if len(set(c[0] for c in real2)) == 1:
                real = real2
                texts = set(c[0] for c in real)
        S = set()
        for c in real:
            S |= c[1]
        S.discard(D)
        if len(texts) != 1 or not S:
            continue
        # copies: all of S copied from the same object in the same function
        okc = True
        for f, e, other in copies:
            copied = set()
            for e2 in ev[f["key"]]:
                if e2[0] == "w" and e2[2] is not None:
                    u2 = unwrap_all_casts(e2[2])
                    while isinstance(u2, dict) and u2.get("k") == "Construct" and u2.get("copymove") and len(u2.get("args", [])) == 1:
                        u2 = unwrap_all_casts(u2["args"][0])
                    if isinstance(u2, dict) and path(u2) == tuple(other) + (e2[1],):
                        copied.add(e2[1])
            if not S <= copied:
                okc = False
        if not okc:
            undecided[D] = "copied from another object without the members it is computed from"
            continue
        if unknown:
            undecided[D] = "one of its stores takes a value that is not expressed over the members it is otherwise computed from"
            continue
        derived[D] = {"E": real[0][2], "text": real[0][0], "S": S, "copies": copies, "writes": allw.get(D, ws),
                      "stale": [(fw, sorted(c[1])) for fw, c in stale_sites],
                      "sites": [(fw, e_, c[3]) for (fw, e_), c in zip(sites, forms) if c is not None and c[0] != "<stale>"]}
    # members of S written from outside the class
    outside = {}
    names_of = set()
    for d in derived.values():
        names_of |= d["S"]
    if names_of:
        own = set(f["key"] for f in methods)
        for g in facts.functions.values():
            if g.get("body") is None or g["key"] in own or g.get("cls") == cls or g["qn"].startswith("verif_"):
                continue
            for n in walk(g["body"]):
                if n.get("k") in ("Bin", "OpCall") and (n.get("op") or "").endswith("=") and n.get("op") not in ("==", "!=", "<=", ">="):
                    lhs = n.get("lhs") if n.get("k") == "Bin" else (n.get("args") or [None])[0]
                    u = unwrap_all_casts(lhs) if lhs is not None else None
                    while isinstance(u, dict) and u.get("k") in ("Member", "Index"):
                        if u.get("k") == "Member" and u.get("field") and u.get("cls") == cls and u.get("n") in names_of:
                            outside.setdefault(u["n"], (g, n.get("l")))
                        u = unwrap_all_casts(u.get("base"))
    violations = []
    for D, d in list(derived.items()):
        hit = [s_ for s_ in d["S"] if s_ in outside]
        if hit:
            undecided[D] = "%s is also written outside the class (%s line %s)" % (hit[0], outside[hit[0]][0]["qn"].split("::")[-1], outside[hit[0]][1])
            del derived[D]
            continue
        for fw, olds in d.get("stale", []):
            violations.append((fw, fw.get("line"), D, "%s is always %s, but %s stores a value computed from what %s held *before* it was exchanged" % (
                D, d["text"], fw["qn"].split("::")[-1], ", ".join(olds))))
        for f in methods:
            if f.get("dtor"):
                continue
            es = ev[f["key"]]
            if any(f is c_[0] for c_ in d["copies"]) or any(f is fw for fw, _ in d.get("stale", [])):
                continue
            last_s = max([i for i, e in enumerate(es) if e[0] == "w" and e[1] in d["S"]], default=None)
            if last_s is None:
                continue
            d_idx = [i for i, e in enumerate(es) if e[0] == "w" and e[1] == D]
            if d_idx:
                # the defining store of this function: members it read *directly* must not be written after it; members it
                # saw through the value that is stored into them later are fine (that store is their last write, by construction)
                iD = d_idx[-1]
                site = [x for x in d["sites"] if x[1] is es[iD]]
                direct = site[0][2] if site else d["S"]
                late = [i for i, e in enumerate(es) if e[0] == "w" and e[1] in direct and i > iD]
                if not late:
                    # nothing reads D between a write to S and the write to D
                    first_s = min([i for i, e in enumerate(es) if e[0] == "w" and e[1] in d["S"]])
                    for i in range(first_s + 1, iD):
                        if es[i][0] == "r" and es[i][1] == D:
                            violations.append((f, es[i][2].get("l") or f.get("line"), D,
                                               "%s reads %s after %s changed and before %s is recomputed" % (f["qn"].split("::")[-1], D, es[first_s][1], D)))
                            break
                    continue
                last_s = late[-1]
            later_d = []
            if not later_d:
                e = es[last_s]
                node = e[3]
                violations.append((f, (node.get("l") if isinstance(node, dict) else None) or f.get("line"), D,
                                   "%s is always %s; %s writes %s and returns without recomputing %s: it still holds the value computed from the old %s" % (
                                       D, d["text"], f["qn"].split("::")[-1], e[1], D, e[1])))
            else:
                # nothing reads D between the write to S and the write to D
                for i in range(last_s + 1, later_d[0]):
                    if es[i][0] == "r" and es[i][1] == D:
                        violations.append((f, es[i][2].get("l") or f.get("line"), D,
                                           "%s reads %s after %s changed and before %s is recomputed" % (f["qn"].split("::")[-1], D, es[last_s][1], D)))
                        break
    # A member every store of which (outside constructors) sits behind a test of that very member is a *validated cache*:
    # it is allowed to be out of date between refreshes, its users call the refresh first (caches.py and the rules that read it
    # - R15.1, R13.4 - own its obligations).  It is not a derived member in the sense of this module.
    store_guards = {}
    for D in list(derived):
        guards = store_guards.setdefault(D, [])
        for f in methods:
            if f.get("ctor"):
                continue
            env_ = ir.Env(f["body"])
            for st, g, loops in ir.guarded_statements(f["body"], env_):
                if st.get("k") in ("IfCond", "LoopHead", "SwitchHead"):
                    continue
                u_ = unwrap(st)
                hit = False
                if isinstance(u_, dict) and u_.get("k") in ("Bin", "OpCall") and u_.get("op") == "=":
                    l_ = u_.get("lhs") if u_["k"] == "Bin" else (u_.get("args") or [None])[0]
                    hit = _member_path(l_) == ("this", D) if l_ is not None else False
                elif isinstance(u_, dict) and u_.get("k") == "MCall" and callee_name(u_) == "swap":
                    hit = _member_path(u_.get("recv")) == ("this", D) or any(_member_path(a_) == ("this", D) for a_ in u_.get("args", []))
                elif isinstance(u_, dict) and u_.get("k") == "Call" and callee_name(u_) == "swap":
                    hit = any(_member_path(a_) == ("this", D) for a_ in u_.get("args", []))
                if hit:
                    guards.append((f["key"], g))

    def mentions(g_, m_):
        return ("this.%s" % m_) in repr(g_) or ("'this', '%s'" % m_) in repr(g_)
    cached = set(D for D, gs_ in store_guards.items() if gs_ and all(mentions(g_, D) for _k, g_ in gs_))
    changed = True
    while changed:
        changed = False
        for D, gs_ in store_guards.items():
            if D in cached or not gs_:
                continue
            # committed together with a member whose test guards the commit (`m_final.swap(a); m_part.swap(b);` under one test)
            if all(mentions(g_, D) or any(C in cached and (k_, g_) in store_guards[C] for C in cached if mentions(g_, C)) for k_, g_ in gs_):
                cached.add(D)
                changed = True
    for D in cached:
        del derived[D]
        violations = [v_ for v_ in violations if v_[2] != D]
        undecided.pop(D, None)
    return {"derived": derived, "violations": violations, "undecided": undecided}


def eliminate(facts, cls, info):
    """reads of verified derived members become their defining expression; their stores and fields go"""
    bad = set(v[2] for v in info["violations"])
    done = 0
    # a derived member defined over another derived member is defined over that one's definition
    good = {D: d for D, d in info["derived"].items() if D not in bad}

    def expand(n, depth=0):
        if isinstance(n, list):
            return [expand(x, depth) for x in n]
        if not isinstance(n, dict):
            return n
        if n.get("k") == "Member" and n.get("n") in good and depth < 4:
            b_ = unwrap_all_casts(n.get("base"))
            if isinstance(b_, dict) and b_.get("k") == "This":
                return expand(copy.deepcopy(good[n["n"]]["E"]), depth + 1)
        return {kk: (expand(vv, depth) if isinstance(vv, (dict, list)) else vv) for kk, vv in n.items()}
    for D, d in good.items():
        d["E"] = expand(d["E"])
    family = {cls}
    changed = True
    while changed:
        changed = False
        for q, r in facts.records.items():
            if q not in family and any(b.get("t") in family for b in r.get("bases", []) or []):
                family.add(q)
                changed = True
    for D, d in info["derived"].items():
        if D in bad:
            continue
        methods = [f for f in facts.functions.values() if f.get("cls") in family and f.get("body") is not None]
        store_nodes = set(id(e[3]) for _, e in d["writes"])

        def rep(n):
            if isinstance(n, list):
                out = []
                for x in n:
                    if isinstance(x, dict) and (id(x) in store_nodes or id(unwrap(x)) in store_nodes):
                        continue
                    out.append(rep(x))
                return out
            if not isinstance(n, dict):
                return n
            if n.get("k") == "Member" and n.get("n") == D and _member_path(n) is not None and len(_member_path(n)) == 2:
                e = copy.deepcopy(d["E"])
                e["l"] = n.get("l")
                return e
            return {kk: (rep(vv) if isinstance(vv, (dict, list)) else vv) for kk, vv in n.items()}
        def simp(n):
            if isinstance(n, list):
                return [simp(x) for x in n]
            if not isinstance(n, dict):
                return n
            m = {kk: (simp(vv) if isinstance(vv, (dict, list)) else vv) for kk, vv in n.items()}
            if m.get("k") == "Un" and m.get("op") == "*":
                inner = unwrap_all_casts(m.get("e"))
                if isinstance(inner, dict) and inner.get("k") == "Un" and inner.get("op") == "&" and isinstance(inner.get("e"), dict):
                    return inner["e"]
            return m
        for f in methods:
            f["body"] = simp(rep(f["body"]))
            if f.get("inits"):
                f["inits"] = [i_ for i_ in f["inits"] if i_.get("member") != D]
        rec = facts.records.get(cls)
        if rec is not None:
            rec["derived_fields"] = rec.get("derived_fields", []) + [f_ for f_ in rec.get("fields", []) if f_["n"] == D]
            rec["fields"] = [f_ for f_ in rec.get("fields", []) if f_["n"] != D]
        done += 1
    return done


ANCHORED = {"CDNS::CdnsEncoder": ("m_p", "m_avail", "m_buffer"), "CDNS::CdnsDecoder": ("m_p", "m_end", "m_buffer")}


def apply(facts):
    """run over every class of the library; facts.derived[cls] keeps the verdicts for the rules"""
    facts.derived = {}
    n = 0
    seen_recs = set()
    for cls, rec in list(facts.records.items()):
        if id(rec) in seen_recs or cls != rec.get("qn", cls) and rec.get("qn") in facts.records and "basic_string<char>" not in cls:
            continue
        seen_recs.add(id(rec))
        if not (rec.get("file") or "").startswith(facts.repo + "/src/") or "/src/bin/" in (rec.get("file") or ""):
            continue
        if len(rec.get("fields", [])) < 2:
            continue
        info = analyse(facts, cls)
        family = {cls}
        changed = True
        while changed:
            changed = False
            for q, r in facts.records.items():
                if q not in family and any(b.get("t") in family for b in r.get("bases", []) or []):
                    family.add(q)
                    changed = True
        methods = [f for f in facts.functions.values() if f.get("cls") in family and f.get("body") is not None and not f.get("flattened")]
        # counters kept in step with another member (twins.py); members the rules are anchored on are never rewritten away
        from . import twins
        tw = twins.analyse(facts, cls, methods, keep=ANCHORED.get(cls, ()))
        if tw:
            n += twins.eliminate(facts, cls, methods, tw)
        lazy = analyse_lazy(facts, cls, methods)
        if lazy is not None:
            info["lazy"] = lazy
        if info["derived"] or info["violations"] or info["undecided"] or lazy is not None:
            facts.derived[cls] = info
            n += eliminate(facts, cls, info)
            if lazy is not None and not lazy["violations"] and not lazy["undecided"]:
                n += eliminate_lazy(facts, cls, methods, lazy)
    return n


def report(run, rule, classes=None):
    """one obligation per derived member of the listed classes (all classes when None)"""
    facts = run.facts
    # positive control (tu/rule_controls.cpp): the detector must find the stale member of the control class, and only there
    from .facts import AnalysisBroken
    cq = "verif_rc::derived_cache"
    cm = [f for q, f in facts.controls.items() if q.startswith(cq + "::")]
    if not cm or cq not in facts.records:
        raise AnalysisBroken(rule, "positive control %s not found (tu/rule_controls.cpp)" % cq)
    cinfo = analyse(facts, cq, methods=cm, record=facts.records[cq])
    if [v[0]["qn"].split("::")[-1] for v in cinfo["violations"]] != ["stale"] or "m_twice" not in cinfo["derived"]:
        raise AnalysisBroken(rule, "positive control %s: expected m_twice derived and exactly stale() reported, found %s / %s" % (
            cq, sorted(cinfo["derived"]), [v[0]["qn"] for v in cinfo["violations"]]))
    n = 0
    for cls, info in sorted(getattr(facts, "derived", {}).items()):
        if classes is not None and cls not in classes:
            continue
        rec = facts.records.get(cls) or {}
        viol = {}
        for f, line, D, text in info["violations"]:
            viol.setdefault(D, (f, line, text))
        for D, d in sorted(info["derived"].items()):
            n += 1
            if D in viol:
                f, line, text = viol[D]
                run.ob(rule, "%s.%s:kept-in-step" % (cls.split("::")[-1], D), False, f, line, text)
            else:
                run.ob(rule, "%s.%s:kept-in-step" % (cls.split("::")[-1], D), True, rec.get("file"), rec.get("line") or 0,
                       "%s is recomputed (%s) by every member function that changes %s" % (D, d["text"][:80], ", ".join(sorted(d["S"]))))
        for D, why in sorted(info["undecided"].items()):
            n += 1
            run.ob(rule, "%s.%s:kept-in-step" % (cls.split("::")[-1], D), None, rec.get("file"), rec.get("line") or 0,
                   "%s looks derived from other members but %s" % (D, why))
        lazy = info.get("lazy")
        if lazy is not None:
            n += 1
            key = "%s.%s:resolved-before-use" % (cls.split("::")[-1], "+".join(sorted(lazy.get("roots", []) or [lazy["flag"]])))
            if lazy["violations"]:
                f, line, what, text = lazy["violations"][0]
                run.ob(rule, key, False, f, line, text)
            elif lazy["undecided"]:
                run.ob(rule, key, None, rec.get("file"), rec.get("line") or 0, "members resolved on demand under %s: %s" % (lazy["flag"], lazy["undecided"]))
            else:
                run.ob(rule, key, True, rec.get("file"), rec.get("line") or 0,
                       "every read follows a refresh, every change of %s lowers %s" % (", ".join(sorted(lazy["S"])), lazy["flag"]))
    return n


# ------------------------------------------------------------------------------------------------ the lazy form

def _this_path(e):
    """('m_hints', 'qr') for this->m_hints.qr (plain member chain on this, no dereference / index)"""
    u = unwrap_all_casts(e) if isinstance(e, dict) else None
    out = []
    while isinstance(u, dict) and u.get("k") == "Member" and u.get("field"):
        out.append(u.get("n"))
        u = unwrap_all_casts(u.get("base"))
    if isinstance(u, dict) and u.get("k") == "This" and out:
        return tuple(reversed(out))
    return None


def _plain_stores(f):
    out = []
    for x in walk(f["body"]):
        if x.get("k") in ("Bin", "OpCall") and x.get("op") == "=":
            lhs = x.get("lhs") if x.get("k") == "Bin" else (x.get("args") or [None])[0]
            rhs = x.get("rhs") if x.get("k") == "Bin" else ((x.get("args") or [None, None])[1] if len(x.get("args", [])) > 1 else None)
            lp = _this_path(lhs) if lhs is not None else None
            if lp:
                out.append((lp, rhs, x))
    return out


def _keyed_block(n, keyed):
    """`if (m_key_at != m_key) { effects..; m_c.a = ..; m_key_at = m_key; }` -> (stored-key member, stores, key member, effects)"""
    if n.get("else") is not None:
        return None
    sts = [x for x in ir.stmts(n.get("then")) if isinstance(x, dict) and x.get("k") != "Null"]
    if not sts:
        return None
    last = unwrap(sts[-1])
    if not (isinstance(last, dict) and last.get("k") in ("Bin", "OpCall") and last.get("op") == "="):
        return None
    lhs = last.get("lhs") if last.get("k") == "Bin" else (last.get("args") or [None])[0]
    rhs = last.get("rhs") if last.get("k") == "Bin" else ((last.get("args") or [None, None])[1] if len(last.get("args", [])) > 1 else None)
    lp, rp = _this_path(lhs), _this_path(rhs)
    if not (lp and rp and len(lp) == 1 and len(rp) == 1 and {lp[0], rp[0]} == set(keyed)):
        return None
    K, KEY = lp[0], rp[0]
    effects, stores = [], {}
    for st in sts[:-1]:
        u = unwrap(st)
        if isinstance(u, dict) and u.get("k") in ("Bin", "OpCall") and u.get("op") == "=":
            l2 = u.get("lhs") if u.get("k") == "Bin" else (u.get("args") or [None])[0]
            r2 = u.get("rhs") if u.get("k") == "Bin" else ((u.get("args") or [None, None])[1] if len(u.get("args", [])) > 1 else None)
            p2 = _this_path(l2)
            if p2 and p2[0] not in (K, KEY) and r2 is not None:
                stores[p2] = r2
                continue
            return None
        if isinstance(u, dict) and u.get("k") == "MCall" and isinstance(unwrap_all_casts(u.get("recv")), dict) and unwrap_all_casts(u["recv"]).get("k") == "This" and not stores:
            effects.append(st)          # what has to happen before the values can be taken (a refill check), in front of the stores
            continue
        return None
    if not stores:
        return None
    return K, stores, KEY, effects


def analyse_lazy(facts, cls, methods):
    """Members resolved on demand under a validity flag:

        const T& resolved() { if (!m_valid) { m_c.a = E1(members); m_c.b = E2(members); m_valid = true; } return m_c; }
        void invalidate() { m_valid = false; }            // called wherever a member read by E1, E2 changes

    -> {"flag": V, "defs": {path: (text, expr)}, "S": members read, "refreshers": {fn key: root member}, "violations": [...],
        "blocks": [If nodes], "undecided": reason or None} or None when the class has no such block."""
    rec = facts.records.get(cls) or {}
    bools = {f_["n"] for f_ in rec.get("fields", []) if (f_.get("t") or "") == "bool"}
    blocks = []
    keyed_info = {}
    for f in methods:
        for n in walk(f["body"]):
            if n.get("k") != "If" or n.get("else") is not None:
                continue
            c = unwrap_all_casts(n.get("cond"))
            keyed = None
            if isinstance(c, dict) and c.get("k") == "Bin" and c.get("op") == "!=":
                a_, b_ = _this_path(c.get("lhs")), _this_path(c.get("rhs"))
                if a_ and b_ and len(a_) == 1 and len(b_) == 1:
                    keyed = (a_[0], b_[0])
            if keyed is not None:
                kb = _keyed_block(n, keyed)
                if kb is not None:
                    blocks.append((f, n, kb[0], kb[1]))
                    keyed_info[id(n)] = kb
                continue
            if not (isinstance(c, dict) and c.get("k") == "Un" and c.get("op") == "!"):
                continue
            vp = _this_path(c.get("e"))
            if not vp or len(vp) != 1 or vp[0] not in bools:
                continue
            sts = [x for x in ir.stmts(n.get("then")) if isinstance(x, dict) and x.get("k") != "Null"]
            stores, sets_flag, ok = {}, False, bool(sts)
            for st in sts:
                u = unwrap(st)
                if isinstance(u, dict) and u.get("k") in ("Bin", "OpCall") and u.get("op") == "=":
                    lhs = u.get("lhs") if u.get("k") == "Bin" else (u.get("args") or [None])[0]
                    rhs = u.get("rhs") if u.get("k") == "Bin" else ((u.get("args") or [None, None])[1] if len(u.get("args", [])) > 1 else None)
                    lp = _this_path(lhs)
                    if lp == vp and ir.const_value(rhs) == 1:
                        sets_flag = True
                        continue
                    if lp and lp[0] != vp[0] and rhs is not None:
                        stores[lp] = rhs
                        continue
                ok = False
            if ok and sets_flag and stores:
                blocks.append((f, n, vp[0], stores))
    if not blocks:
        return None
    V = blocks[0][2]
    res = {"flag": V, "defs": {}, "S": set(), "refreshers": {}, "violations": [], "blocks": [b[1] for b in blocks], "undecided": None,
           "key": None, "effects": {}}
    if keyed_info:
        if len(keyed_info) != len(blocks):
            res["undecided"] = "flag form and keyed form mixed"
            return res
        kb0 = next(iter(keyed_info.values()))
        res["key"] = kb0[2]
        for bid, kb in keyed_info.items():
            res["effects"][bid] = kb[3]
    if any(b[2] != V for b in blocks):
        res["undecided"] = "several validity flags"
        return res
    for f, n, _, stores in blocks:
        for lp, rhs in stores.items():
            c = _canon(rhs, f, {}, facts)
            if c is None:
                res["undecided"] = "%s is resolved from something that is not a member" % ".".join(lp)
                return res
            if lp in res["defs"] and res["defs"][lp][0] != c[0]:
                res["undecided"] = "%s is resolved in two different ways" % ".".join(lp)
                return res
            res["defs"][lp] = (c[0], c[2])
            res["S"] |= c[1]
    roots = set(lp[0] for lp in res["defs"])
    res["roots"] = roots
    if res["S"] & (roots | {V}):
        res["undecided"] = "a resolved member is computed from another resolved member"
        return res
    fi = [f_ for f_ in rec.get("fields", []) if f_["n"] == V]
    if res["key"] is not None:
        # what the stored key starts as does not matter for a position that was never handed out (nullptr / 0); content owners:
        # members the key pointer is pointed into
        res["S"].discard(res["key"])
        owners = set()
        for f in methods:
            for lp_, rhs_, node_ in _plain_stores(f):
                if lp_ == (res["key"],):
                    rp_ = _this_path(rhs_)
                    if rp_ and len(rp_) == 1 and rp_[0] != V:
                        owners.add(rp_[0])
        res["S"] |= owners
        res["owners"] = owners
    elif not fi or fi[0].get("init") is None or ir.const_value(fi[0]["init"]) != 0:
        # (a constructor initialiser `m_valid(false)` in every constructor would do as well)
        ctors = [f for f in methods if f.get("ctor") and f.get("cls") == cls]
        if not ctors or not all(any(i_.get("member") == V and i_.get("init") is not None and ir.const_value(i_["init"]) == 0 for i_ in (c_.get("inits") or [])) for c_ in ctors):
            res["undecided"] = "flag %s does not start out false" % V
            return res
    block_nodes = set(id(x) for b in res["blocks"] for x in walk(b))
    # functions that are a refresh followed by `return <root>`
    for f, n, _, _s in blocks:
        sts = [x for x in ir.stmts(f["body"]) if isinstance(x, dict) and x.get("k") != "Null"]
        if len(sts) == 2 and sts[0] is n and sts[1].get("k") == "Return" and sts[1].get("e") is not None:
            rp = _this_path(sts[1]["e"])
            if rp and len(rp) == 1 and rp[0] in roots:
                res["refreshers"][(f["qn"], tuple(f.get("sig") or ()))] = rp[0]

    res["refresher_effects"] = []
    for f, n, _, _s in blocks:
        if (f["qn"], tuple(f.get("sig") or ())) in res["refreshers"] and res["effects"].get(id(n)):
            res["refresher_effects"] = res["effects"][id(n)]
    if res["refresher_effects"]:
        # the effects can only be written out where the call is a statement of its own or the whole initialiser of a reference
        for f in methods:
            if (f["qn"], tuple(f.get("sig") or ())) in res["refreshers"]:
                continue
            for x, parents in ir.walk_with_parents(f["body"]):
                if x.get("k") == "MCall" and isinstance(x.get("callee"), dict) and (x["callee"].get("qn"), tuple(x["callee"].get("sig") or ())) in res["refreshers"]:
                    chain = [p_ for p_ in parents if p_.get("k") not in ("Cast", None)]
                    par = chain[-1] if chain else None
                    if not (isinstance(par, dict) and (par.get("k") == "Block" or (par.get("k") == "Decl" and len(par.get("vars", [])) == 1))):
                        # (a Decl's var dict has no "k": the parent chain ends at the Decl)
                        res["undecided"] = "%s uses the refresher inside an expression" % f["qn"].split("::")[-1]
                        return res

    def is_refresher_call(x):
        return x.get("k") == "MCall" and isinstance(x.get("callee"), dict) and (x["callee"].get("qn"), tuple(x["callee"].get("sig") or ())) in res["refreshers"] and \
            isinstance(unwrap_all_casts(x.get("recv")), dict) and unwrap_all_casts(x["recv"]).get("k") == "This"
    for f in methods:
        if (f["qn"], tuple(f.get("sig") or ())) in res["refreshers"]:
            continue
        evs = []
        for x in walk(f["body"]):
            if id(x) in block_nodes:
                if any(x is b for b in res["blocks"]):
                    evs.append(("refresh", x))
                continue
            if is_refresher_call(x):
                evs.append(("refresh", x))
                continue
            if x.get("k") in ("Bin", "OpCall") and (x.get("op") or "").endswith("=") and x.get("op") not in ("==", "!=", "<=", ">="):
                lhs = x.get("lhs") if x.get("k") == "Bin" else (x.get("args") or [None])[0]
                lp = _this_path(lhs) if lhs is not None else None
                rhs = x.get("rhs") if x.get("k") == "Bin" else ((x.get("args") or [None, None])[1] if len(x.get("args", [])) > 1 else None)
                if lp and lp[0] == V:
                    if res["key"] is not None:
                        evs.append(("invalidate", x) if (x.get("op") == "=" and (ir.const_value(rhs) == 0 or (isinstance(unwrap_all_casts(rhs), dict) and unwrap_all_casts(rhs).get("null")))) else ("badflag", x))
                    else:
                        evs.append(("invalidate", x) if ir.const_value(rhs) == 0 and x.get("op") == "=" else ("badflag", x))
                elif lp and lp[0] in roots:
                    # a copy of the whole thing from another object of the class next to the flag and the sources is fine
                    ur = unwrap_all_casts(rhs) if rhs is not None else None
                    if not (isinstance(ur, dict) and ur.get("k") == "Member" and path(ur) and path(ur)[0] != "this" and path(ur)[-1] == lp[-1]) and \
                            not (f.get("ctor") and rhs is not None and ir.const_value(rhs) is not None):
                        # (a constructor may give the members an initial value: the flag / key is what decides)
                        evs.append(("badstore", x))
                elif lp and lp[0] in res["S"]:
                    evs.append(("swrite", x, lp[0]))
            if x.get("k") == "MCall" and not is_refresher_call(x):
                rp = _this_path(x.get("recv")) if x.get("recv") is not None else None
                cal = x.get("callee") or {}
                if rp and rp[0] in res["S"] and not cal.get("const") and not (cal.get("inrepo") and _accessor(facts, x)) and \
                        not ("CDNS::CdnsEncoder &" in (cal.get("sig") or []) and cal.get("ret") == "unsigned long") and \
                        (callee_name(x) or "") not in ("size", "empty", "begin", "end", "find", "at", "c_str", "data", "front", "back"):
                    evs.append(("swrite", x, rp[0]))
            if x.get("k") == "Call" and callee_name(x) == "swap":
                for a in x.get("args", []):
                    ap = _this_path(a)
                    if ap and ap[0] in res["S"]:
                        evs.append(("swrite", x, ap[0]))
            if x.get("k") in ("MCall", "Call") and res.get("owners"):
                for a, t in zip(x.get("args", []), (x.get("callee") or {}).get("sig", []) or []):
                    ap = _this_path(a)
                    if ap and ap[0] in res["owners"] and t.endswith("*") and not t.startswith("const "):
                        evs.append(("swrite", x, ap[0]))
            if x.get("k") == "Member":
                lp = _this_path(x)
                if lp and lp[0] in roots:
                    evs.append(("read", x, lp))
        # de-duplicate nested member reads (m_hints.qr contains m_hints): keep the longest path per position
        last_refresh = None
        pending_s = None
        may_be_valid = True         # on entry the flag may be set
        seen_read_nodes = set()
        for i, e in enumerate(evs):
            if e[0] in ("badflag", "badstore"):
                res["undecided"] = "%s writes %s outside a refresh" % (f["qn"].split("::")[-1], "the flag" if e[0] == "badflag" else "a resolved member")
                return res
            if e[0] == "refresh":
                last_refresh = i
                may_be_valid = True
            elif e[0] == "swrite":
                if may_be_valid:
                    pending_s = e
                last_refresh = None
            elif e[0] == "invalidate":
                pending_s = None
                may_be_valid = False      # lowered before the change is as good as after it (nothing refreshes in between)
            elif e[0] == "read":
                node = e[1]
                if any(id(y) in seen_read_nodes for y in walk(node)) and False:
                    continue
                for y in walk(node):
                    seen_read_nodes.add(id(y))
                if last_refresh is None and not f.get("ctor") and not f.get("dtor"):
                    res["violations"].append((f, node.get("l") or f.get("line"), ".".join(e[2]),
                                              "%s reads %s without resolving it first: it holds what was resolved for earlier values of %s (or nothing yet)" % (
                                                  f["qn"].split("::")[-1], ".".join(e[2]), ", ".join(sorted(res["S"])))))
                    break
        if pending_s is not None and not f.get("dtor"):
            res["violations"].append((f, pending_s[1].get("l") or f.get("line"), V,
                                      "%s changes %s and returns with %s still set: the values resolved from the old %s stay in use" % (
                                          f["qn"].split("::")[-1], pending_s[2], V, pending_s[2])))
    return res


def eliminate_lazy(facts, cls, methods, res):
    """reads of lazily resolved members become their defining expressions; refresh blocks, flag and members go"""
    V, defs, roots = res["flag"], res["defs"], res["roots"]
    block_ids = set(id(b) for b in res["blocks"])
    alias = {}          # local id -> root member (reference bound to a refresher call)

    def refresher_root(x):
        u = unwrap_all_casts(x) if isinstance(x, dict) else None
        if isinstance(u, dict) and u.get("k") == "MCall" and isinstance(u.get("callee"), dict):
            return res["refreshers"].get((u["callee"].get("qn"), tuple(u["callee"].get("sig") or ())))
        return None

    def rep(n):
        if isinstance(n, list):
            out = []
            for x in n:
                if isinstance(x, dict):
                    if id(x) in block_ids:
                        out.extend(copy.deepcopy(res.get("effects", {}).get(id(x), [])))
                        continue
                    u = unwrap(x)
                    if isinstance(u, dict) and u.get("k") in ("Bin", "OpCall") and u.get("op") == "=":
                        lhs = u.get("lhs") if u.get("k") == "Bin" else (u.get("args") or [None])[0]
                        lp = _this_path(lhs) if lhs is not None else None
                        if lp and (lp[0] == V or lp[0] in roots):
                            continue
                    if x.get("k") == "Decl" and len(x.get("vars", [])) == 1 and x["vars"][0].get("init") is not None and refresher_root(x["vars"][0]["init"]):
                        alias[x["vars"][0].get("id")] = refresher_root(x["vars"][0]["init"])
                        out.extend(copy.deepcopy(res.get("refresher_effects", [])))
                        continue
                    if isinstance(u, dict) and refresher_root(u):
                        out.extend(copy.deepcopy(res.get("refresher_effects", [])))
                        continue            # a refresher called for its effect only
                out.append(rep(x))
            return out
        if not isinstance(n, dict):
            return n
        if n.get("k") == "Member" and n.get("field"):
            lp = _this_path(n)
            if lp and lp in defs:
                e = copy.deepcopy(defs[lp][1])
                e["l"] = n.get("l")
                return e
            # <refresher call>.f  /  <alias>.f
            chain = []
            u = n
            while isinstance(u, dict) and u.get("k") == "Member" and u.get("field"):
                chain.append(u.get("n"))
                u = unwrap_all_casts(u.get("base"))
            root = None
            if isinstance(u, dict) and refresher_root(u):
                root = refresher_root(u)
            elif isinstance(u, dict) and u.get("k") == "Ref" and u.get("d") == "local" and u.get("id") in alias:
                root = alias[u["id"]]
            if root is not None:
                lp = (root,) + tuple(reversed(chain))
                if lp in defs:
                    e = copy.deepcopy(defs[lp][1])
                    e["l"] = n.get("l")
                    return e
        return {kk: (rep(vv) if isinstance(vv, (dict, list)) else vv) for kk, vv in n.items()}
    for f in methods:
        if (f["qn"], tuple(f.get("sig") or ())) in res["refreshers"]:
            continue
        f["body"] = rep(f["body"])
        if f.get("inits"):
            f["inits"] = [i_ for i_ in f["inits"] if i_.get("member") not in roots and i_.get("member") != V]
    for key, f in list(facts.functions.items()):
        if (f["qn"], tuple(f.get("sig") or ())) in res["refreshers"]:
            facts.absorbed[key] = facts.functions.pop(key)
            lst = facts.by_qn.get(f["qn"], [])
            if f in lst:
                lst.remove(f)
    rec = facts.records.get(cls)
    if rec is not None:
        gone = roots | {V}
        rec["derived_fields"] = rec.get("derived_fields", []) + [f_ for f_ in rec.get("fields", []) if f_["n"] in gone]
        rec["fields"] = [f_ for f_ in rec.get("fields", []) if f_["n"] not in gone]
    return 1
