"""Thorough tier: quick verdict on /repo + checker self-test.

Self-test = (a) mutants: small edits that keep the tree compiling but break the property, applied
to a scratch copy of the *current* /repo sources outside /repo and /verif (removed afterwards);
each must be reported by the named rule; (b) behaviour-preserving edits that must stay silent;
(c) positive-control fixtures.  A surviving mutant or a noisy neutral edit is ANALYSIS-BROKEN
(exit 2), never a VIOLATION.  A mutant whose anchor text no longer exists in the tree is skipped
and counted (the tree under test may legitimately differ from the one the corpus was written for).
"""
import importlib
import io
import json
import os
import random
import shutil
import sys
import tempfile
import time
from contextlib import redirect_stdout

from . import engine, facts as factsmod
from .facts import VERIF, AnalysisBroken


def scratch_copy(repo):
    d = tempfile.mkdtemp(prefix="cdnsverif-mut-", dir=os.environ.get("TMPDIR", "/tmp"))
    shutil.copy(os.path.join(repo, "CMakeLists.txt"), d)
    shutil.copytree(os.path.join(repo, "src"), os.path.join(d, "src"))
    return d


def apply_edits(root, edits):
    """edits: [(relative file, old, new)]; each old must occur exactly once. Returns None or reason."""
    for rel, old, new in edits:
        if rel == "@patch":
            # a stored unified diff (seeded change or neutral refactoring written by a sub-agent)
            import subprocess
            r = subprocess.run(["patch", "-s", "-p1", "-i", old], cwd=root, stdout=subprocess.PIPE, stderr=subprocess.STDOUT, text=True)
            if r.returncode != 0:
                return "patch %s does not apply (%s)" % (os.path.basename(os.path.dirname(old)), r.stdout.strip()[:80])
            continue
        p = os.path.join(root, rel)
        if not os.path.exists(p):
            return "file %s missing" % rel
        s = open(p).read()
        if s.count(old) != 1:
            return "anchor occurs %d times in %s" % (s.count(old), rel)
        open(p, "w").write(s.replace(old, new))
    return None


def run_on(prop, root):
    """Run quick rules of prop on tree `root`; returns (rc, failing obligations, broken, stdout)."""
    mod = importlib.import_module("cdnsverif.rules.%s" % prop)
    buf = io.StringIO()
    res = {"fails": [], "broken": []}
    try:
        fx = factsmod.load(root, use_cache=False)
        run = engine.Run(prop, fx, "quick")
        mod.check(run)
        counts = {}
        for o in run.obs:
            counts[o.rule] = counts.get(o.rule, 0) + 1
        for rule, (n, what) in run.floors.items():
            if counts.get(rule, 0) < n:
                res["broken"].append((rule, "floor %d not met (%d)" % (n, counts.get(rule, 0))))
        res["broken"] += run.broken
        for o in run.obs:
            if o.status == "fails":
                res["fails"].append(o)
            elif o.status == "unrecognised":
                res["broken"].append((o.rule, "unrecognised %s: %s" % (o.key, o.why)))
    except AnalysisBroken as e:
        res["broken"].append((e.rule, e.reason))
    return res


def run_thorough(prop, repo=None):
    t0 = time.time()
    repo = os.path.normpath(repo or factsmod.repo_root())
    rc = engine.run_property(prop, "quick", None, repo, write_evidence=False)
    from . import mutants as M
    seed = int(os.environ.get("VERIF_SEED", "0") or 0)
    muts = [m for m in M.MUTANTS if m["prop"] == prop]
    neutrals = [m for m in M.NEUTRAL if prop in m.get("props", [prop])]
    random.Random(seed).shuffle(muts)
    known_open = set("%s|%s" % (k["rule"], k["instance"]) for k in engine.load_known()
                     if k.get("property") == prop and k.get("status") == "known")
    base = run_on(prop, repo)
    base_fail = set(o.ident() for o in base["fails"])
    results = []
    broken = []
    for m in muts + neutrals:
        d = scratch_copy(repo)
        try:
            why = apply_edits(d, m["edits"])
            if why:
                results.append({"id": m["id"], "status": "skipped", "reason": why})
                continue
            r = run_on(prop, d)
            new_fail = [o for o in r["fails"] if o.ident() not in base_fail]
            if m in neutrals:
                ok = not new_fail and not r["broken"]
                results.append({"id": m["id"], "kind": "neutral", "status": "silent" if ok else "NOISY",
                                "reported": [o.ident() for o in new_fail][:4] + ["broken:%s" % b[0] for b in r["broken"]][:3]})
                if not ok:
                    broken.append(("selftest", "behaviour-preserving edit %s raised %s" % (
                        m["id"], [o.ident() for o in new_fail][:3] or r["broken"][:2])))
            else:
                hit = [o for o in new_fail if o.rule.startswith(m["rule"])]
                status = "killed" if hit else ("killed-by-other-rule" if new_fail else ("broken-only" if r["broken"] else "SURVIVED"))
                results.append({"id": m["id"], "kind": "mutant", "rule": m["rule"], "status": status,
                                "reported": [o.ident() for o in (hit or new_fail)][:3],
                                "what": m.get("desc", "")})
                # (a mutant marked expect_broken must at least stop the check with exit 2; silence is a miss for it as well)
                if status == "SURVIVED" or (status == "broken-only" and not m.get("expect_broken")):
                    broken.append(("selftest", "mutant %s (%s) was not reported by %s%s" % (
                        m["id"], m.get("desc", ""), m["rule"], " (analysis-broken instead: %s)" % r["broken"][:1] if r["broken"] else "")))
        finally:
            shutil.rmtree(d, ignore_errors=True)
    killed = len([r for r in results if r["status"] in ("killed", "killed-by-other-rule")])
    for r in results:
        print("  selftest %-8s %-40s %s %s" % (r.get("kind", ""), r["id"], r["status"], ",".join(r.get("reported", []))[:140]))
    print("[%s] selftest: %d mutants killed / %d applicable, %d neutral edits silent, %d skipped" % (
        prop, killed, len([r for r in results if r.get("kind") == "mutant"]),
        len([r for r in results if r.get("status") == "silent"]), len([r for r in results if r["status"] == "skipped"])))
    for b in broken:
        print("ANALYSIS-BROKEN property=%s rule=%s reason=%s" % (prop, b[0], b[1]))
    # evidence (thorough): quick evidence fields + self-test summary
    extra = {"selftest": results, "mutants_killed": killed,
             "selftest_explanation": "mutants/neutral edits applied to a scratch copy of the current /repo sources outside /repo and /verif"}
    fx = factsmod.load(repo)
    mod = importlib.import_module("cdnsverif.rules.%s" % prop)
    run = engine.Run(prop, fx, "thorough")
    try:
        mod.check(run)
    except AnalysisBroken as e:
        run.broken_rule(e.rule, e.reason)
    known = [k for k in engine.load_known() if k.get("property") == prop and k.get("status") == "known"]
    ko = {("%s|%s" % (k["rule"], k["instance"])): k for k in known}
    viol = [o for o in run.obs if o.status == "fails" and o.ident() not in ko]
    kh = [(o, ko[o.ident()]) for o in run.obs if o.status == "fails" and o.ident() in ko]
    engine.write_evidence_file(prop, mod.META, run, fx, "thorough", seed, time.time() - t0, viol, kh,
                               run.broken + broken, extra)
    if rc == 0 and broken:
        return 2
    return rc
