"""C01 Export -> file -> read returns the records buffered (necessary conditions of the round trip)."""
from .. import ir, emission, consumption, agreement, tables
from ..ir import (path, path_str, unwrap, unwrap_all_casts, callee_name, callee_qn, const_value, show, show_f, Env,
                  conjuncts)
from ..facts import AnalysisBroken

META = {
    "level": "other",
    "rule_text": "Necessary conditions of the round trip, none of which implies it: R01.1 writer/reader schema agreement for "
                 "every block-level struct; R01.2 RFC 8618 key numbers and CBOR types (independent-reader clause); R01.3 the "
                 "generic-record -> item mapping of add_* and the item -> generic-record mapping of read_generic_* are inverse "
                 "(same item field and same block table for every generic field); R01.4 the time reference handed to "
                 "get_time_offset and add_time_offset has the same provenance; R01.5 address-event aggregation increments on "
                 "hit and inserts 1 on miss; R01.6 no member is written/read under the key named after another member. R01.10: a record stored for every loop element is declared or wholly re-assigned inside the loop, or every member the loop sets is set unconditionally. R01.11: every CdnsBlock member that a method called from CdnsExporter::buffer_* can change is re-initialised by CdnsBlock::clear(). The R01.9 import of the array/map start table tolerates a flag that is only ever set when every library caller passes a flag that is false at the call. R01.12 (R12.4 imported): write_block() serialises, clears and re-arms the buffered block unconditionally, so records are written under the parameter set the application selected. R01.14 = R03.11: a pointer / iterator member that refers into a container of the same object is re-seated by every member function that can reallocate that container. R01.15: a data member that is always assigned the same function of other members (cdnsverif/derived.py) is recomputed by every member function that changes those members; the lazy form under a validity flag / stored key is refreshed before every read and invalidated after every change. R01.16 = R06.2: every flush threshold in front of a write_int call - a constant or a head-size function of the value, tabulated over the value's range - is at least the head write_int needs, so no integer is refused and silently dropped. R01.11 accepts a member that is read only while a validity flag is set which clear() lowers, and a member read only in conditions that also test a companion which changes only together with it and which clear() re-initialises. R01.17: 'filled' flags of the generic adders - every conditional statement list that stores a member of a local record also raises the flag that record is attached under (pairing read off the lists that do both), no such flag is lowered again, every tested flag is raised somewhere. R01.18 = R03.12 (optionals are dereferenced where they hold a value; a dereference under the negated presence test is a violation). R01.3 also: a generic field the reader restores but the adder never stores is a violation. R01.19: read cursors of CdnsBlockRead (members used as subscript of a member container and incremented): every constant the class gives them - initialisers, assignments - is 0.",
    "explanation": "Static cross-check of sibling implementations (write/read, add/read_generic) and of the wire tables "
                   "against RFC 8618. Decides the structural part of C01 for all records and parameter sets; value equality "
                   "(tick arithmetic, integers over their range, byte strings) and record order are not decided.",
    "trusted_base": ["clang 14 AST", "rfc8618_tables.json"],
    "assumptions": [],
}

BLOCK_STRUCTS = ["CDNS::ClassType", "CDNS::QueryResponseSignature", "CDNS::Question", "CDNS::RR",
                 "CDNS::MalformedMessageData", "CDNS::ResponseProcessingData", "CDNS::QueryResponseExtended",
                 "CDNS::BlockPreamble", "CDNS::BlockStatistics", "CDNS::QueryResponse", "CDNS::AddressEventCount",
                 "CDNS::MalformedMessage"]
BLOCK_MAPS = ["Block", "BlockPreamble", "BlockStatistics", "BlockTables", "ClassType", "QueryResponseSignature", "Question",
              "RR", "MalformedMessageData", "QueryResponse", "ResponseProcessingData", "QueryResponseExtended",
              "AddressEventCount", "MalformedMessage"]


def short(q):
    return q.replace("CDNS::", "")


def norm_name(n):
    n = n or ""
    if n.startswith("m_"):
        n = n[2:]
    return n.rstrip("_")


# ------------------------------------------------------------------ R01.3 generic <-> item mapping

ITEM_ROOTS = ("CDNS::QueryResponse", "CDNS::MalformedMessage", "CDNS::AddressEventCount", "CDNS::RR", "CDNS::Question")


def local_types(fn):
    t = {}
    for n in ir.walk(fn["body"]):
        if n.get("k") == "Decl":
            for v in n.get("vars", []):
                if "n" in v:
                    t["l:%s#%s" % (v["n"], v["id"])] = (v["t"].replace("const ", "").replace(" &", ""), v)
        if n.get("k") == "RangeFor" and n.get("var"):
            v = n["var"]
            t["l:%s#%s" % (v["n"], v["id"])] = (v["t"].replace("const ", "").replace(" &", ""), v)
    return t


def fields_of(p):
    return [x for x in p[1:] if x != "$"]


class Mapping:
    def __init__(self, fn, facts, adders, getters, side):
        self.fn, self.facts, self.side = fn, facts, side
        self.adders, self.getters = adders, getters
        self.env = Env(fn["body"])
        self.types = local_types(fn)
        self.chain_cache = {}
        self.struct_assign = []   # (lhs path, rhs local key, via adder or None)
        for lp, rhs, node in consumption.assignment_targets(ir.stmts(fn["body"])):
            if lp is None:
                continue
            e = unwrap_all_casts(rhs)
            while isinstance(e, dict) and e.get("k") == "Construct" and len(e.get("args", [])) == 1:
                e = unwrap_all_casts(e["args"][0])
            rp = path(e)
            if rp and len(rp) == 1 and rp[0].startswith("l:"):
                self.struct_assign.append((lp, rp[0], None))
            if isinstance(e, dict) and e.get("k") == "MCall" and callee_qn(e) in adders and e.get("args"):
                ap = path(unwrap_all_casts(e["args"][0]))
                if ap and len(ap) == 1 and ap[0].startswith("l:"):
                    self.struct_assign.append((lp, ap[0], callee_qn(e)))

    def chain(self, key, depth=0):
        """Chain string of a local struct variable relative to the item root ('' for the root)."""
        if key in self.chain_cache:
            return self.chain_cache[key]
        t = self.types.get(key, (None, None))[0]
        res = None
        if t in ITEM_ROOTS and not self._is_nested(key):
            res = ""
        elif depth < 5:
            if self.side == "write":
                for lp, rk, ad in self.struct_assign:
                    if rk == key and lp[0].startswith("l:") and lp[0] != key:
                        base = self.chain(lp[0], depth + 1)
                        if base is not None:
                            res = base + ".".join(fields_of(lp)) + (">" if ad else ".")
                            break
            else:
                v = self.types.get(key, (None, None))[1]
                init = v.get("init") if v else None
                e = unwrap_all_casts(init) if init is not None else None
                while isinstance(e, dict) and e.get("k") == "Construct" and len(e.get("args", [])) == 1:
                    e = unwrap_all_casts(e["args"][0])
                if isinstance(e, dict) and e.get("k") == "MCall" and callee_qn(e) in self.getters and e.get("args"):
                    ap = path(unwrap_all_casts(e["args"][0]))
                    if ap and ap[0].startswith("l:"):
                        base = self.chain(ap[0], depth + 1)
                        if base is not None:
                            res = base + ".".join(fields_of(ap)) + ">"
                elif e is not None:
                    ap = path(e)
                    if ap and ap[0].startswith("l:") and ap[0] != key:
                        base = self.chain(ap[0], depth + 1)
                        if base is not None and len(ap) > 1:
                            res = base + ".".join(fields_of(ap)) + "."
        self.chain_cache[key] = res
        return res

    def _is_nested(self, key):
        # a root-typed local that is itself stored into another local struct is not the root
        return False


def write_mapping(fn, facts, adders, getters, generic_param):
    """generic field X -> (item chain field, table or None)"""
    M = Mapping(fn, facts, adders, getters, "write")
    out = {}
    problems = []
    gp = "p:%s" % generic_param
    loopvars = {}
    for n in ir.walk(fn["body"]):
        if n.get("k") == "RangeFor":
            rp = path(n.get("range"))
            if rp and rp[0] == gp or (rp and rp == (gp,)):
                loopvars["l:%s#%s" % (n["var"]["n"], n["var"]["id"])] = True
    for lp, rhs, node in consumption.assignment_targets(ir.stmts(fn["body"])):
        if lp is None or not lp[0].startswith("l:") or len(lp) < 2:
            continue
        base = M.chain(lp[0])
        if base is None:
            continue
        e = unwrap_all_casts(rhs)
        while isinstance(e, dict) and e.get("k") == "Construct" and len(e.get("args", [])) == 1:
            e = unwrap_all_casts(e["args"][0])
        via = None
        if isinstance(e, dict) and e.get("k") == "Ref" and e.get("d") == "local":
            # an index that reaches the item through a local with several stores (a look-aside hit or the insertion): the store
            # that inserts says which generic member is stored here
            defs_ = []
            for x_ in ir.walk(fn["body"]):
                if x_.get("k") == "Decl":
                    defs_ += [v_["init"] for v_ in x_.get("vars", []) if v_.get("id") == e.get("id") and v_.get("n") == e.get("n") and v_.get("init") is not None]
                elif x_.get("k") == "Bin" and x_.get("op") == "=" and path(x_.get("lhs")) == path(e):
                    defs_.append(x_.get("rhs"))
            ins_ = [unwrap_all_casts(d_) for d_ in defs_ if isinstance(unwrap_all_casts(d_), dict) and unwrap_all_casts(d_).get("k") == "MCall" and
                    callee_qn(unwrap_all_casts(d_)) in adders and unwrap_all_casts(d_).get("args")]
            if len(ins_) == 1:
                e = ins_[0]
        if isinstance(e, dict) and e.get("k") == "MCall" and callee_qn(e) in adders and e.get("args"):
            via = callee_qn(e)
            e = unwrap_all_casts(e["args"][0])
        gpth = path(e)
        if gpth is None or not (gpth[0] == gp or gpth[0] in loopvars) or len(gpth) < 2:
            continue
        X = ".".join(fields_of(gpth))
        full = base + ".".join(fields_of(lp))
        if X in out and tuple(out[X][:2]) != (full, adders.get(via)):
            problems.append((node.get("l", 0), "generic field %s is stored twice (%s and %s)" % (X, out[X][0], full)))
        out[X] = (full, adders.get(via), node.get("l", 0), via)
    return out, problems


def read_mapping(fn, facts, adders, getters, generic_type):
    M = Mapping(fn, facts, adders, getters, "read")
    out = {}
    problems = []
    gkeys = [k for k, (t, v) in M.types.items() if t == generic_type]
    for lp, rhs, node in consumption.assignment_targets(ir.stmts(fn["body"])):
        if lp is None or lp[0] not in gkeys or len(lp) < 2:
            continue
        X = ".".join(fields_of(lp))
        e = unwrap_all_casts(rhs)
        while isinstance(e, dict) and e.get("k") == "Construct" and len(e.get("args", [])) == 1:
            e = unwrap_all_casts(e["args"][0])
        via = None
        # fill_generic_*_list(local) -> resolve the local's definition
        if isinstance(e, dict) and e.get("k") == "MCall" and callee_name(e) in ("fill_generic_q_list", "fill_generic_rr_list") and e.get("args"):
            ap = path(unwrap_all_casts(e["args"][0]))
            d = M.env.defs.get(ap[0]) if ap and len(ap) == 1 else None
            e = unwrap_all_casts(d) if d is not None else None
            while isinstance(e, dict) and e.get("k") == "Construct" and len(e.get("args", [])) == 1:
                e = unwrap_all_casts(e["args"][0])
        if isinstance(e, dict) and e.get("k") == "MCall" and callee_qn(e) in getters and e.get("args"):
            via = callee_qn(e)
            e = unwrap_all_casts(e["args"][0])
        ip = path(e) if e is not None else None
        if ip is None or not ip[0].startswith("l:"):
            continue
        base = M.chain(ip[0])
        if base is None:
            continue
        full = base + ".".join(fields_of(ip))
        out[X] = (full, getters.get(via), node.get("l", 0), via)
    return out, problems


def check_generic_mapping(run, rule):
    facts = run.facts
    adders, getters, tabs = tables.adders_getters(facts)
    B = "CDNS::CdnsBlock::"
    R = "CDNS::CdnsBlockRead::"
    pairs = [
        (facts.fn(B + "add_question_response_record", sig=["const CDNS::GenericQueryResponse &", "const boost::optional<CDNS::BlockStatistics> &"], rule=rule),
         facts.fn(R + "read_generic_qr", rule=rule), "CDNS::GenericQueryResponse", "qr"),
        (facts.fn(B + "add_malformed_message", sig=["const CDNS::GenericMalformedMessage &", "const boost::optional<CDNS::BlockStatistics> &"], rule=rule),
         facts.fn(R + "read_generic_mm", rule=rule), "CDNS::GenericMalformedMessage", "mm"),
        (facts.fn(B + "add_address_event_count", sig=["const CDNS::GenericAddressEventCount &", "const boost::optional<CDNS::BlockStatistics> &"], rule=rule),
         facts.fn(R + "read_generic_aec", rule=rule), "CDNS::GenericAddressEventCount", "aec"),
        (facts.fn(B + "add_generic_qlist", rule=rule), facts.fn(R + "fill_generic_q_list", rule=rule), "CDNS::GenericResourceRecord", "qlist"),
        (facts.fn(B + "add_generic_rrlist", rule=rule), facts.fn(R + "fill_generic_rr_list", rule=rule), "CDNS::GenericResourceRecord", "rrlist"),
    ]
    total = 0
    for wf, rf, gtype, tag in pairs:
        W, wp = write_mapping(wf, facts, adders, getters, wf["params"][0]["n"])
        Rm, rp = read_mapping(rf, facts, adders, getters, gtype)
        for line, text in wp:
            run.ob(rule, "%s:write-dup" % tag, False, wf, line, text)
        rec = facts.record(gtype, rule=rule)
        gfields = [f["n"] for f in rec["fields"]]
        for X in sorted(set(W) | set(Rm)):
            total += 1
            key = "%s.%s" % (tag, X)
            if X not in W:
                if X == "ae_count":
                    continue   # count is produced by aggregation, see R01.5
                run.ob(rule, key, False, rf, Rm[X][2],
                       "generic field %s is restored by %s from %s, but %s never stores it: the field of every record given to the "
                       "library is lost" % (X, short(rf["qn"]), Rm[X][0], short(wf["qn"])))
                continue
            if X not in Rm:
                run.ob(rule, key, False, rf, rf["line"],
                       "generic field %s is stored by %s into %s but %s never restores it" % (X, short(wf["qn"]), W[X][0], short(rf["qn"])))
                continue
            wfull, wtab, wl, wvia = W[X]
            rfull, rtab, rl, rvia = Rm[X]
            ok = wfull == rfull and wtab == rtab
            run.ob(rule, key, ok, wf if ok else rf, wl if ok else rl,
                   "%s <-> item field %s%s" % (X, wfull, (" via table %s" % wtab) if wtab else "") if ok else
                   "generic field %s is stored in %s%s but restored from %s%s" % (
                       X, wfull, (" (table %s)" % wtab) if wtab else "", rfull, (" (table %s)" % rtab) if rtab else ""))
        # every generic struct member except documented ones is covered on the write side
        for g in gfields:
            if g not in W and g not in ("ae_count",) and tag in ("qr", "mm", "aec"):
                run.ob(rule, "%s.%s:stored" % (tag, g), False, wf, wf["line"], "generic member %s is never stored by %s" % (g, short(wf["qn"])))
    run.floor(rule, 55, "generic fields")
    run.info["generic_fields"] = total


# ------------------------------------------------------------------ R01.4 time reference

def check_time_reference(run, rule):
    facts = run.facts
    bw = facts.fn("CDNS::CdnsBlock::write", rule=rule)
    br = facts.fn("CDNS::CdnsBlockRead::read", rule=rule)
    env = Env(bw["body"])
    want_ref = ("this", "m_block_preamble", "earliest_time")
    want_tps = ("this", "m_block_parameters", "storage_parameters", "ticks_per_second")
    n = 0
    for st in ("CDNS::QueryResponse", "CDNS::MalformedMessage"):
        wf = [f for f in facts.fns(st + "::write") if emission.is_serialiser_sig(f)]
        if len(wf) != 1:
            raise AnalysisBroken(rule, "%s::write not found" % st)
        wf = wf[0]
        # inside the item writer: get_time_offset(param earliest, param tps) on this.time_offset
        calls = [c for c in ir.calls_in(wf["body"]) if callee_qn(c) == "CDNS::Timestamp::get_time_offset"]
        ok = len(calls) == 1 and path(calls[0].get("recv")) == ("this", "time_offset", "$")
        pnames = [p["n"] for p in wf["params"]]
        if ok:
            a = calls[0]["args"]
            ok = path(a[0]) == ("p:%s" % pnames[1],) and path(a[1]) == ("p:%s" % pnames[2],)
        n += 1
        run.ob(rule, "%s::write:offset-from-parameters" % short(st), ok, wf, calls[0]["l"] if calls else wf["line"],
               "offset = time_offset - <reference parameter> at <rate parameter>" if ok else
               "time offset is not computed as time_offset.get_time_offset(earliest, ticks_per_second) from the function's parameters")
        # call sites in CdnsBlock::write hand in the block's own earliest time and rate
        sites = [c for c in ir.calls_in(bw["body"]) if callee_qn(c) == st + "::write"]
        for c in sites:
            a = c["args"]
            ok = len(a) == 3 and path(a[1]) == want_ref and path(a[2]) == want_tps
            n += 1
            run.ob(rule, "CdnsBlock::write->%s::write:reference" % short(st), ok, bw, c["l"],
                   "reference = m_block_preamble.earliest_time, rate = the block's ticks_per_second" if ok else
                   "item written relative to (%s, %s) instead of the block's earliest_time / ticks_per_second" % (show(a[1]), show(a[2])))
    # read side
    adds = [c for c in ir.calls_in(br["body"]) if callee_qn(c) == "CDNS::Timestamp::add_time_offset"]
    for i, c in enumerate(adds):
        recv = path(c.get("recv"))
        ok_rate = path(c["args"][1]) == want_tps
        # the timestamp it is applied to was assigned the block's earliest time just before
        ok_ref = False
        root = recv[:-1] if recv and recv[-1] == "$" else recv
        for lp, rhs, node in consumption.assignment_targets(ir.stmts(br["body"])):
            if lp == root and path(rhs) == want_ref and node.get("l", 0) <= c.get("l", 0):
                ok_ref = True
        # the offset argument comes from the m_secs slot the item reader filled
        offp = path(c["args"][0])
        env_r = Env(br["body"])
        d = None
        for n_ in ir.walk(br["body"]):
            if n_.get("k") == "Decl":
                for v in n_.get("vars", []):
                    if offp and "l:%s#%s" % (v.get("n"), v.get("id")) == offp[0] and v.get("init") is not None:
                        d = path(v["init"])
        ok_off = d is not None and root is not None and d[:len(root)] == root and d[-1] == "m_secs"
        n += 1
        ok = ok_rate and ok_ref and ok_off
        run.ob(rule, "CdnsBlockRead::read:add_time_offset#%d" % i, ok, br, c["l"],
               "offset restored onto the block's earliest_time at the block's rate" if ok else
               "offset restoration uses reference ok=%s rate ok=%s offset-slot ok=%s (must mirror CdnsBlock::write)" % (ok_ref, ok_rate, ok_off))
    run.floor(rule, 6, "time-reference obligations")


# ------------------------------------------------------------------ R01.5 address-event aggregation

def check_aec(run, rule):
    facts = run.facts
    fns = facts.fns("CDNS::CdnsBlock::add_address_event_count")
    if len(fns) != 2:
        raise AnalysisBroken(rule, "expected two add_address_event_count overloads")
    for f in fns:
        tag = "add_address_event_count(%s)" % short(f["sig"][0]).replace("const ", "").replace(" &", "")
        ifs = [n for n in ir.walk(f["body"]) if n.get("k") == "If" and n.get("else") is not None]
        hit = None
        for n in ifs:
            txt = show(n["cond"])
            if "end()" in txt and "m_address_event_counts" in txt:
                hit = n
        ok = False
        why = "expected `if (found != end) found->second++ else map[aec] = 1`"
        if hit is not None:
            c = unwrap(hit["cond"])
            neq = isinstance(c, dict) and c.get("op") == "!="
            inc_branch, ins_branch = (hit["then"], hit["else"]) if neq else (hit["else"], hit["then"])
            incs = [x for x in ir.walk(inc_branch) if x.get("k") == "Un" and x.get("op") in ("post++", "pre++")] + \
                   [x for x in ir.walk(inc_branch) if x.get("k") == "Bin" and x.get("op") == "+=" and const_value(x["rhs"]) == 1]
            ins = [x for x in ir.walk(ins_branch) if x.get("k") == "Bin" and x.get("op") == "=" and const_value(x["rhs"]) == 1]
            ok = len(incs) == 1 and len(ins) == 1 and "m_address_event_counts" in show(ins[0]["lhs"])
            why = "hit increments the stored count, miss inserts 1" if ok else \
                "aggregation branches: %d increment(s) on hit, %d insert-of-1 on miss" % (len(incs), len(ins))
        if hit is None:
            # the other spelling of the same aggregation: `++map[key]` (operator[] value-initialises a new count to 0)
            def on_map_elem(e_):
                u_ = unwrap(e_)
                return isinstance(u_, dict) and u_.get("k") == "OpCall" and u_.get("op") == "[]" and u_.get("args") and \
                    (path(u_["args"][0]) or ())[-1:] == ("m_address_event_counts",)
            direct = [x for x in ir.walk(f["body"]) if (x.get("k") == "Un" and x.get("op") in ("post++", "pre++") and on_map_elem(x.get("e"))) or
                      (x.get("k") == "Bin" and x.get("op") == "+=" and const_value(x["rhs"]) == 1 and on_map_elem(x["lhs"]))]
            other = [x for x in ir.walk(f["body"]) if x.get("k") == "Bin" and x.get("op") in ("=", "-=", "*=") and on_map_elem(x["lhs"])] + \
                    [x for x in ir.walk(f["body"]) if x.get("k") == "Un" and x.get("op") in ("post--", "pre--") and on_map_elem(x.get("e"))]
            if len(direct) == 1 and not other:
                ok = True
                why = "the count stored under the event's key is incremented once (a new key starts at 0)"
                hit = direct[0]
        if hit is None and not ok:
            # third spelling: `res = map.insert({key, 1}); if (!res.second) res.first->second++;`
            for d_ in ir.walk(f["body"]):
                if d_.get("k") != "Decl":
                    continue
                for v_ in d_.get("vars", []):
                    init_ = unwrap(v_.get("init")) if v_.get("init") is not None else None
                    if not (isinstance(init_, dict) and init_.get("k") == "MCall" and callee_name(init_) in ("insert", "emplace") and
                            (path(init_.get("recv")) or ())[-1:] == ("m_address_event_counts",)):
                        continue
                    args_ = init_.get("args", [])
                    one = None
                    if callee_name(init_) == "emplace" and len(args_) == 2:
                        one = const_value(args_[1])
                    elif len(args_) == 1:
                        pr = ir.unwrap_all_casts(args_[0])
                        while isinstance(pr, dict) and pr.get("k") in ("Construct", "Temp", "Bind") and len(pr.get("args", [])) == 1:
                            pr = ir.unwrap_all_casts(pr["args"][0])
                        if isinstance(pr, dict) and pr.get("k") in ("Construct", "InitList"):
                            el = pr.get("args") or pr.get("c") or []
                            if len(el) == 2:
                                one = const_value(el[1])
                    rname = "l:%s#%s" % (v_.get("n"), v_.get("id"))
                    for i_ in ir.walk(f["body"]):
                        if i_.get("k") != "If" or i_.get("else") is not None:
                            continue
                        ct = show(i_["cond"]).replace("(", "").replace(")", "")
                        if ct != "!%s.second" % rname:
                            continue
                        incs_ = [x for x in ir.walk(i_["then"]) if (x.get("k") == "Un" and x.get("op") in ("post++", "pre++")) or
                                 (x.get("k") == "Bin" and x.get("op") == "+=" and const_value(x["rhs"]) == 1)]
                        if len(incs_) == 1 and ("%s.first" % rname) in show(incs_[0]) and "second" in show(incs_[0]):
                            hit = i_
                            ok = one == 1
                            why = "a new key is inserted with count 1, an existing one is incremented (single insert())" if ok else \
                                "insert() stores the initial count %s, a first occurrence must count 1" % one
        run.ob(rule, tag + ":aggregate", ok, f, hit["l"] if hit else f["line"], why)
    bw = facts.fn("CDNS::CdnsBlock::write", rule=rule)
    ok = False
    for lp, rhs, node in consumption.assignment_targets(ir.stmts(bw["body"])):
        if lp and lp[-1] == "ae_count":
            rp = path(rhs)
            ok = rp is not None and rp[-1] == "second"
    if not ok:
        # the other shape: the aggregated count is handed to the item's serialiser, which writes that parameter under ae_count
        for c in ir.calls_in(bw["body"]):
            cal = c.get("callee") or {}
            if cal.get("cls") != "CDNS::AddressEventCount" or not emission.struct_callee(c, facts):
                continue
            cands = [g for g in facts.fns(cal["qn"]) if g["sig"] == cal["sig"]]
            if len(cands) != 1:
                continue
            wa_ = emission.analyse_writer(cands[0], facts)
            for row in wa_.rows:
                if row["name"] == "ae_count":
                    v_ = row["value"]
                    vp = path(v_.ev.call["args"][0]) if getattr(v_, "ev", None) is not None and v_.ev.call.get("args") else None
                    if vp and len(vp) == 1 and vp[0].startswith("p:"):
                        idx = [i for i, p_ in enumerate(cands[0]["params"]) if "p:%s" % p_["n"] == vp[0]]
                        if idx and idx[0] < len(c.get("args", [])):
                            ap = path(c["args"][idx[0]])
                            ok = ap is not None and ap[-1] == "second"
    run.ob(rule, "CdnsBlock::write:ae_count=aggregated", ok, bw, bw["line"],
           "the aggregated count is written as ae_count" if ok else "ae_count written is not the aggregated map value")
    br = facts.fn("CDNS::CdnsBlockRead::read_generic_aec", rule=rule)
    ok = any(lp and lp[-1] == "ae_count" and "second" in show(rhs)
             for lp, rhs, node in consumption.assignment_targets(ir.stmts(br["body"])))
    run.ob(rule, "read_generic_aec:ae_count=stored", ok, br, br["line"], "the stored count is returned as ae_count")
    run.floor(rule, 4, "aggregation obligations")



# ------------------------------------------------------------------ R01.7 statistics, R01.8 order

def check_stats_and_order(run):
    facts = run.facts
    BLKQ = "CDNS::CdnsBlock::"
    fns = [f for f in facts.functions.values() if f.get("cls") == "CDNS::CdnsBlock" and f["qn"].split("::")[-1] in
           ("add_question_response_record", "add_address_event_count", "add_malformed_message")]
    for f in sorted(fns, key=lambda f: f["line"]):
        tag = "%s(%s)" % (f["qn"].split("::")[-1], short(f["sig"][0]).replace("const ", "").replace(" &", ""))
        env = Env(f["body"])
        sp = "p:%s" % f["params"][1]["n"]
        hits = []
        stores = []
        order = {id(n): i for i, n in enumerate(ir.walk(f["body"]))}
        for st, g, loops in ir.guarded_statements(f["body"], env):
            if st.get("k") in ("IfCond", "LoopHead", "SwitchHead"):
                continue
            for lp, rhs, node in consumption.assignment_targets([st]):
                if lp == ("this", "m_block_statistics"):
                    hits.append((node, g, rhs))
            for c in ir.calls_in(st):
                if callee_name(c) in ("push_back", "emplace_back", "insert", "emplace_front", "push_front") and path(c.get("recv")) and \
                        path(c.get("recv"))[0] == "this" and path(c.get("recv"))[-1] in ("m_query_responses", "m_malformed_messages"):
                    stores.append((c, g))
        ok = len(hits) == 1 and path(hits[0][2]) == (sp,)
        if ok:
            extra = [a for a in conjuncts(hits[0][1]) if a != ("present", (sp,)) and not (a[0] == "bit" or (a[0] == "not" and a[1][0] == "bit")) and a[0] != "or"]
            ok = ("present", (sp,)) in conjuncts(hits[0][1]) and not extra
        elif len(hits) > 1 and all(path(h[2]) == (sp,) and ("present", (sp,)) in conjuncts(h[1]) for h in hits):
            # several sites (an early exit that takes the statistics over as well): they have to be mutually exclusive and
            # together cover every path past the storage gate - decided by a truth table over the atoms of their guards
            import itertools as _it
            res = [ir.f_and(*[a for a in conjuncts(h[1]) if a != ("present", (sp,))]) if [a for a in conjuncts(h[1]) if a != ("present", (sp,))] else ("T",) for h in hits]
            atoms = []
            for r_ in res:
                for a in ir.walk_formula(r_):
                    if a not in atoms:
                        atoms.append(a)
            gate = [a for a in atoms if a[0] == "bit"]

            def evf(f_, val):
                h_ = f_[0]
                if h_ == "T":
                    return True
                if h_ == "F":
                    return False
                if h_ == "not":
                    return not evf(f_[1], val)
                if h_ == "and":
                    return all(evf(x, val) for x in f_[1:])
                if h_ == "or":
                    return any(evf(x, val) for x in f_[1:])
                return val[f_]
            ok = len(atoms) <= 14
            if ok:
                for combo in _it.product((False, True), repeat=len(atoms)):
                    val = dict(zip(atoms, combo))
                    n_true = sum(1 for r_ in res if evf(r_, val))
                    want = 1 if all(val[a] for a in gate) else 0
                    if n_true != want:
                        ok = False
                        break
        run.ob("R01.7", tag + ":latest-statistics", ok, f, hits[0][0].get("l", f["line"]) if hits else f["line"],
               "the statistics handed in with the record replace the block's statistics whenever they are supplied" if ok else
               "block statistics must be overwritten exactly when the caller supplies them (guard found: %s)" % (show_f(hits[0][1]) if hits else "no assignment"))
        for c, g in stores:
            ok = callee_name(c) in ("push_back", "emplace_back")
            run.ob("R01.8", tag + ":append", ok, f, c.get("l", 0),
                   "records are appended (submission order is the stored order)" if ok else "records are inserted with %s, not appended" % callee_name(c))
    # writer iterates the vectors front to back, reader appends, accessors walk by ascending index
    bw = facts.fn(BLKQ + "write", rule="R01.8")
    rng = [n for n in ir.walk(bw["body"]) if n.get("k") == "RangeFor" and path(n.get("range")) in (("this", "m_query_responses"), ("this", "m_malformed_messages"))]
    run.ob("R01.8", "CdnsBlock::write:front-to-back", len(rng) == 2, bw, bw["line"], "query/responses and malformed messages are serialised by a forward range-for")
    for meth, cur, vec in (("read_generic_qr", "m_qr_read", "m_query_responses"), ("read_generic_mm", "m_mm_read", "m_malformed_messages")):
        f = facts.fn("CDNS::CdnsBlockRead::" + meth, rule="R01.8")
        idx = [n for n in ir.walk(f["body"]) if n.get("k") == "OpCall" and n.get("op") == "[]" and path(n["args"][0]) == ("this", vec) and path(n["args"][1]) == ("this", cur)]
        incs = [n for n in ir.walk(f["body"]) if n.get("k") == "Un" and n.get("op") in ("post++", "pre++") and path(n.get("e")) == ("this", cur)]
        decs = [n for n in ir.walk(f["body"]) if n.get("k") in ("Un", "Bin") and n.get("op") in ("post--", "pre--", "-=", "=", "+=") and
                path(n.get("e") if n.get("k") == "Un" else n.get("lhs")) == ("this", cur)]
        ok = len(idx) == 1 and len(incs) == 1 and not decs
        run.ob("R01.8", "%s:ascending-cursor" % meth, ok, f, f["line"],
               "returns item [cursor] and advances the cursor by one" if ok else "cursor handling: %d subscript(s), %d increment(s), %d other write(s)" % (len(idx), len(incs), len(decs)))
    run.floor("R01.7", 6, "add_* overloads")
    run.floor("R01.8", 7, "order obligations")

# ------------------------------------------------------------------ check

# ------------------------------------------------------------------ R01.10 records built in a loop are fresh per element

def check_fresh_records(run, rule):
    """A record that is filled member by member and handed to a container / block table inside a loop must not carry
    members over from the previous element: either it is declared (or wholly re-assigned) inside that loop, or every member
    the loop assigns is assigned unconditionally.  Otherwise an element without an optional field inherits the field of the
    element before it (only visible with heterogeneous lists)."""
    facts = run.facts
    n = 0
    for f in sorted(facts.functions.values(), key=lambda f: (f.get("file", ""), f.get("line", 0))):
        if not f.get("file", "").startswith(facts.repo + "/src/") or "/src/bin/" in f.get("file", "") or f.get("body") is None:
            continue
        env = Env(f["body"])
        decl_of = {}
        for d in ir.walk(f["body"]):
            if d.get("k") == "Decl":
                for v in d.get("vars", []):
                    if "n" in v:
                        decl_of["l:%s#%s" % (v["n"], v["id"])] = (d, v)
        for lp in ir.walk(f["body"]):
            if lp.get("k") not in ("While", "Do", "For", "RangeFor"):
                continue
            inside = set(id(x) for x in ir.walk(lp.get("body") or {}))
            # stores of a whole local record
            for c in ir.calls_in(lp.get("body") or {}):
                nm = callee_name(c) or ""
                cal = c.get("callee") or {}
                is_store = nm in ("push_back", "emplace_back", "insert", "emplace") or \
                    (cal.get("inrepo") and (nm.startswith("add") or nm == "add"))
                if not is_store:
                    continue
                for a in c.get("args", []):
                    ap = path(a)
                    if not ap or len(ap) != 1 or not ap[0].startswith("l:") or ap[0] not in decl_of:
                        continue
                    d, v = decl_of[ap[0]]
                    t = (v.get("t") or "").replace("const ", "")
                    if not t.startswith("CDNS::") or t.endswith("&") or t.endswith("*"):
                        continue
                    n += 1
                    key = "%s:%s->%s" % (short(f["qn"]), v["n"], nm)
                    if id(d) in inside:
                        run.ob(rule, key, True, f, d.get("l", 0), "`%s` is a fresh %s for every element" % (v["n"], short(t)), nontrivial=False)
                        continue
                    # declared outside the loop: which members does the loop assign, and under which guards?
                    cond_members = []
                    reset = False
                    for st, g, loops in ir.guarded_statements(lp.get("body"), env):
                        if st.get("k") in ("IfCond", "LoopHead", "SwitchHead"):
                            continue
                        for tgt, rhs, node in consumption.assignment_targets([st]):
                            if tgt == ap:
                                reset = reset or g == ("T",)
                            elif tgt and tgt[:1] == ap and g != ("T",):
                                cond_members.append((tgt[1], g, node))
                    ok = reset or not cond_members
                    run.ob(rule, key, ok, f, (cond_members[0][2] if cond_members else c).get("l", 0),
                           "`%s` lives across iterations but every member the loop sets is set unconditionally" % v["n"] if ok else
                           "`%s` (declared at line %s, outside the loop) is stored for every element, but its member %s is only assigned when %s: "
                           "an element without that field inherits the value of the previous element" % (
                               v["n"], d.get("l"), cond_members[0][0], ir.show_f(cond_members[0][1])))
    run.floor(rule, 2, "records built and stored inside loops")


# ------------------------------------------------------------------ R01.11 what a record leaves in the block is cleared with it

def check_block_state_cleared(run, rule):
    """Every member of CdnsBlock that buffering a record can change (reached from CdnsExporter::buffer_*) describes the
    block being filled; CdnsBlock::clear() - called when that block has been written - has to re-initialise it, or the next
    block starts from state (a memoised index, a count, a time) that refers to tables which no longer exist."""
    from ..callgraph import CallGraph
    facts = run.facts
    BLK = "CDNS::CdnsBlock"
    clr = facts.fn(BLK + "::clear", rule=rule)
    cg = CallGraph(facts)
    entries = [f for f in facts.functions.values()
               if f.get("cls") == "CDNS::CdnsExporter" and f["qn"].split("::")[-1].startswith("buffer_")]
    if not entries:
        raise AnalysisBroken(rule, "no CdnsExporter::buffer_* entry point found")
    # what buffering does to the block: the CdnsBlock methods buffer_* calls on its block (writing the full block out
    # is a different step, with its own obligations)
    adders = {}
    for e in entries:
        for c in ir.calls_in(e["body"]):
            if c.get("k") == "MCall" and path(c.get("recv")) == ("this", "m_block"):
                for g in cg.resolve(c, e):
                    adders[g["key"]] = g
    if not adders:
        raise AnalysisBroken(rule, "CdnsExporter::buffer_* call nothing on m_block")
    reach = cg.reachable(list(adders.values()))
    fields = {fl["n"] for fl in facts.record(BLK, rule=rule)["fields"]}

    def writes(f):
        out = {}
        for n in ir.walk(f["body"]):
            k = n.get("k")
            tgt = None
            if k == "Bin" and n.get("op", "").endswith("=") and n["op"] not in ("==", "!=", "<=", ">="):
                tgt = path(n["lhs"])
            elif k == "Un" and n.get("op") in ("pre++", "post++", "pre--", "post--"):
                tgt = path(n["e"])
            elif k in ("MCall", "OpCall"):
                cal = n.get("callee") or {}
                r = n.get("recv") if k == "MCall" else (n.get("args") or [None])[0]
                if not cal.get("const") and r is not None:
                    tgt = path(r)
                    if k == "OpCall" and n.get("op") not in ("=", "+=", "-=", "++", "--", "[]"):
                        tgt = None
            if tgt and len(tgt) >= 2 and tgt[0] == "this" and tgt[1] in fields:
                tgt = tuple(x for x in tgt if not x.startswith("["))
                out.setdefault(tgt, n.get("l", f["line"]))
        return out

    touched = {}
    for f in reach.values():
        if f.get("cls") != BLK or f.get("ctor") or f.get("body") is None or f["key"] == clr["key"]:
            continue
        for tgt, ln in writes(f).items():
            touched.setdefault(tgt, (f, ln))
    resets = writes(clr)
    # a reset that sits behind a condition (an early `return` for "nothing to do") does not happen in every state
    envk = Env(clr["body"])
    uncond = set()
    for st_, g_, loops_ in ir.guarded_statements(clr["body"], envk):
        if st_.get("k") in ("IfCond", "LoopHead", "SwitchHead"):
            continue
        for tgt_ in writes({"body": st_, "line": clr["line"]}):
            own = ".".join(tgt_)
            extra_ = [a_ for a_ in conjuncts(g_) if a_ != ("T",) and own not in repr(a_) and tgt_[1] not in repr(a_)]
            if not extra_:
                uncond.add(tgt_)
    resets = {r_: l_ for r_, l_ in resets.items() if r_ in uncond}
    # a member that is only ever read while a validity flag is set carries nothing once clear() has lowered that flag
    from .. import memos as _memos
    behind = {}
    for flag_, members_ in _memos.flags(facts, BLK).items():
        lowered = any(x.get("k") == "Bin" and x.get("op") == "=" and path(x.get("lhs")) == ("this", flag_) and const_value(x.get("rhs")) == 0
                      for st_, g_, loops_ in ir.guarded_statements(clr["body"], envk) if g_ == ("T",) for x in ir.walk(st_))
        if lowered:
            for m_ in members_:
                behind[m_] = flag_
    n = 0
    for tgt, (f, ln) in sorted(touched.items()):
        n += 1
        ok = any(tgt[:len(r)] == r for r in resets)
        if not ok and tgt[1] not in behind:
            # ... or only ever in a condition that also tests a member clear() does reset (`index < table.size() && key == last_key`
            # with the index parked out of range by clear())
            comp = None
            reads_ = 0
            good_ = 0
            for g_fn in facts.functions.values():
                if g_fn.get("cls") != BLK or g_fn.get("body") is None or g_fn.get("ctor") or g_fn["qn"].endswith("::operator="):
                    continue
                envg = Env(g_fn["body"])
                for st_, gg_, lps_ in ir.guarded_statements(g_fn["body"], envg):
                    nodes_ = ir.walk(st_["cond"]) if st_.get("k") == "IfCond" else ([] if st_.get("k") in ("LoopHead", "SwitchHead") else ir.walk(st_))
                    txt_ = repr(gg_) + (repr(ir.cond(st_["cond"], envg)) if st_.get("k") == "IfCond" else "")
                    for x_ in nodes_:
                        if x_.get("k") == "Member" and path(x_) and tuple(path(x_)[:len(tgt)]) == tgt:
                            # (the left-hand side of a store is not a read)
                            reads_ += 1
                            # (a companion is a member that changes only together with this one - the table the index points
                            # into refills on its own and is none)
                            others_ = [r_ for r_ in resets if r_ != tgt and ("this.%s" % r_[1]) in txt_ and
                                       all(any(w_[:len(tgt)] == tgt for w_ in writes(h_)) for h_ in facts.functions.values()
                                           if h_.get("cls") == BLK and h_.get("body") is not None and not h_.get("ctor") and h_["key"] != clr["key"] and
                                           not h_["qn"].endswith("::operator=") and any(w_[:len(r_)] == r_ for w_ in writes(h_)))]
                            if others_:
                                good_ += 1
                                comp = others_[0][1]
            stores_ = sum(1 for g_fn in facts.functions.values() if g_fn.get("cls") == BLK and g_fn.get("body") is not None
                          for x_ in ir.walk(g_fn["body"]) if x_.get("k") in ("Bin", "OpCall") and x_.get("op") == "=" and
                          path((x_.get("lhs") if x_["k"] == "Bin" else (x_.get("args") or [None])[0]) or {}) == tgt)
            if comp is not None and reads_ - stores_ <= good_ and good_ > 0:
                run.ob(rule, "CdnsBlock::clear:resets-%s" % ".".join(tgt[1:]), True, clr, clr["line"],
                       "%s is read only in conditions that also test %s, which clear() re-initialises" % (".".join(tgt[1:]), comp))
                continue
        if not ok and tgt[1] in behind:
            run.ob(rule, "CdnsBlock::clear:resets-%s" % ".".join(tgt[1:]), True, clr, clr["line"],
                   "%s is read only while %s is set, and clear() lowers that flag" % (".".join(tgt[1:]), behind[tgt[1]]))
            continue
        run.ob(rule, "CdnsBlock::clear:resets-%s" % ".".join(tgt[1:]), ok, clr, clr["line"],
               "%s (changed by %s) is re-initialised by clear()" % (".".join(tgt[1:]), short(f["qn"])) if ok else
               "%s:%d changes %s while a record is buffered, but clear() leaves it as it is: the next block starts with state that "
               "describes the block already written" % (short(f["qn"]), ln, ".".join(tgt[1:])))
    run.floor(rule, 10, "block members changed by buffering")


def check_filled_flags(run, rule):
    """R01.17: "filled" flags.  The functions that turn a generic record into block items build each sub-record in a local
    object O next to a local `bool F = false` and attach / store O only `if (F)`.  So that no field the caller gave is lost:
      * F is never lowered again (an assignment of the constant false after its declaration);
      * every conditional statement list that stores a member of O also raises F (`F = true` in the same list) - the pairing
        O -> F is read off the lists that do both, and only taken when O is paired with one flag only;
      * every such flag that guards something is raised somewhere.
    A record that has only the one field whose list forgets the flag would be dropped whole."""
    facts = run.facts
    n_pairs = 0
    for fn in sorted(facts.functions.values(), key=lambda f_: (f_.get("file", ""), f_.get("line", 0))):
        if fn.get("body") is None or not (fn.get("qn") or "").startswith("CDNS::CdnsBlock::add_"):
            continue
        flags = {}
        for d in ir.walk(fn["body"]):
            if d.get("k") == "Decl":
                for v in d.get("vars", []):
                    if (v.get("t") or "") == "bool" and v.get("init") is not None and const_value(v["init"]) in (0, False) and "id" in v:
                        flags["l:%s#%s" % (v["n"], v["id"])] = v
        if not flags:
            continue

        def flag_store(st):
            u = unwrap(st)
            if isinstance(u, dict) and u.get("k") == "Bin" and u.get("op") == "=":
                lp = path(u.get("lhs"))
                if lp and len(lp) == 1 and lp[0] in flags:
                    return lp[0], const_value(u.get("rhs")), u
            return None

        def obj_store(st):
            u = unwrap(st)
            lhs = None
            if isinstance(u, dict) and u.get("k") == "Bin" and u.get("op") == "=":
                lhs = u.get("lhs")
            elif isinstance(u, dict) and u.get("k") == "OpCall" and u.get("op") == "=" and len(u.get("args", [])) == 2:
                lhs = u["args"][0]
            lp = path(lhs) if lhs is not None else None
            if lp and len(lp) >= 2 and lp[0].startswith("l:") and lp[0] not in flags:
                return lp[0], ".".join(lp[1:]), u
            return None
        # consumers: flags tested by an `if`
        tested = set()
        for n in ir.walk(fn["body"]):
            if n.get("k") == "If":
                for x in ir.walk(n.get("cond")):
                    if x.get("k") == "Ref" and path(x) and path(x)[0] in flags:
                        tested.add(path(x)[0])
        lists = []          # (If node, top-level statements of a branch)
        for n in ir.walk(fn["body"]):
            if n.get("k") == "If":
                for br in ("then", "else"):
                    if n.get(br) is not None:
                        lists.append((n, ir.stmts(n[br])))
        pair_count = {}
        for n, sts in lists:
            fl = set(f[0] for f in (flag_store(x) for x in sts) if f is not None and f[1] in (1, True))
            obs = set(o[0] for o in (obj_store(x) for x in sts) if o is not None)
            if len(fl) == 1:
                for o in obs:
                    pair_count.setdefault(o, {}).setdefault(list(fl)[0], 0)
                    pair_count[o][list(fl)[0]] += 1
        pairing = {o: list(d)[0] for o, d in pair_count.items() if len(d) == 1 and list(d.values())[0] >= 2 and list(d)[0] in tested}
        raised = set()
        for x in ir.walk(fn["body"]):
            fs = flag_store(x) if isinstance(x, dict) and x.get("k") in ("Bin", "Paren", "ExprStmt", "Cast") else None
            if fs is None:
                continue
            name = fs[0].split("#")[0][2:]
            if fs[1] in (1, True):
                raised.add(fs[0])
            elif fs[1] in (0, False) and fs[0] in tested and fs[0] in set(pairing.values()):
                run.ob(rule, "%s:%s:never-lowered" % (short(fn["qn"]), name), False, fn, fs[2].get("l", 0),
                       "`%s = false`: what was stored before this statement is forgotten - a record whose other fields are absent is dropped "
                       "although the caller gave this one" % name)
        for n, sts in lists:
            fl = set(f[0] for f in (flag_store(x) for x in sts) if f is not None and f[1] in (1, True))
            for x in sts:
                o = obj_store(x)
                if o is None or o[0] not in pairing:
                    continue
                F = pairing[o[0]]
                n_pairs += 1
                ok = F in fl
                run.ob(rule, "%s:%s.%s:raises-%s" % (short(fn["qn"]), o[0].split("#")[0][2:], o[1], F.split("#")[0][2:]), ok, fn, o[2].get("l", 0),
                       "stored together with `%s = true`" % F.split("#")[0][2:] if ok else
                       "%s.%s is stored here but `%s` is not raised in this branch (it is in the %d other branches that store into %s): a record "
                       "with only this field present is dropped" % (o[0].split("#")[0][2:], o[1], F.split("#")[0][2:], pair_count[o[0]][F], o[0].split("#")[0][2:]))
        for F in sorted(set(pairing.values())):
            ok = F in raised
            run.ob(rule, "%s:%s:raised-somewhere" % (short(fn["qn"]), F.split("#")[0][2:]), ok, fn, fn["line"],
                   "the flag is raised where its record is filled" if ok else "the flag is tested but never raised")
    run.info["filled_flag_pairs"] = n_pairs


def check_read_cursors(run, rule):
    """R01.19: read cursors of CdnsBlockRead.  A member that a method uses as subscript of a member container and increments
    (`m_x[m_c] .. m_c++`) is a cursor over the records of the block; read_generic_*() hands out the records from the cursor
    on.  Wherever the class gives such a cursor a *constant* (constructor initialisers, in-class initialisers, assignments),
    the constant is 0: any other start skips records of every block.  (Values copied from another block are R19.2's.)"""
    facts = run.facts
    cls = "CDNS::CdnsBlockRead"
    rec = facts.record(cls, rule=rule)
    methods = [f for f in facts.functions.values() if f.get("cls") == cls and f.get("body") is not None]
    cursors = {}
    for f in methods:
        subs = set()
        incs = set()
        for x in ir.walk(f["body"]):
            if x.get("k") == "OpCall" and x.get("op") == "[]" and len(x.get("args", [])) == 2:
                ip = path(x["args"][1])
                cp = path(x["args"][0])
                if ip and cp and ip[0] == "this" and cp[0] == "this" and len(ip) == 2:
                    subs.add(ip[1])
            if x.get("k") == "Un" and x.get("op") in ("post++", "pre++") and path(x.get("e")) and path(x["e"])[0] == "this" and len(path(x["e"])) == 2:
                incs.add(path(x["e"])[1])
        for m in subs & incs:
            cursors.setdefault(m, f)
    n = 0
    for m, user in sorted(cursors.items()):
        sites = []
        for fld in rec.get("fields", []):
            if fld["n"] == m and fld.get("init") is not None:
                sites.append((rec, fld.get("l", rec.get("line", 0)), const_value(fld["init"]), "in-class initialiser"))
        for f in sorted(methods, key=lambda f_: f_.get("line", 0)):
            # (an initialiser is dead when the constructor's body runs a method of the class that assigns the cursor at its top level)
            overwritten = False
            for c_ in ir.calls_in(f["body"]):
                if (c_.get("callee") or {}).get("cls") == cls:
                    for g_ in facts.fns((c_.get("callee") or {}).get("qn")):
                        if g_.get("body") is not None and any(
                                isinstance(unwrap(t_), dict) and unwrap(t_).get("k") == "Bin" and unwrap(t_).get("op") == "=" and path(unwrap(t_).get("lhs")) == ("this", m)
                                for t_ in ir.stmts(g_["body"])):
                            overwritten = True
            for i_ in f.get("inits", []) or []:
                if i_.get("member") == m and i_.get("init") is not None and i_.get("written", True) and not overwritten:
                    sites.append((f, i_.get("l", f["line"]), const_value(i_["init"]), "constructor initialiser"))
            for x in ir.walk(f["body"]):
                if x.get("k") == "Bin" and x.get("op") == "=" and path(x.get("lhs")) == ("this", m):
                    sites.append((f, x.get("l", 0), const_value(x.get("rhs")), "assignment in %s" % short(f["qn"])))
        for f, line, cv, what in sites:
            if cv is None:
                continue
            n += 1
            run.ob(rule, "%s:%s@%s" % (m, what.split(" in ")[0].replace(" ", "-"), line), cv == 0, f if isinstance(f, dict) and f.get("qn") else rec.get("file"), line,
                   "%s starts at the first record (%s)" % (m, what) if cv == 0 else
                   "%s is set to %s (%s): %s hands out the records from the cursor on, so the first %s record(s) of every block are never returned" % (
                       m, cv, what, short(user["qn"]), cv))
    run.floor(rule, 2, "constant stores into read cursors")
    run.info["read_cursors"] = sorted(cursors)


def check(run):
    from . import C08 as _C08
    _C08.check_tables_append(run, "R01.13")      # an independent writer may repeat a table value; indices must keep resolving
    from .. import derived as _derived
    _derived.report(run, "R01.15", ["CDNS::CdnsBlock", "CDNS::CdnsBlockRead", "CDNS::CdnsExporter", "CDNS::FilePreamble", "CDNS::BlockParameters"])
    from . import C03 as _C03
    # what the exporter re-arms a block with must still be the stored parameters: a pointer member into the preamble's own
    # vector dies when add_block_parameters() lets the vector grow
    _C03.check_member_pointers(run, "R01.14", floor=1)
    facts = run.facts
    # what was buffered can only be read back if it was written: no integer is dropped on the way into the staging buffer
    # (R06.2 imported: every flush threshold - constant, or a head-size function of the value - covers the head write_int needs)
    from . import C06 as _C06
    _C06.check_public_writes(run, rename={"R06.2": "R01.16", "R06.3": None})
    check_fresh_records(run, "R01.10")
    check_filled_flags(run, "R01.17")
    check_read_cursors(run, "R01.19")
    _C03.check_optional_derefs(run, "R01.18")   # a flipped presence test loses the field for every record that has it
    check_block_state_cleared(run, "R01.11")
    # records are written under the parameter set the application selected: write_block() re-arms the (possibly empty) block
    from . import C12
    C12.check_write_clear_rearm(run, "R01.12")
    was = {}
    all_rows = []
    for s in BLOCK_STRUCTS:
        w, r = agreement.find_pair(facts, s)
        if w is None or r is None:
            raise AnalysisBroken("R01.1", "write/read pair of %s not found" % s)
        wa, mr = agreement.check_pair(run, "R01.1", s, w, r, width_rule="R01.1w")
        if wa.rows:
            was[(s, wa.rows[0]["enum"])] = wa
        all_rows.append((s, wa, mr, w, r))
    # Block map and block tables map
    bw = facts.fn("CDNS::CdnsBlock::write", rule="R01.1")
    br = facts.fn("CDNS::CdnsBlockRead::read", rule="R01.1")
    wa, mr = agreement.check_pair(run, "R01.1", "CDNS::CdnsBlock", bw, br, label="Block")
    was[("CDNS::CdnsBlock", "CDNS::BlockMapIndex")] = wa
    all_rows.append(("CDNS::CdnsBlock", wa, mr, bw, br))
    tw = facts.fn("CDNS::CdnsBlock::write_blocktables", rule="R01.1")
    tr = facts.fn("CDNS::CdnsBlockRead::read_blocktables", rule="R01.1")
    wa, mr = agreement.check_pair(run, "R01.1", "CDNS::CdnsBlock", tw, tr, label="BlockTables")
    was[("CDNS::CdnsBlock", "CDNS::BlockTablesMapIndex")] = wa
    all_rows.append(("CDNS::CdnsBlock", wa, mr, tw, tr))
    # Timestamp / StringItem / IndexListItem: array and string items
    ts_w = facts.fn("CDNS::Timestamp::write", rule="R01.1")
    ts_r = facts.fn("CDNS::Timestamp::read", rule="R01.1")
    twa = emission.analyse_writer(ts_w, facts)
    okw = twa.top is not None and twa.top.kind == "ARRAY" and [c.kind for c in twa.top.children] == ["UINT64", "UINT64"]
    members_w = [consumption.member_of(path(c.ev.call["args"][0])) for c in twa.top.children] if okw else []
    members_r = []
    pinfo, prows = consumption.positional_reader(ts_r, facts)
    if pinfo is not None:
        for p_ in range(4):
            for row_ in prows[p_]:
                if row_[0] == "member" and row_[2] == "read_unsigned":
                    members_r.append((p_, row_[1]))
    ok = okw and [m for _, m in sorted(members_r, key=lambda x: (x[0] is None, x[0]))] == members_w == ["m_secs", "m_ticks"]
    run.ob("R01.1", "Timestamp:[secs,ticks]", ok, ts_w, ts_w["line"],
           "timestamp written and read as [m_secs, m_ticks]" if ok else "timestamp array members differ: writer %s reader %s" % (members_w, members_r))
    si_w = facts.fn("CDNS::StringItem::write", rule="R01.1")
    si_r = facts.fn("CDNS::StringItem::read", rule="R01.1")
    swa = emission.analyse_writer(si_w, facts)
    rk = [c.kind for c in consumption.consumes_in(si_r["body"], facts)]
    ok = swa.top is not None and swa.top.kind == "BYTES" and rk == ["BYTES"]
    run.ob("R01.1", "StringItem:bstr", ok, si_w, si_w["line"], "table strings are byte strings on both sides" if ok else
           "StringItem written as %s, read as %s" % (swa.top.kind if swa.top else "?", rk))
    il_w = facts.fn("CDNS::IndexListItem::write", rule="R01.1")
    il_r = facts.fn("CDNS::IndexListItem::read", rule="R01.1")
    iwa = emission.analyse_writer(il_w, facts)
    cons_il = [c for c in consumption.consumes_in(il_r["body"], facts) if not c.kind.startswith("RAW:")]
    rk = [c.kind for c in cons_il]
    if len(rk) == 2 and rk[0] == rk[1]:
        # one loop per length form (`if (indef) { while (peek != BREAK) BODY; read_break(); } else { for (; length > 0; length--) BODY }`):
        # the two bodies are alternatives, not a sequence, when they are the same statements
        from .. import normalize as _nz
        for if_ in ir.walk(il_r["body"]):
            if if_.get("k") == "If" and if_.get("else") is not None:
                l1 = [x for x in ir.walk(if_["then"]) if x.get("k") in ("While", "For", "Do")]
                l2 = [x for x in ir.walk(if_["else"]) if x.get("k") in ("While", "For", "Do")]
                if len(l1) == 1 and len(l2) == 1 and _nz._alpha_equal(ir.stmts(l1[0].get("body")), ir.stmts(l2[0].get("body")), {}):
                    rk = rk[:1]
    if rk == ["ARRAY"] and cons_il[0].detail is not None:
        # the array loop (read_array with a callback, or the same loop written out): what one element consumes
        rk = [c.kind for c in consumption.consumes_in(cons_il[0].detail.get("body"), facts) if not c.kind.startswith("RAW:")]
    ok = iwa.top is not None and iwa.top.kind == "ARRAY" and iwa.top.elem is not None and iwa.top.elem.kind == "UINT32" and rk == ["UINT"]
    if not ok and iwa.top is None:
        ok = None           # the writer hands the list to something the emission grammar does not know: no claim either way
    run.ob("R01.1", "IndexListItem:[uint]", ok, il_w, il_w["line"], "index lists are arrays of unsigned on both sides" if ok else
           "IndexListItem writer %s / reader %s" % (iwa.top.kind if iwa.top else "?", rk))
    run.floor("R01.1", 240, "schema-agreement obligations (keyset/member/kind for ~115 rows)")

    # R01.2 RFC keys
    tables.check_rfc_keys(run, "R01.2", was, only=BLOCK_MAPS)
    run.floor("R01.2", 150, "RFC key/type rows")

    # R01.6 no symmetric key/member swap
    n6 = 0
    for s, wa, mr, w, r in all_rows:
        names = set(norm_name(x["name"]) for x in wa.rows) | set(norm_name(x["name"]) for x in mr.rows)
        for side, rows, fn in (("writer", wa.rows, w), ("reader", mr.rows, r)):
            for row in rows:
                if side == "writer":
                    m, _ = agreement.value_source(row["value"], wa.env)
                else:
                    m = row["member"]
                if m in (None, "-"):
                    continue
                n6 += 1
                mn, kn = norm_name(m), norm_name(row["name"])
                bad = mn != kn and mn in names
                run.ob("R01.6", "%s.%s:%s" % (short(fn["qn"]).split("::")[0] + "::" + short(fn["qn"]).split("::")[-1], row["name"], side), not bad, fn, row["line"],
                       "member %s under its own key" % m if not bad else
                       "%s %s member %s under key %s although the map has a key named %s: two members are swapped on the wire" % (
                           side, "writes" if side == "writer" else "reads", m, row["name"], mn), nontrivial=False)
    run.floor("R01.6", 150, "rows on both sides")

    check_generic_mapping(run, "R01.3")
    check_time_reference(run, "R01.4")
    check_aec(run, "R01.5")
    check_stats_and_order(run)
    # R01.9 the CBOR primitives the round trip rests on (imported from C06/C07 + A11 over both codec units)
    from . import C06, C07
    from .. import ranges
    C07.check_read_int(run, "R01.9")
    C07.check_values(run, "R01.9", flag_contract=False)
    C06.check_write_int(run)
    for o in run.obs:
        if o.rule == "R06.1":
            o.rule = "R01.9"
    run.floors.pop("R06.1", None)
    for f in sorted(facts.functions.values(), key=lambda f: (f["file"], f["line"])):
        if f.get("cls") in ("CDNS::CdnsDecoder", "CDNS::CdnsEncoder") and f.get("file", "").startswith(facts.repo):
            seen = {}
            for node, ok, txt in ranges.check_function(f, facts.enums):
                base = "%s:%s" % (short(f["qn"]), show(node)[:50])
                seen[base] = seen.get(base, 0) + 1
                run.ob("R01.9", base if seen[base] == 1 else "%s#%d" % (base, seen[base]), ok, f, node.get("l", 0), txt)
    run.floors.pop("R01.9", None)
    run.floor("R01.9", 30, "codec primitive obligations")
