#include "src/cdns.h"
#include <sstream>
#include <fstream>
#include <iostream>
int main(){
  using namespace CDNS;
  FilePreamble fp;
  {
    CdnsExporter ex(fp, std::string("/tmp/rp/out.cdns"), CborOutputCompression::NO_COMPRESSION);
    GenericQueryResponse q; q.client_port = 53;
    ex.buffer_qr(q, BlockStatistics());
    ex.write_block();
  }
  std::ifstream in("/tmp/rp/out.cdns", std::ios::binary);
  try { CdnsReader r(in); bool eof; auto b = r.read_block(eof); std::cout << "read ok qr=" << b.get_qr_count() << " stats=" << !!b.m_block_statistics << "\n"; }
  catch (std::exception& e) { std::cout << "READ FAILED: " << e.what() << "\n"; return 1; }
}
