#!/bin/sh
# Runs every quick check against scratch copies of /repo with one behaviour-preserving patch applied each
# (patches: <dir>/*/neutral/refactor*.diff or the files given).  Copies live under $TMPDIR and are removed.
# usage: tool/neutral_all.sh <patch>...        prints one line per patch: alarms=<n> and the alarm lines
set -u
T=$(mktemp -d "${TMPDIR:-/tmp}/neutral.XXXXXX")
trap 'rm -rf "$T"' EXIT
cd /verif
i=0
for p in "$@"; do
  p=$(realpath "$p")
  i=$((i+1))
  d="$T/r$i"
  mkdir -p "$d"
  (cd /repo && tar cf - --exclude=_build --exclude=.git .) | (cd "$d" && tar xf -)
  if ! (cd "$d" && patch -s -p1 < "$p" >/dev/null 2>&1); then echo "== $p: DOES NOT APPLY"; rm -rf "$d"; continue; fi
  echo "$p" > "$d/.patchname"
done
# patches under neutral/<prop>x/ are neutral for <prop> only (they break some other property on purpose): run that check alone
ls -d "$T"/r* 2>/dev/null | xargs -P 12 -I{} sh -c 'w=all; case "$(cat {}/.patchname)" in */neutral/C[0-9][0-9]x/*) w=$(basename $(dirname $(cat {}/.patchname)) | cut -c1-3);; esac; VERIF_SEEDRUN=1 VERIF_NO_CACHE=1 ./check $w --repo {} > {}/.out 2>&1; echo $? > {}/.rc'
for d in "$T"/r*; do
  [ -f "$d/.patchname" ] || continue
  n=$(grep -cE "^VIOLATION|^ANALYSIS-BROKEN|Traceback" "$d/.out")
  echo "== $(cat $d/.patchname): exit $(cat $d/.rc) alarms=$n"
  grep -E "^ANALYSIS-BROKEN|Traceback" "$d/.out" | cut -c1-300 | head -6
  grep -A1 "^VIOLATION" "$d/.out" | grep -v "^VIOLATION\|^--" | cut -c1-330 | head -8
done
