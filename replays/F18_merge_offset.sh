#!/bin/sh
# F18 (C03 R03.5): cdns-merge re-exports a crafted input whose record time is 2^63 ticks after the epoch while the
# block's earliest time is 2^62: Timestamp::get_time_offset subtracts the two totals as int64_t -> signed overflow.
# usage: F18_merge_offset.sh <tree with a -fsanitize=undefined build in _ubsan>   exit 0 = no runtime error reported
set -e
W="${1:-/repo}"; B="$W/_ubsan"
d=$(mktemp -d)
g++ -std=gnu++14 -I"$W" -msse4 "$(dirname "$0")/F18_offset_gen.cpp" -L"$W/_build" -lcdns -Wl,-rpath,"$W/_build" -o $d/gen
$d/gen $d/in
python3 - $d/in <<'PY'
import sys
p=sys.argv[1]; b=open(p,'rb').read()
old=bytes([0x1b,0x3f]+[0xff]*7); new=bytes([0x1b,0x40]+[0]*7)
assert b.count(old)==1, b.count(old)
open(p,'wb').write(b.replace(old,new))
PY
UBSAN_OPTIONS=halt_on_error=0:print_stacktrace=0 "$B/cdns-merge" -o $d/out $d/in 2>$d/err || true
cat $d/err | head -5
n=$(grep -c "runtime error" $d/err || true); rm -rf $d
echo "UBSan reports: $n (expected 0)"; [ "$n" = 0 ]
