"""C03 Reading untrusted bytes is memory-safe, bounded and fails only by exception (clauses with a structural form)."""
from .. import ir, decoder, callgraph, ranges, consumption
from ..ir import (path, path_str, unwrap, unwrap_all_casts, callee_name, callee_qn, const_value, show, show_f, Env,
                  conjuncts, int_key, size_call_path)
from ..facts import AnalysisBroken
from . import C05

META = {
    "level": "other",
    "rule_text": "Per clause of the statement: R03.1 decoder window typestate + non-empty refill; R03.2 every sequence-container "
                 "subscript on the read side is dominated by a comparison of that index with that container's size (constant "
                 "index: by a non-emptiness exit); R03.3 no wire-controlled length reaches reserve/resize/new[]/VLA without a "
                 "dominating bound; R03.4 no recursion whose depth is controlled by the input, no VLA with an unbounded bound; "
                 "R03.5 interval check of every signed arithmetic/shift/division reachable from the read entry points; R03.6 "
                 "inet_ntop sources have a checked length; R03.7 every throw is std::exception-derived, no handler on the read "
                 "path, every tool main wraps its read-API calls in a try with a std::exception/... handler that returns.",
    "explanation": "Clause-by-clause static rules over the functions reachable from the read entry points (resolved call graph). "
                   "Full memory safety of C++ is not decided: use-after-free in general, uninitialised reads and libstdc++/boost "
                   "internals are outside reach (C19 covers the one ownership hazard the code has).",
    "trusted_base": ["clang 14 AST", "libstdc++ containers throw or are well-defined for in-range indices"],
    "assumptions": ["command-line argument vectors are not attacker-controlled byte input"],
}

DEC = "CDNS::CdnsDecoder"
SEQ = ("std::basic_string<", "std::vector<", "std::deque<", "std::array<")


def short(q):
    return q.replace("CDNS::", "")


def read_side(facts):
    cg = callgraph.CallGraph(facts)
    entries = []
    for f in facts.functions.values():
        q = f["qn"]
        if f.get("cls") == DEC or q in ("CDNS::CdnsReader::CdnsReader", "CDNS::CdnsReader::read_block") or \
                f.get("cls") == "CDNS::CdnsBlockRead" or (q.endswith("::string") and f.get("file", "").startswith(facts.repo)):
            entries.append(f)
    if len(entries) < 40:
        raise AnalysisBroken("R03", "only %d read-side entry points found" % len(entries))
    mains = [f for f in facts.functions.values() if f["qn"] == "main" and "/src/bin/" in f.get("file", "")]
    if len(mains) < 5:
        raise AnalysisBroken("R03", "only %d tool mains found" % len(mains))
    # the tools are entry points too: cdns-merge hands what it read to the *write* side (exporter, block, encoder,
    # Timestamp::get_time_offset), so that code also runs on values taken from untrusted bytes
    reach = {k: f for k, f in cg.reachable(entries + mains).items()
             if f.get("file", "").startswith(facts.repo + "/src/") and f["qn"] != "main"}
    return reach, mains, cg


def fname(f):
    if f["qn"] == "main":
        return "main@" + f["file"].split("/")[-1]
    return short(f["qn"])


# ------------------------------------------------------------------ R03.2 subscripts

def check_subscripts(run, rule, fns):
    n = 0
    for f in fns:
        env = Env(f["body"])
        seen = {}
        for st, g, loops in ir.guarded_statements_lc(f["body"], env):
            nodes = list(ir.walk(st["cond"])) if st.get("k") == "IfCond" else \
                ([] if st.get("k") in ("LoopHead", "SwitchHead") else list(ir.walk(st)))
            for nd in nodes:
                cont = idx = None
                if nd.get("k") == "OpCall" and nd.get("op") == "[]" and len(nd.get("args", [])) == 2:
                    cls = (nd.get("callee") or {}).get("cls") or ""
                    if cls.startswith(SEQ):
                        cont, idx = nd["args"][0], nd["args"][1]
                elif nd.get("k") == "Index":
                    bp = path(nd.get("base"))
                    if bp == ("this", "m_p"):
                        continue          # decoder window: R03.1
                    if bp and bp[0].startswith("p:argv"):
                        continue          # command line
                    bt = (unwrap(nd.get("base")) or {}).get("t", "")
                    cont, idx = nd.get("base"), nd.get("idx")
                    if "[" in bt and const_value(idx) is not None:
                        # fixed-size array with constant index: compare with the extent
                        try:
                            ext = int(bt[bt.index("[") + 1:bt.index("]")])
                        except ValueError:
                            ext = None
                        if ext is not None:
                            n += 1
                            run.ob(rule, "%s:%s[%s]" % (fname(f), show(cont), const_value(idx)), const_value(idx) < ext, f, nd.get("l", 0),
                                   "constant index inside the array extent %d" % ext)
                            continue
                if cont is None:
                    continue
                n += 1
                cp = path(cont)
                # a by-value local copy has the size of its source (`std::string dname = wire_dname`)
                cpr = env.resolve_ref_path(cp) if cp else None
                ck = path_str(cpr) if cpr else show(cont)
                names = {ck}
                if cp:
                    names.add(path_str(cp))
                cidx = const_value(idx)
                base = "%s:%s[%s]" % (fname(f), path_str(cp) if cp else show(cont), cidx if cidx is not None else show(idx))
                seen[base] = seen.get(base, 0) + 1
                key = base if seen[base] == 1 else "%s#%d" % (base, seen[base])
                atoms = conjuncts(g)
                if cidx is not None:
                    ok = any((a[0] == "nonempty" and path_str(a[1]) in names) or
                             (a[0] == "cmp" and a[1] in ("<", "<=") and a[3] in ("size(%s)" % x for x in names) and a[2].lstrip("-").isdigit() and
                              int(a[2]) + (1 if a[1] == "<" else 0) > cidx) for a in atoms)
                    run.ob(rule, key, ok, f, nd.get("l", 0),
                           "constant index %d behind a non-emptiness/size test of %s" % (cidx, ck) if ok else
                           "element %d of %s is accessed without a dominating test that the container has that many elements (guard: %s)" % (cidx, ck, show_f(g)))
                else:
                    ik = int_key(idx, env)
                    ok = any(a[0] == "cmp" and a[1] == "<" and a[2] == ik and a[3] in ("size(%s)" % x for x in names) for a in atoms)
                    run.ob(rule, key, ok, f, nd.get("l", 0),
                           "index %s is compared with %s.size() on every path to the access" % (ik, ck) if ok else
                           "index %s into %s is not dominated by a comparison with %s.size(): out-of-bounds read/write for crafted input (guard: %s)" % (
                               ik, ck, ck, show_f(g)))
    run.floor(rule, 12, "sequence subscripts on the read side")
    run.info["subscripts"] = n


# ------------------------------------------------------------------ R03.3 taint to allocation

SOURCES = ("read_int", "read_unsigned", "read_array_start", "read_map_start", "read_integer")
SINKS = ("reserve", "resize")


def contains_source(e):
    for n in ir.walk(e):
        if n.get("k") == "MCall" and (n.get("callee") or {}).get("cls") == DEC and callee_name(n) in SOURCES:
            return True
    return False


def tainted_params(facts, fns):
    """(fn key, param name) pairs that receive a wire-controlled value at some call site (one level)."""
    out = set()
    bysig = {}
    for f in facts.functions.values():
        bysig[(f["qn"], tuple(f["sig"]))] = f
    for f in fns:
        env = Env(f["body"])
        tl = tainted_locals(f, env, set())
        for c in ir.calls_in(f["body"]):
            cal = c.get("callee") or {}
            g = bysig.get((cal.get("qn"), tuple(cal.get("sig", []))))
            if g is None or not g.get("file", "").startswith(facts.repo):
                continue
            for prm, a in zip(g["params"], c.get("args", [])):
                if contains_source(a) or any(path(x) and len(path(x)) == 1 and path(x)[0] in tl for x in ir.walk(a) if x.get("k") == "Ref"):
                    out.add((g["key"], prm["n"]))
    return out


def tainted_locals(f, env, tparams):
    tl = set("p:%s" % p for (k, p) in tparams if k == f["key"])
    changed = True
    while changed:
        changed = False
        for n in ir.walk(f["body"]):
            tgt = src = None
            if n.get("k") == "Decl":
                for v in n.get("vars", []):
                    if "n" in v and v.get("init") is not None:
                        key = "l:%s#%s" % (v["n"], v["id"])
                        if key not in tl and (contains_source(v["init"]) or refs_any(v["init"], tl)):
                            tl.add(key)
                            changed = True
            elif n.get("k") == "Bin" and n.get("op") in ("=", "+=", "-=", "*="):
                p = path(n["lhs"])
                if p and len(p) == 1 and p[0] not in tl and (contains_source(n["rhs"]) or refs_any(n["rhs"], tl)):
                    tl.add(p[0])
                    changed = True
    return tl


def refs_any(e, keys):
    for x in ir.walk(e):
        if x.get("k") == "Ref":
            p = path(x)
            if p and len(p) == 1 and p[0] in keys:
                return True
    return False


def check_taint(run, rule, fns):
    facts = run.facts
    tp = tainted_params(facts, fns)
    n = 0
    for f in fns:
        env = Env(f["body"])
        tl = tainted_locals(f, env, tp)
        for st, g, loops in ir.guarded_statements_lc(f["body"], env):
            if st.get("k") in ("IfCond", "LoopHead", "SwitchHead"):
                continue
            for c in ir.walk(st):
                sink_arg = None
                what = None
                if c.get("k") == "MCall" and callee_name(c) in SINKS and c.get("args"):
                    cls = (c.get("callee") or {}).get("cls") or ""
                    if cls.startswith("std::"):
                        sink_arg, what = c["args"][0], "%s.%s" % (show(c.get("recv")), callee_name(c))
                elif c.get("k") == "New" and c.get("size") is not None:
                    sink_arg, what = c["size"], "new[]"
                if sink_arg is None:
                    continue
                n += 1
                key = "%s:%s(%s)" % (fname(f), what, show(sink_arg))
                is_t = contains_source(sink_arg) or refs_any(sink_arg, tl)
                if not is_t:
                    run.ob(rule, key, True, f, c.get("l", 0), "size does not come from the wire", nontrivial=False)
                    continue
                # sanitiser: min(x, bound) or a dominating upper bound on every tainted variable in the expression
                # every tainted leaf of the size expression sits inside a min(x, <untainted bound>) call
                def tainted_leaves_outside_min(e, inside):
                    bad = []
                    if not isinstance(e, dict):
                        return bad
                    if e.get("k") == "Call" and callee_name(e) == "min":
                        args = e.get("args", [])
                        if any(not (contains_source(a) or refs_any(a, tl)) for a in args):
                            inside = True
                    if e.get("k") == "Ref":
                        pp = path(e)
                        if pp and len(pp) == 1 and pp[0] in tl and not inside:
                            bad.append(pp[0])
                    if e.get("k") == "MCall" and (e.get("callee") or {}).get("cls") == DEC and callee_name(e) in SOURCES and not inside:
                        bad.append(show(e))
                    for ch in ir.children(e):
                        bad += tainted_leaves_outside_min(ch, inside)
                    return bad
                sane = not tainted_leaves_outside_min(sink_arg, False)
                if not sane:
                    tv = [path_str(path(x)) for x in ir.walk(sink_arg) if x.get("k") == "Ref" and path(x) and len(path(x)) == 1 and path(x)[0] in tl]
                    atoms = conjuncts(g)
                    sane = bool(tv) and all(any(a[0] == "cmp" and a[1] in ("<", "<=") and a[2] == v and (a[3].isdigit() or "BUFFER_SIZE" in a[3] or a[3].startswith("size("))
                                                for a in atoms) for v in tv)
                run.ob(rule, key, sane, f, c.get("l", 0),
                       "wire-controlled length is bounded before the allocation" if sane else
                       "%s is sized by a length field read from the input (up to 2^64-1) without a dominating bound: a few input bytes request an enormous allocation" % what)
    run.floor(rule, 3, "allocation sinks on the read side")
    run.info["allocation_sinks"] = n


# ------------------------------------------------------------------ R03.4 recursion / VLA

def check_recursion(run, rule, reach, cg, mains):
    facts = run.facts
    sccs = cg.sccs(reach)
    n = 0
    for comp in sccs:
        fs = [reach[k] for k in comp]
        selfrec = len(comp) == 1 and comp[0] in cg.callees(fs[0])
        if len(comp) == 1 and not selfrec:
            continue
        n += 1
        # accepted only with a depth counter compared against a constant on the recursive path
        ok = False
        for f in fs:
            env = Env(f["body"])
            for st, g, loops in ir.guarded_statements(f["body"], env):
                if st.get("k") in ("IfCond", "LoopHead", "SwitchHead"):
                    continue
                for c in ir.calls_in(st):
                    tgt = cg.resolve(c)
                    if any(t["key"] in comp for t in tgt):
                        # some parameter passed as p+1 and p compared with a constant in the guard
                        for a in c.get("args", []):
                            ua = unwrap(a)
                            if isinstance(ua, dict) and ua.get("k") == "Bin" and ua.get("op") == "+" and const_value(ua["rhs"]) == 1:
                                pk = int_key(ua["lhs"], env)
                                if any(x[0] == "cmp" and x[1] in ("<", "<=") and x[2] == pk and x[3].isdigit() for x in conjuncts(g)):
                                    ok = True
        names = sorted(fname(f) for f in fs)
        run.ob(rule, "recursion:%s" % "+".join(names), ok, fs[0], fs[0]["line"],
               "recursion depth is bounded by a counter compared with a constant" if ok else
               "%s recurse%s with depth equal to the nesting depth of the input and no bound: a few megabytes of nested array heads overflow the stack" % (
                   ", ".join(names), "s" if len(names) == 1 else ""))
    if n == 0:
        run.ob(rule, "recursion:none", True, None, 0, "no recursive cycle on the read side", nontrivial=False)
    # VLAs / alloca on the read side
    for f in list(reach.values()) + mains:
        env = Env(f["body"])
        for d in ir.walk(f["body"]):
            if d.get("k") == "Decl":
                for v in d.get("vars", []):
                    if "vla" in v:
                        bound = v["vla"]
                        bp = path(bound) if bound else None
                        consts = []
                        finite = False

                        def value_set(e_, depth=0):
                            """finite set of constants an expression can take (constants, ?: of such, + - * of such)"""
                            u_ = ir.unwrap_all_casts(e_)
                            if not isinstance(u_, dict) or depth > 8:
                                return None
                            cv_ = const_value(e_)
                            if cv_ is None:
                                cv_ = const_value(u_)
                            if cv_ is not None and not isinstance(cv_, str):
                                return {int(cv_)}
                            if u_.get("k") == "Cond":
                                a_, b_ = value_set(u_.get("a"), depth + 1), value_set(u_.get("b"), depth + 1)
                                return (a_ | b_) if a_ is not None and b_ is not None else None
                            if u_.get("k") == "Bin" and u_.get("op") in ("+", "-", "*"):
                                a_, b_ = value_set(u_.get("lhs"), depth + 1), value_set(u_.get("rhs"), depth + 1)
                                if a_ is None or b_ is None or len(a_) * len(b_) > 64:
                                    return None
                                f_ = {"+": lambda x, y: x + y, "-": lambda x, y: x - y, "*": lambda x, y: x * y}[u_["op"]]
                                return set(f_(x, y) for x in a_ for y in b_)
                            return None
                        vs = value_set(bound) if bound is not None else None
                        if vs is not None:
                            finite = all(0 <= x <= 65536 for x in vs)
                            consts = sorted(vs)
                        elif bp and len(bp) == 1:
                            vals = []
                            for x in ir.walk(f["body"]):
                                if x.get("k") == "Bin" and x.get("op") == "=" and path(x["lhs"]) == bp:
                                    vals.append(const_value(x["rhs"]))
                                if x.get("k") == "Decl":
                                    for w in x.get("vars", []):
                                        if "n" in w and ("l:%s#%s" % (w["n"], w["id"]),) == bp and w.get("init") is not None:
                                            vals.append(const_value(w["init"]))
                            finite = bool(vals) and all(c is not None for c in vals) and bp[0] not in env.byref_only
                            consts = vals
                        run.ob(rule, "%s:vla(%s)" % (fname(f), v["n"]), finite, f, v.get("l", 0),
                               "variable-length array bound takes only the constants %s" % sorted(set(consts)) if finite else
                               "variable-length array %s[%s] on the stack with a bound that is not a finite set of constants" % (v["n"], show(bound)))
        for c in ir.calls_in(f["body"]):
            if callee_name(c) in ("alloca", "__builtin_alloca"):
                run.ob(rule, "%s:alloca" % fname(f), False, f, c.get("l", 0), "alloca on the read side")
    run.floor(rule, 2, "recursion + VLA obligations")


# ------------------------------------------------------------------ R03.6 inet_ntop

def check_inet_ntop(run, rule, fns):
    n = 0
    for f in fns:
        env = Env(f["body"])
        for st, g, loops in ir.guarded_statements(f["body"], env):
            if st.get("k") in ("IfCond", "LoopHead", "SwitchHead"):
                continue
            for c in ir.calls_in(st):
                if callee_name(c) != "inet_ntop":
                    continue
                n += 1
                src = unwrap_all_casts(c["args"][1])
                sp = path(src.get("recv")) if isinstance(src, dict) and src.get("k") == "MCall" and callee_name(src) in ("data", "c_str") else None
                if sp is None:
                    run.ob(rule, "%s:inet_ntop" % fname(f), None, f, c.get("l", 0), "source buffer %s is not <string>.data()" % show(c["args"][1]))
                    continue
                sk = "size(%s)" % path_str(env.resolve_ref_path(sp))
                ok = any(a[0] == "cmp" and sk in (a[2], a[3]) for a in conjuncts(g))
                run.ob(rule, "%s:inet_ntop(%s)" % (fname(f), path_str(sp)), ok, f, c.get("l", 0),
                       "the address length is tested before inet_ntop reads 4/16 bytes from it" if ok else
                       "inet_ntop reads 4 (AF_INET) or 16 (AF_INET6) bytes from %s.data() but the string's length is never compared with the family's size on this path: "
                       "a shorter address taken from the file is over-read" % path_str(sp))
    run.floor(rule, 1, "inet_ntop call sites")


# ------------------------------------------------------------------ R03.7 fails only by exception

READ_API = ("CDNS::CdnsReader::CdnsReader", "CDNS::CdnsReader::read_block", "CDNS::CdnsBlockRead::read_generic_qr",
            "CDNS::CdnsBlockRead::read_generic_aec", "CDNS::CdnsBlockRead::read_generic_mm", "CDNS::CdnsBlockRead::read")


def check_exceptions(run, rule, reach, mains):
    facts = run.facts
    nthrow = 0
    bad = []
    for f in facts.functions.values():
        if not f.get("file", "").startswith(facts.repo + "/src/"):
            continue
        for n in ir.walk(f["body"]):
            if n.get("k") == "Throw" and not n.get("rethrow"):
                nthrow += 1
                if not n.get("stdexc"):
                    bad.append((f, n))
    for f, n in bad:
        run.ob(rule, "%s:throw(%s)" % (fname(f), n.get("tt")), False, f, n.get("l", 0),
               "throws %s, which is not derived from std::exception: callers catching std::exception& terminate" % n.get("tt"))
    run.ob(rule, "throws-derive-from-std-exception", not bad, None, 0, "all %d throw sites throw std::exception-derived types" % nthrow, nontrivial=False)
    run.info["throw_sites"] = nthrow
    # tool mains
    for m in mains:
        sites = []
        for n, parents in ir.walk_with_parents(m["body"]):
            if n.get("k") in ("Call", "MCall", "Construct") and (callee_qn(n) in READ_API or (callee_qn(n) or "").endswith("::string") and ((n.get("callee") or {}).get("inrepo"))):
                tries = [p for p in parents if p.get("k") == "Try"]
                ok = False
                for t in tries:
                    # the call must be in the try *body*, and a handler for std::exception& or ... must end normally
                    if any(x is n for x in ir.walk(t.get("body"))):
                        for h in t.get("handlers", []):
                            ht = h.get("t", "")
                            if ht in ("...", "std::exception &", "const std::exception &"):
                                leaves = any(x.get("k") == "Throw" for x in ir.walk(h.get("body"))) or \
                                    any(callee_name(c) in ("abort", "terminate", "_exit") for c in ir.calls_in(h.get("body")))
                                if not leaves:
                                    ok = True
                sites.append((n, ok))
        for n, ok in sites:
            if not ok:
                run.ob(rule, "%s:%s-outside-try" % (fname(m), callee_name(n)), False, m, n.get("l", 0),
                       "%s is called outside a try block with a std::exception/... handler that returns normally: malformed input terminates the tool by an uncaught exception" % callee_name(n))
        run.ob(rule, "%s:read-calls-in-try" % fname(m), all(ok for n, ok in sites) and bool(sites), m, m["line"],
               "all %d calls into the read API are inside try { } catch (std::exception&) that ends in a normal return" % len(sites) if sites else "no read-API call found in this tool")
    run.floor(rule, 6, "throw discipline + 5 tools")


def check(run):
    facts = run.facts
    reach, mains, cg = read_side(facts)
    fns = sorted(list(reach.values()) + mains, key=lambda f: (f["file"], f["line"]))
    run.info["read_side_functions"] = len(fns)
    C05.check_refill(run, "R03.1")
    C05.check_typestate(run, "R03.1")
    run.floors.pop("R03.1", None)
    run.floor("R03.1", 10, "decoder window obligations")
    check_subscripts(run, "R03.2", fns)
    check_taint(run, "R03.3", fns)
    check_recursion(run, "R03.4", reach, cg, mains)
    # R03.5
    n5 = 0
    for f in fns:
        seen = {}
        repo_globals = set(v["qn"] for v in facts.vars)
        for node, ok, txt in ranges.check_function(f, facts.enums):
            foreign = [x for x in ir.walk(node) if x.get("k") == "Ref" and x.get("d") == "global" and x.get("qn") not in repo_globals]
            if foreign:
                continue      # getopt's optind etc.: command-line state, not input bytes (stated assumption)
            n5 += 1
            base = "%s:%s" % (fname(f), show(node)[:50])
            seen[base] = seen.get(base, 0) + 1
            run.ob("R03.5", base if seen[base] == 1 else "%s#%d" % (base, seen[base]), ok, f, node.get("l", 0), txt)
    run.floor("R03.5", 8, "signed arithmetic / shifts / divisions on the read side")
    check_inet_ntop(run, "R03.6", fns)
    check_exceptions(run, "R03.7", reach, mains)
