// Verif-owned translation unit: positive controls for rules whose expected number of matches on a correct tree is zero.
// Each function contains exactly the construct the named rule has to report; the rule runs its detector on the control on
// every run and stops with exit 2 (analysis broken) if the detector stays silent.  Not part of the analysed program.
#include "src/cdns.h"
#include <sys/uio.h>
#include <stdexcept>
namespace verif_rc {

// R09.6: a reader that rejects depending on the decoded value
void r09_6_rejecting_reader(CDNS::CdnsDecoder& dec, std::string& out)
{
    std::string s = dec.read_textstring();
    for (unsigned char c : s) {
        if (c > 0x7F)
            throw CDNS::CdnsDecoderException("not ASCII");
    }
    out = s;
}

// R09.6 (negative control): a type check is not a value-dependent rejection
void r09_6_type_check_only(CDNS::CdnsDecoder& dec, std::string& out)
{
    if (dec.peek_type() != CDNS::CborType::TEXT_STRING)
        throw CDNS::CdnsDecoderException("wrong type");
    out = dec.read_textstring();
}

// R05.3 no-input-after-block: a look-ahead between the decoded block and its return
CDNS::CdnsBlockRead r05_3_late_lookahead(CDNS::CdnsDecoder& dec, std::vector<CDNS::BlockParameters>& bp)
{
    CDNS::CdnsBlockRead block;
    block.read(dec, bp);
    if (dec.peek_type() == CDNS::CborType::BREAK)
        dec.read_break();
    return block;
}

// R14.4 no-partial-reset: a compressor reused for the next output without forgetting the previous one
int r14_4_partial_reset(z_stream& strm)
{
    return deflateResetKeep(&strm);
}

// R06.9 lossy-state: an argument remembered in object state through a conversion that drops its upper bits
struct r06_9_state {
    uint32_t last = 0;
    uint64_t wide = 0;
    void remember(uint64_t v) { last = v; }
    void remember_wide(uint64_t v) { wide = v; }
};

// derived members (cdnsverif/derived.py): m_twice is always m_src * 2; stale() changes m_src after computing it
struct derived_cache {
    int m_src;
    int m_twice;
    explicit derived_cache(int s) : m_src(s), m_twice(s * 2) {}
    void set(int s) { m_src = s; m_twice = m_src * 2; }
    void stale(int s) { m_twice = m_src * 2; m_src = s; }
    int twice() const { return m_twice; }
};

// R05.5 window-derived state: a memo keyed by a position in the buffer window that survives the refill of that window
struct r05_5_decoder {
    unsigned char m_buffer[8];
    unsigned char* m_p;
    unsigned char* m_end;
    const unsigned char* m_peek_pos;
    int m_peek_type;
    void read_to_buffer() { if (m_p == m_end) { m_p = m_buffer; m_end = m_buffer + 8; } }
    int peek_type() { read_to_buffer(); if (m_p != m_peek_pos) { m_peek_pos = m_p; m_peek_type = m_p[0]; } return m_peek_type; }
};

// R18.7 member-wise equality: a comparison used to identify two values that leaves one member out (b is compared twice)
struct r18_6_params { int a; int b; int c; };
template<typename S, typename T> static bool r18_6_same(const S& x, const S& y, T S::*m) { return x.*m == y.*m; }
bool r18_6_same_params(const r18_6_params& x, const r18_6_params& y)
{
    return r18_6_same(x, y, &r18_6_params::a) && r18_6_same(x, y, &r18_6_params::b) && r18_6_same(x, y, &r18_6_params::b);
}
// ... (negative control) and one that compares all of them
bool r18_6_same_params_all(const r18_6_params& x, const r18_6_params& y)
{
    return x.a == y.a && x.b == y.b && x.c == y.c;
}

// R16.8 short counts of a gathering write: the count that ends exactly at the boundary between the two buffers is not handled
struct r16_8_writer {
    int m_fd;
    void write(const char* p, std::size_t size);
    void gather_boundary_lost(const char* head, std::size_t head_size, const char* body, std::size_t body_size) {
        struct iovec iov[2];
        iov[0].iov_base = const_cast<char*>(head); iov[0].iov_len = head_size;
        iov[1].iov_base = const_cast<char*>(body); iov[1].iov_len = body_size;
        ssize_t ret = ::writev(m_fd, iov, 2);
        if (ret < 0 || static_cast<std::size_t>(ret) < head_size)
            throw std::runtime_error("short write");
        std::size_t sent = static_cast<std::size_t>(ret);
        if (sent > head_size && sent < head_size + body_size)
            write(body + (sent - head_size), head_size + body_size - sent);
    }
    // ... (negative control) and with every count handled
    void gather_complete(const char* head, std::size_t head_size, const char* body, std::size_t body_size) {
        struct iovec iov[2];
        iov[0].iov_base = const_cast<char*>(head); iov[0].iov_len = head_size;
        iov[1].iov_base = const_cast<char*>(body); iov[1].iov_len = body_size;
        ssize_t ret = ::writev(m_fd, iov, 2);
        if (ret < 0 || static_cast<std::size_t>(ret) < head_size)
            throw std::runtime_error("short write");
        std::size_t sent = static_cast<std::size_t>(ret);
        if (sent < head_size + body_size)
            write(body + (sent - head_size), head_size + body_size - sent);
    }
};

}
