#include "src/cdns.h"
#include <iostream>
int main(){
  using namespace CDNS;
  CdnsBlock b;
  MalformedMessageData a, c;
  a.mm_payload = std::string("this payload is long enough to live on the heap, not in the SSO buffer");
  c.mm_payload = std::string("this payload is long enough to live on the heap, not in the SSO buffer");
  auto i1 = b.add_malformed_message_data(a);
  auto i2 = b.add_malformed_message_data(c);
  std::cout << "equal values -> indices " << i1 << " and " << i2 << "\n";
  return i1 == i2 ? 0 : 1;
}
