"""Validated caches of composed strings.

A class may keep a composed string (`m_value + m_extension + ".part"`) in members instead of composing it at every use, and
bring the members up to date right before each use:

    if (!<the members still correspond to the sources>) {       // or: if (<they do>) return;
        std::string a = <E1 over the sources>;                   // composed aside ...
        std::string b = a + ".part";
        m_1.swap(a); m_2.swap(b);                                // ... and committed together by operations that do not throw
        [m_valid = true;]
    }

`validated(facts, cls, sources)` recognises that protocol and returns {member: list of parts it is equal to right after such a
refresh}, the refresh regions, and nothing when the class has no such members.  What has to be shown for `m_i == E_i` after
the refresh:

  (1) every store to a cached member anywhere is a commit of the form above (so the members always hold a *matching tuple*
      E_1[v], E_2[v].. for one earlier value v of the sources, or are all still in their initial empty state);
  (2) all commits store the same E_i;
  (3) the test that skips the commit implies that the tuple was composed from the present sources: `key == E_key` for a
      member all other E_i are extensions of, by one of the spellings
        m == a + b                                   (operator==)
        m.size() == a.size() + b.size() && m.compare(0, a.size(), a) == 0 && m.compare(a.size(), npos, b) == 0
      or an equality `k == s` for every source s with a committed copy k;
  (4) the test excludes the initial state: a bool member that is false initially and only set in commits, or a length
      relation `m_j.size() == m_key.size() + K` (K > 0) between two cached members that the empty state does not satisfy.

A use is *fresh* when it follows a refresh in the same function with nothing in between that stores to a source.
Anything else - a different validation spelling, a store outside a commit - gives `undecided` with the reason."""
from . import ir
from .ir import path, unwrap, unwrap_all_casts, callee_name, walk, const_value, show


class Undecided(Exception):
    pass


class Refuted(Undecided):
    """the skip test is provably too weak: there are source values for which it accepts names composed from other values"""


def parts_of(e, local_defs=None, depth=0):
    """string concatenation -> list of parts: member paths as tuples, literals as str"""
    e = unwrap_all_casts(e)
    if not isinstance(e, dict) or depth > 8:
        return ["?"]
    if e.get("k") == "MCall" and callee_name(e) in ("c_str", "data") and not e.get("args"):
        return parts_of(e.get("recv"), local_defs, depth)
    if e.get("k") == "OpCall" and e.get("op") == "+" and len(e.get("args", [])) == 2:
        return parts_of(e["args"][0], local_defs, depth) + parts_of(e["args"][1], local_defs, depth)
    if e.get("k") == "Construct" and len(e.get("args", [])) >= 1:
        return parts_of(e["args"][0], local_defs, depth)
    if e.get("k") == "Call" and callee_name(e) == "move" and len(e.get("args", [])) == 1:
        return parts_of(e["args"][0], local_defs, depth)
    if e.get("k") == "Str":
        return [e.get("v")]
    if e.get("k") == "Ref" and e.get("d") == "local" and local_defs is not None and e.get("id") in local_defs:
        return parts_of(local_defs[e["id"]], local_defs, depth + 1)
    p = path(e)
    if p is not None:
        return [p]
    return ["?" + show(e)]


def _lin(e, local_defs, depth=0):
    """integer expression -> {term: coefficient}; terms: ('size', part) | 1"""
    e = unwrap_all_casts(e)
    if not isinstance(e, dict) or depth > 8:
        return None
    cv = const_value(e)
    if cv is not None and not isinstance(cv, str):
        return {1: int(cv)}
    if isinstance(cv, str) and cv.isdigit():
        return {1: int(cv)}
    k = e.get("k")
    if k == "MCall" and callee_name(e) in ("size", "length") and not e.get("args"):
        ps = parts_of(e.get("recv"), local_defs)
        out = {}
        for p_ in ps:
            if isinstance(p_, str) and not p_.startswith("?"):
                out[1] = out.get(1, 0) + len(p_)
            elif isinstance(p_, tuple):
                out[("size", p_)] = out.get(("size", p_), 0) + 1
            else:
                return None
        return out
    if k == "Bin" and e.get("op") in ("+", "-"):
        a, b = _lin(e.get("lhs"), local_defs, depth + 1), _lin(e.get("rhs"), local_defs, depth + 1)
        if a is None or b is None:
            return None
        out = dict(a)
        for t, c in b.items():
            out[t] = out.get(t, 0) + (c if e["op"] == "+" else -c)
        return {t: c for t, c in out.items() if c}
    if k == "Ref" and e.get("d") == "local" and local_defs is not None and e.get("id") in local_defs:
        return _lin(local_defs[e["id"]], local_defs, depth + 1)
    return None


def _sizes(parts):
    out = {}
    for p_ in parts:
        if isinstance(p_, str):
            out[1] = out.get(1, 0) + len(p_)
        else:
            out[("size", p_)] = out.get(("size", p_), 0) + 1
    return {t: c for t, c in out.items() if c}


def _conj(e):
    u = unwrap_all_casts(e)
    if isinstance(u, dict) and u.get("k") == "Bin" and u.get("op") == "&&":
        return _conj(u["lhs"]) + _conj(u["rhs"])
    return [u]


def _eq(e):
    """(lhs, rhs) of an equality test, built-in or operator=="""
    if not isinstance(e, dict):
        return None
    if e.get("k") == "Bin" and e.get("op") == "==":
        return e.get("lhs"), e.get("rhs")
    if e.get("k") in ("OpCall", "Call") and (e.get("op") == "==" or callee_name(e) == "operator==") and len(e.get("args", [])) == 2:
        return e["args"][0], e["args"][1]
    return None


class Commit:
    def __init__(self, fn, ifnode, block, values, flags, valid, local_defs):
        self.fn, self.ifnode, self.block, self.values, self.flags, self.valid, self.local_defs = fn, ifnode, block, values, flags, valid, local_defs


def _store(st, cls_members):
    """(member, source expression) when st commits a value to a cached member without throwing"""
    u = unwrap(st) if isinstance(st, dict) else None
    if not isinstance(u, dict):
        return None
    if u.get("k") == "MCall" and callee_name(u) == "swap" and len(u.get("args", [])) == 1:
        p = path(u.get("recv"))
        if p and len(p) == 2 and p[0] == "this" and p[1] in cls_members:
            return p[1], u["args"][0], "swap"
    lhs = rhs = None
    if u.get("k") == "OpCall" and u.get("op") == "=" and len(u.get("args", [])) == 2:
        lhs, rhs = u["args"]
    elif u.get("k") == "Bin" and u.get("op") == "=":
        lhs, rhs = u.get("lhs"), u.get("rhs")
    if lhs is not None:
        p = path(lhs)
        if p and len(p) == 2 and p[0] == "this" and p[1] in cls_members:
            r = unwrap_all_casts(rhs)
            moved = isinstance(r, dict) and r.get("k") == "Call" and callee_name(r) == "move"
            return p[1], rhs, "move" if moved else "copy"
    return None


def validated(facts, cls, sources):
    """-> (values {member: parts}, commits [Commit], refreshers {function qn: member returned or None})
    or raises Undecided(reason); ({}, [], {}) when the class stores strings nowhere but in its sources."""
    rec = facts.records.get(cls)
    if rec is None:
        return {}, [], {}
    strings = {f["n"] for f in rec.get("fields", []) if "basic_string" in (f.get("t") or "") and f["n"] not in sources}
    bools = {f["n"]: f for f in rec.get("fields", []) if (f.get("t") or "") == "bool"}
    if not strings:
        return {}, [], {}
    fns = [f for f in facts.functions.values() if f.get("cls") == cls and f.get("body") is not None]
    commits = []
    stray = []
    for f in fns:
        for n, parents in ir.walk_with_parents(f["body"]):
            if n.get("k") != "Block":
                continue
            stores = [(i, _store(st, strings)) for i, st in enumerate(n.get("s", []))]
            stores = [(i, s_) for i, s_ in stores if s_ is not None]
            if not stores:
                continue
            par = parents[-1] if parents else None
            if not (isinstance(par, dict) and par.get("k") == "If" and (par.get("then") is n or par.get("else") is n)):
                stray.append((f, n.get("s")[stores[0][0]].get("l"), "a store to %s that is not the conditional commit of a refresh" % stores[0][1][0]))
                continue
            local_defs = {}
            for st in n.get("s", []):
                if isinstance(st, dict) and st.get("k") == "Decl":
                    for v in st.get("vars", []):
                        if v.get("init") is not None and "id" in v:
                            local_defs[v["id"]] = v["init"]
            values, flags = {}, set()
            first = stores[0][0]
            okb = True
            for i, st in enumerate(n.get("s", [])):
                s_ = _store(st, strings)
                if s_ is not None:
                    m, src, how = s_
                    if how == "copy":
                        stray.append((f, st.get("l"), "%s is committed by a copy assignment, which may throw between two commits" % m))
                        okb = False
                    values[m] = parts_of(src, local_defs)
                    continue
                u = unwrap(st) if isinstance(st, dict) else None
                if isinstance(u, dict) and u.get("k") == "Bin" and u.get("op") == "=":
                    p = path(u.get("lhs"))
                    if p and len(p) == 2 and p[0] == "this" and p[1] in bools and const_value(u.get("rhs")) == 1:
                        flags.add(p[1])
                        continue
                if i > first and not (isinstance(st, dict) and st.get("k") in ("Null",)):
                    stray.append((f, st.get("l") if isinstance(st, dict) else 0, "something other than a commit follows the first commit in its block"))
                    okb = False
            if not okb:
                continue
            valid = par["cond"] if par.get("else") is n else {"k": "Un", "op": "!", "e": par["cond"], "t": "bool"}
            vu = unwrap_all_casts(valid)
            while isinstance(vu, dict) and vu.get("k") == "Un" and vu.get("op") == "!" and \
                    isinstance(unwrap_all_casts(vu.get("e")), dict) and unwrap_all_casts(vu["e"]).get("k") == "Un" and unwrap_all_casts(vu["e"]).get("op") == "!":
                vu = unwrap_all_casts(unwrap_all_casts(vu["e"])["e"])
            valid = vu
            if par.get("then") is n and par.get("else") is not None:
                stray.append((f, par.get("l"), "the refresh has an else branch"))
                continue
            if par.get("else") is n and ir.stmts(par.get("then")) and any(isinstance(x, dict) and x.get("k") != "Null" for x in ir.stmts(par.get("then"))):
                # `if (valid) return ..; else commit` is fine; anything else in the valid branch is not part of the protocol
                if not all(isinstance(x, dict) and x.get("k") in ("Return", "Null") for x in ir.stmts(par["then"])):
                    stray.append((f, par.get("l"), "the valid branch of the refresh does more than return"))
                    continue
            commits.append(Commit(f, par, n, values, flags, valid, local_defs))
    # other writes to the cached members: clear(), assign(), append .. and stores from other classes
    cached = set()
    for c in commits:
        cached |= set(c.values)
    if not cached and not stray:
        return {}, [], {}
    if stray and not commits:
        # string members that are simply assigned (not this protocol): not a validated cache, nothing to say
        return {}, [], {}
    if stray:
        raise Undecided("%s:%s %s" % (stray[0][0]["qn"].split("::")[-1], stray[0][1], stray[0][2]))
    for f in facts.functions.values():
        if f.get("body") is None:
            continue
        for n in walk(f["body"]):
            if n.get("k") == "MCall" and (n.get("callee") or {}).get("const") is not True:
                p = path(n.get("recv"))
                if p and len(p) == 2 and p[1] in cached and (p[0] == "this" and f.get("cls") == cls) and callee_name(n) not in ("swap",) and \
                        callee_name(n) in ("clear", "assign", "append", "push_back", "resize", "erase", "insert", "replace", "pop_back", "operator+=", "operator="):
                    raise Undecided("%s modifies the cached %s outside a commit (line %s)" % (f["qn"].split("::")[-1], p[1], n.get("l")))
            if n.get("k") == "OpCall" and n.get("op") in ("+=",) and n.get("args"):
                p = path(n["args"][0])
                if p and len(p) == 2 and p[0] == "this" and p[1] in cached and f.get("cls") == cls:
                    raise Undecided("%s appends to the cached %s (line %s)" % (f["qn"].split("::")[-1], p[1], n.get("l")))
    # (2) all commits agree
    ref = commits[0]
    for c in commits[1:]:
        if c.values != ref.values or c.flags != ref.flags:
            raise Undecided("the commits in %s and %s store different values" % (ref.fn["qn"].split("::")[-1], c.fn["qn"].split("::")[-1]))
    values = ref.values
    for m, ps in values.items():
        for p_ in ps:
            if isinstance(p_, str) and p_.startswith("?"):
                raise Undecided("committed value of %s is not a concatenation of sources and literals: %s" % (m, p_))
            if isinstance(p_, tuple) and not (len(p_) == 2 and p_[0] == "this" and p_[1] in sources):
                raise Undecided("committed value of %s depends on %s" % (m, p_))
    # the flag is set nowhere else
    for fl in ref.flags:
        fi = bools[fl].get("init")
        if fi is None or const_value(fi) != 0:
            raise Undecided("flag %s does not start out false" % fl)
        for f in fns:
            for n in walk(f["body"]):
                if n.get("k") == "Bin" and n.get("op") == "=" and path(n.get("lhs")) == ("this", fl) and const_value(n.get("rhs")) != 0 and \
                        not any(any(x is n for x in walk(st)) for c in commits for st in c.block.get("s", [])):
                    raise Undecided("flag %s is also set outside a commit (%s line %s)" % (fl, f["qn"].split("::")[-1], n.get("l")))
    # (3) + (4) per commit: the validity test
    for c in commits:
        why = _validates(c, values, sources, cached)
        if why is not None:
            if why.startswith("REFUTED: "):
                raise Refuted("%s line %s: %s" % (c.fn["qn"].split("::")[-1], c.ifnode.get("l"), why[9:]))
            raise Undecided("%s line %s: %s" % (c.fn["qn"].split("::")[-1], c.ifnode.get("l"), why))
    # functions that consist of a refresh and return a cached member
    refreshers = {}
    for c in commits:
        sts = [x for x in ir.stmts(c.fn["body"]) if not (isinstance(x, dict) and x.get("k") == "Null")]
        if sts and sts[0] is c.ifnode and len(sts) <= 2:
            ret = None
            if len(sts) == 2:
                if sts[1].get("k") != "Return":
                    continue
                p = path(sts[1].get("e")) if sts[1].get("e") is not None else None
                if not (p and len(p) == 2 and p[0] == "this" and p[1] in cached):
                    continue
                ret = p[1]
            refreshers[(c.fn["qn"], tuple(c.fn.get("sig") or ()))] = ret
    return values, commits, refreshers


def _validates(c, values, sources, cached):
    """None when c.valid implies that every cached member equals its value over the present sources and that a commit has
    happened; else the reason"""
    conj = _conj(c.valid)
    ld = dict(c.local_defs)
    # locals declared before the test in the same function (`const size_t n = m_value.size();`)
    for n in walk(c.fn["body"]):
        if n.get("k") == "Decl":
            for v in n.get("vars", []):
                if v.get("init") is not None and "id" in v and v["id"] not in ld:
                    ld[v["id"]] = v["init"]
    equal = set()           # cached members proved equal to their value over the present sources
    # direct equalities
    for a in conj:
        e = _eq(a)
        if e is None:
            continue
        for x, y in (e, e[::-1]):
            px = path(unwrap_all_casts(x))
            if px and len(px) == 2 and px[0] == "this" and px[1] in values and parts_of(y, ld) == values[px[1]]:
                equal.add(px[1])
    # size + piecewise compare
    for m, ps in values.items():
        if m in equal:
            continue
        size_ok = False
        for a in conj:
            e = _eq(a)
            if e is None:
                continue
            for x, y in (e, e[::-1]):
                lx = _lin(x, ld)
                if lx == {("size", ("this", m)): 1} and _lin(y, ld) == _sizes(ps):
                    size_ok = True
        if not size_ok:
            continue
        covered = []
        for a in conj:
            e = _eq(a)
            if e is None:
                continue
            for x, y in (e, e[::-1]):
                xc = unwrap_all_casts(x)
                if not (isinstance(xc, dict) and xc.get("k") == "MCall" and callee_name(xc) == "compare" and path(xc.get("recv")) == ("this", m)):
                    continue
                if const_value(y) != 0 or len(xc.get("args", [])) != 3:
                    continue
                off, ln, what = xc["args"]
                w = parts_of(what, ld)
                if len(w) != 1:
                    continue
                lo = _lin(off, ld)
                lo = {} if lo == {1: 0} else lo
                lnl = _lin(ln, ld)
                covered.append((lo, lnl, w[0]))
        # the pieces must tile the value: piece j at offset = sizes of pieces before it, length = its size (or npos for the last)
        okp = True
        for j, p_ in enumerate(ps):
            want_off = _sizes(ps[:j])
            hit = False
            for lo, lnl, w in covered:
                if w != p_ or lo is None or lo != want_off:
                    continue
                if lnl == _sizes([p_]) or (j == len(ps) - 1 and lnl is not None and set(lnl) == {1} and lnl[1] >= 2 ** 31):
                    hit = True
            okp = okp and hit
        if okp:
            equal.add(m)
    # copies of sources as keys: k == s for a cached k whose value is [s]
    key_sources = set()
    for m in equal:
        if len(values[m]) == 1 and isinstance(values[m][0], tuple):
            key_sources.add(values[m][0])
    if not equal:
        # a test that only looks at a prefix of the key (no length, no comparison of the rest) is not merely unproven, it is
        # wrong: any name kept from an output whose name *starts with* the present one passes it
        for m, ps in values.items():
            prefix_only = False
            constrained = False
            for a in conj:
                e = _eq(a)
                if e is None:
                    continue
                for x, y in (e, e[::-1]):
                    xc = unwrap_all_casts(x)
                    if isinstance(xc, dict) and xc.get("k") == "MCall" and callee_name(xc) == "compare" and path(xc.get("recv")) == ("this", m) and \
                            const_value(y) == 0 and len(xc.get("args", [])) == 3:
                        off, ln, what = xc["args"]
                        w = parts_of(what, ld)
                        if _lin(off, ld) in ({}, {1: 0}) and len(w) == 1 and ps and w[0] == ps[0] and _lin(ln, ld) == _sizes([ps[0]]):
                            prefix_only = True
                        else:
                            constrained = True
                    lx = _lin(x, ld)
                    if lx == {("size", ("this", m)): 1}:
                        constrained = True
                    px = path(unwrap_all_casts(x))
                    if px == ("this", m) and _eq(a) is not None and not (isinstance(xc, dict) and xc.get("k") == "MCall"):
                        constrained = True
            if prefix_only and not constrained and len(ps) > 1:
                return "REFUTED: the test that skips the refresh only compares the beginning of %s with %s: names composed for an earlier output " \
                       "whose name starts with the present one (out.10 -> out.1) are taken for the present output's" % (m, ps[0][-1] if isinstance(ps[0], tuple) else ps[0])
    # every other member: an extension of a proved one, or built from sources that all have a proved key copy
    for m, ps in values.items():
        if m in equal:
            continue
        if any(ps[:len(values[k])] == values[k] and all(isinstance(x, str) for x in ps[len(values[k]):]) for k in equal):
            continue
        if all(isinstance(x, str) or x in key_sources for x in ps):
            continue
        return "the test that skips the refresh does not show that %s was composed from the present %s" % (
            m, "/".join(sorted(x[1] for x in ps if isinstance(x, tuple))))
    if not equal:
        return "the test that skips the refresh compares nothing with the sources"
    # (4) the initial state is excluded
    for a in conj:
        p = path(a) if isinstance(a, dict) else None
        if p and len(p) == 2 and p[0] == "this" and p[1] in c.flags:
            return None
    for a in conj:
        e = _eq(a)
        if e is None:
            continue
        for x, y in (e, e[::-1]):
            lx, ly = _lin(x, ld), _lin(y, ld)
            if lx is None or ly is None or len(lx) != 1:
                continue
            (t, co), = lx.items()
            if co != 1 or not (isinstance(t, tuple) and t[1][1] in cached):
                continue
            rest = dict(ly)
            k = rest.pop(1, 0)
            if k > 0 and len(rest) == 1:
                (t2, c2), = rest.items()
                if c2 == 1 and isinstance(t2, tuple) and t2[1][1] in cached and t2 != t:
                    return None
    # a member proved equal whose value contains a non-empty literal cannot be in the empty initial state
    for m in equal:
        if any(isinstance(x, str) and x for x in values[m]):
            return None
    return "the test that skips the refresh is also satisfied before anything was ever composed (all members empty)"


def fresh_uses(facts, cls, values, commits, refreshers, sources):
    """Every read of a cached member outside the commits must follow a refresh in its function with no store to a source in
    between.  -> list of (function, line, reason) for reads that do not."""
    out = []
    cached = set(values)
    commit_nodes = set()
    for c in commits:
        for x in walk(c.ifnode):
            commit_nodes.add(id(x))

    def is_refresh_stmt(st):
        if any(st is c.ifnode for c in commits):
            return True
        for x in walk(st):
            if x.get("k") == "MCall" and isinstance(x.get("callee"), dict) and \
                    (x["callee"].get("qn"), tuple(x["callee"].get("sig") or ())) in refreshers and unwrap(x.get("recv") or {}).get("k") == "This":
                return True
        return False

    def spoils(st):
        for x in walk(st):
            if id(x) in commit_nodes:
                continue
            if x.get("k") in ("Bin", "OpCall") and (x.get("op") or "").endswith("=") and x.get("op") not in ("==", "!=", "<=", ">="):
                lhs = x.get("lhs") if x.get("k") == "Bin" else (x.get("args") or [None])[0]
                p = path(lhs) if lhs is not None else None
                if p and p[0] == "this" and len(p) >= 2 and p[1] in sources:
                    return True
            if x.get("k") == "MCall":
                p = path(x.get("recv"))
                cal = x.get("callee") or {}
                if p and len(p) >= 2 and p[0] == "this" and p[1] in sources and not cal.get("const"):
                    return True
                if unwrap(x.get("recv") or {}).get("k") == "This" and not cal.get("const") and \
                        (cal.get("qn"), tuple(cal.get("sig") or ())) not in refreshers:
                    return True
        return False

    for f in facts.functions.values():
        if f.get("body") is None:
            continue
        for n, parents in ir.walk_with_parents(f["body"]):
            if id(n) in commit_nodes:
                continue
            if not (n.get("k") == "Member" and n.get("field") and n.get("n") in cached and (n.get("cls") == cls or f.get("cls") == cls)):
                continue
            if f.get("cls") == cls and (f.get("ctor") or f.get("dtor")) and False:
                continue
            # the returned member of a refresher function is its result
            if (f["qn"], tuple(f.get("sig") or ())) in refreshers and parents and parents[-1].get("k") in ("Return", "Cast"):
                continue
            fresh = False
            chain = list(parents) + [n]
            for depth, anc in enumerate(chain):
                if anc.get("k") != "Block":
                    continue
                child = chain[depth + 1] if depth + 1 < len(chain) else None
                sts = anc.get("s", [])
                idx = next((i for i, st in enumerate(sts) if st is child), None)
                if idx is None:
                    continue
                # (a refresh inside the statement of the use itself does not count: arguments are not sequenced)
                for j in range(idx - 1, -1, -1):
                    if is_refresh_stmt(sts[j]):
                        fresh = True
                        break
                    if spoils(sts[j]):
                        break
                if fresh:
                    break
            if not fresh:
                out.append((f, n.get("l"), "%s is read without a refresh before it in %s" % (n["n"], f["qn"].split("::")[-1])))
    return out
