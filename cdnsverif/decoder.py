"""Decoder analyses: A8 window typestate, read_to_buffer refill domain, skip_item structure."""
from . import ir, minieval
from .ir import (cond, conjuncts, path, path_str, unwrap, unwrap_all_casts, callee_name, callee_qn, const_value,
                 show, show_f, Env)

DEC = "CDNS::CdnsDecoder"
FRESHENERS = ("read_to_buffer", "peek_type")


def dec_fns(facts):
    return sorted([f for f in facts.functions.values() if f.get("cls") == DEC], key=lambda f: (f["file"], f["line"]))


def is_mp_deref(n):
    """m_p[k] or *m_p -> offset (int or None) else False"""
    if n.get("k") == "Index" and path(n.get("base")) == ("this", "m_p"):
        return ("idx", const_value(n.get("idx")))
    if n.get("k") == "Un" and n.get("op") == "*" and path(n.get("e")) == ("this", "m_p"):
        return ("idx", 0)
    return None


def is_mp_move(n):
    if n.get("k") == "Un" and n.get("op") in ("post++", "pre++", "post--", "pre--") and path(n.get("e")) == ("this", "m_p"):
        return True
    if n.get("k") == "Bin" and n.get("op") in ("+=", "-=", "=") and path(n.get("lhs")) == ("this", "m_p"):
        return True
    return False


class Typestate:
    """Fresh = a refill check ran and m_p has not moved since (m_p < m_end holds, provided read_to_buffer
    keeps its contract, which R05.1 decides separately)."""

    def __init__(self, fn):
        self.fn = fn
        self.derefs = []    # (node, state ok?, line, why)

    def expr(self, e, st):
        """Evaluate expression in evaluation order; returns state after."""
        if not isinstance(e, dict):
            return st
        k = e.get("k")
        if k == "Lambda":
            return st
        if k == "Bin" and e.get("op") in ("&&", "||"):
            s1 = self.expr(e["lhs"], st)
            s2 = self.expr(e["rhs"], s1)
            return "Fresh" if (s1 == "Fresh" and s2 == "Fresh") else "Stale"
        if k == "Cond":
            s1 = self.expr(e["c"], st)
            a = self.expr(e["a"], s1)
            b = self.expr(e["b"], s1)
            return "Fresh" if a == b == "Fresh" else "Stale"
        d = is_mp_deref(e)
        if d is not None:
            # evaluate sub-expressions first
            for c in ir.children(e):
                st = self.expr(c, st)
            ok = st == "Fresh" and d[1] == 0
            self.derefs.append((e, ok, e.get("l", 0),
                                "read through m_p directly after a refill check" if ok else
                                ("m_p[%s] read without a preceding read_to_buffer()/peek_type() since m_p last moved" % d[1]
                                 if d[1] == 0 else "m_p[%s]: only offset 0 is covered by the refill check" % d[1])))
            return st
        if is_mp_move(e):
            for c in ir.children(e):
                st = self.expr(c, st)
            return "Stale"
        if k in ("MCall", "Call"):
            for c in ir.children(e):
                st = self.expr(c, st)
            cal = e.get("callee") or {}
            if cal.get("cls") == DEC:
                return "Fresh" if callee_name(e) in FRESHENERS else "Stale"
            return st
        for c in ir.children(e):
            st = self.expr(c, st)
        return st

    def stmt(self, s, st):
        if s is None:
            return st
        k = s.get("k")
        if k == "Block":
            for x in s.get("s", []):
                st = self.stmt(x, st)
                if ir.always_leaves(x):
                    return "Left"
            return st
        if k == "If":
            s0 = self.expr(s["cond"], st)
            a = self.stmt(s["then"], s0)
            b = self.stmt(s.get("else"), s0) if s.get("else") is not None else s0
            outs = [x for x in (a, b) if x != "Left"]
            if not outs:
                return "Left"
            return "Fresh" if all(x == "Fresh" for x in outs) else "Stale"
        if k in ("While", "For", "Do"):
            if k == "For" and s.get("init") is not None:
                st = self.stmt(s["init"], st)
            # first iteration from the entry state, further iterations from Stale (conservative)
            for entry in (st, "Stale"):
                s0 = entry
                if k != "Do" and s.get("cond") is not None:
                    s0 = self.expr(s["cond"], s0)
                s1 = self.stmt(s.get("body"), s0)
                if k == "For" and s.get("inc") is not None and s1 != "Left":
                    self.expr(s["inc"], s1)
                if k == "Do":
                    self.expr(s["cond"], s1 if s1 != "Left" else "Stale")
            return "Stale"
        if k == "RangeFor":
            self.stmt(s.get("body"), "Stale")
            return "Stale"
        if k == "Switch":
            s0 = self.expr(s["cond"], st)
            for x in ir.stmts(s.get("body")):
                self.stmt(x, s0 if x.get("k") in ("Case", "Default") else "Stale")
            return "Stale"
        if k in ("Case", "Default"):
            return self.stmt(s.get("sub"), st)
        if k == "Return":
            if s.get("e") is not None:
                self.expr(s["e"], st)
            return "Left"
        if k == "Throw":
            return "Left"
        if k in ("Break", "Continue"):
            return "Left"
        if k == "Decl":
            for v in s.get("vars", []):
                if v.get("init") is not None:
                    st = self.expr(v["init"], st)
            return st
        if k == "Try":
            self.stmt(s.get("body"), st)
            for h in s.get("handlers", []):
                self.stmt(h.get("body"), "Stale")
            return "Stale"
        return self.expr(s, st)

    def run(self):
        # dedupe derefs visited twice by the loop re-evaluation: a deref must be ok in *every* visit
        self.stmt(self.fn["body"], "Stale")
        agg = {}
        for n, ok, line, why in self.derefs:
            a = agg.setdefault(id(n), [n, True, line, why])
            if not ok:
                a[1] = False
                a[3] = why
        return list(agg.values())


# ------------------------------------------------------------------ read_to_buffer refill domain

EMPTY_TESTS = (
    ("cmp", "==", "this.m_end", "this.m_p"), ("cmp", "==", "this.m_p", "this.m_end"),
    ("cmp", "<=", "this.m_end", "this.m_p"),  # m_p >= m_end
)


def is_empty_window_test(c):
    """Formula that is true iff the refill obtained no bytes."""
    if c in EMPTY_TESTS:
        return True
    if c[0] == "cmp" and c[1] == "==" and ("this.m_buffer" in (c[2], c[3])) and ("this.m_end" in (c[2], c[3])):
        return True
    s = repr(c)
    if "gcount()" in s:
        if c[0] == "not" and c[1][0] == "nz":
            return True                      # gcount() == 0 / !gcount()
        if c[0] == "cmp" and c[1] == "<" and c[3] == "1":
            return True                      # gcount() < 1
        if c[0] == "cmp" and c[1] == "<=" and c[3] == "0":
            return True
    return False


def analyse_refill(fn):
    """Returns (status, line, text). status True/False/None."""
    env = Env(fn["body"])
    leafs = list(ir.guarded_statements(fn["body"], env))
    # locate refill statements
    idx_read = idx_end = None
    for i, (st, g, loops) in enumerate(leafs):
        if st.get("k") in ("IfCond", "LoopHead", "SwitchHead"):
            continue
        for n in ir.walk(st):
            if n.get("k") == "MCall" and callee_name(n) in ("read", "readsome", "get", "getline") and \
                    path(n.get("recv")) == ("this", "m_input"):
                idx_read = i if idx_read is None else idx_read
            if n.get("k") == "Bin" and n.get("op") == "=" and path(n["lhs"]) == ("this", "m_end"):
                idx_end = i
    if idx_read is None or idx_end is None:
        return None, fn["line"], "refill statements (m_input.read / m_end = ...) not found"
    refill_guard = leafs[idx_end][1]
    # 1. a test after the refill that throws when the window is empty
    post_ok = False
    unknown_post = None
    for i, (st, g, loops) in enumerate(leafs):
        if i <= idx_end:
            continue
        if st.get("k") == "IfCond":
            node = st["node"]
            c = cond(node["cond"], env)
            leaves = ir.leaves_function(node.get("then"))
            parts = c[1:] if c[0] == "or" else [c]
            if leaves and any(is_empty_window_test(p) for p in parts):
                post_ok = True
            elif any(x in repr(c) for x in ("m_input", "m_p", "m_end", "gcount")):
                unknown_post = (node.get("l", 0), show_f(c))
    # 2. a peek()==EOF -> throw test in front of the read
    pre_ok = False
    for i, (st, g, loops) in enumerate(leafs):
        if i >= idx_read:
            break
        if st.get("k") == "IfCond":
            node = st["node"]
            c = cond(node["cond"], env)
            if ir.leaves_function(node.get("then")) and "peek()" in repr(c) and ("-1" in repr(c) or "eof" in repr(c).lower()):
                pre_ok = True
    if post_ok or pre_ok:
        return True, leafs[idx_end][0].get("l", fn["line"]), \
            "a refill that obtained 0 bytes leaves by throw (%s)" % ("test after the read" if post_ok else "peek()==EOF before the read")
    if unknown_post:
        return None, unknown_post[0], "branch on stream/pointer state after the refill not understood: %s" % unknown_post[1]
    return False, leafs[idx_end][0].get("l", fn["line"]), \
        "read_to_buffer returns normally after a refill of 0 bytes (m_p == m_end): eof()/fail() tests before the read do not " \
        "cover an empty stream, a length that is a multiple of the buffer size or an unreadable stream; the caller then reads stale buffer bytes"
