// Verif-owned translation unit: positive controls for rules whose expected number of matches on a correct tree is zero.
// Each function contains exactly the construct the named rule has to report; the rule runs its detector on the control on
// every run and stops with exit 2 (analysis broken) if the detector stays silent.  Not part of the analysed program.
#include "src/cdns.h"
namespace verif_rc {

// R09.6: a reader that rejects depending on the decoded value
void r09_6_rejecting_reader(CDNS::CdnsDecoder& dec, std::string& out)
{
    std::string s = dec.read_textstring();
    for (unsigned char c : s) {
        if (c > 0x7F)
            throw CDNS::CdnsDecoderException("not ASCII");
    }
    out = s;
}

// R09.6 (negative control): a type check is not a value-dependent rejection
void r09_6_type_check_only(CDNS::CdnsDecoder& dec, std::string& out)
{
    if (dec.peek_type() != CDNS::CborType::TEXT_STRING)
        throw CDNS::CdnsDecoderException("wrong type");
    out = dec.read_textstring();
}

// R05.3 no-input-after-block: a look-ahead between the decoded block and its return
CDNS::CdnsBlockRead r05_3_late_lookahead(CDNS::CdnsDecoder& dec, std::vector<CDNS::BlockParameters>& bp)
{
    CDNS::CdnsBlockRead block;
    block.read(dec, bp);
    if (dec.peek_type() == CDNS::CborType::BREAK)
        dec.read_break();
    return block;
}

// R14.4 no-partial-reset: a compressor reused for the next output without forgetting the previous one
int r14_4_partial_reset(z_stream& strm)
{
    return deflateResetKeep(&strm);
}

}
