"""A2 (emission grammar of serialisers) and A3 (byte accounting).

A serialiser is analysed symbolically: the CBOR items it emits are collected as *events* with the
guard formula under which they execute and the loop they sit in; the event sequence is parsed
against the CBOR grammar (container start + declared count, children), and the declared count is
compared with the children *as linear forms over guard atoms* — i.e. for every subset of present
optional members at once.
"""
from . import ir
from .ir import (cond, f_and, f_not, f_or, conjuncts, path, path_str, unwrap, callee_name, callee_qn,
                 const_value, sum_terms, size_call_path, show, show_f, Env)

ENC = "CDNS::CdnsEncoder"
ENC_REF = "CDNS::CdnsEncoder &"

SCALAR_KIND = {
    "bool": "BOOL", "unsigned char": "UINT8", "unsigned short": "UINT16", "unsigned int": "UINT32",
    "unsigned long": "UINT64", "signed char": "INT8", "short": "INT16", "int": "INT32", "long": "INT64",
}


def is_serialiser_sig(f):
    """Function with a CdnsEncoder& parameter returning size_t (every T::write, write_blocktables)."""
    return f.get("ret") == "unsigned long" and ENC_REF in f.get("sig", [])


def encoder_kind(call):
    """Classify a call to a CdnsEncoder primitive. Returns (kind, detail) or None."""
    c = call.get("callee") or {}
    if c.get("cls") != ENC:
        return None
    nm = callee_name(call)
    if nm == "write":
        sig = c.get("sig", [])
        return ("ITEM", SCALAR_KIND.get(sig[0] if sig else "", "UNKNOWN:%s" % sig))
    if nm == "write_bytestring":
        return ("ITEM", "BYTES")
    if nm == "write_textstring":
        return ("ITEM", "TEXT")
    if nm == "write_map_start":
        return ("START_MAP", None)
    if nm == "write_array_start":
        return ("START_ARRAY", None)
    if nm == "write_indef_array_start":
        return ("START_INDEF_ARRAY", None)
    if nm == "write_indef_map_start":
        return ("START_INDEF_MAP", None)
    if nm == "write_break":
        return ("BREAK", None)
    if nm and nm.startswith("write") and c.get("ret") == "unsigned long":
        return ("UNKNOWN_EMITTER", nm)
    return None


class Event:
    def __init__(self, kind, detail, call, guard, loops, stmt):
        self.kind = kind
        self.detail = detail
        self.call = call
        self.guard = guard
        self.loops = loops
        self.stmt = stmt
        self.line = call.get("l", 0)

    def __repr__(self):
        return "<%s %s @%s g=%s loops=%d>" % (self.kind, self.detail, self.line, show_f(self.guard), len(self.loops))


def struct_callee(call, facts):
    """In-repo callee that is itself a serialiser (has a CdnsEncoder& parameter, returns size_t)."""
    c = call.get("callee") or {}
    if not c.get("inrepo"):
        return None
    if c.get("ret") != "unsigned long" or ENC_REF not in c.get("sig", []):
        return None
    if c.get("cls") == ENC:
        return None
    return c


def events_of(fn, facts, env=None):
    """Ordered emission events of a function body."""
    env = env or Env(fn["body"])
    evs = []
    for st, g, loops in ir.guarded_statements(fn["body"], env):
        if st.get("k") in ("IfCond", "LoopHead", "SwitchHead"):
            # an emitter call inside a condition is not an idiom of this repo
            node = st.get("cond") if st.get("k") == "IfCond" else None
            if node is not None:
                for c in ir.calls_in(node):
                    if encoder_kind(c) or struct_callee(c, facts):
                        evs.append(Event("IN_CONDITION", None, c, g, loops, st))
            continue
        for c in ir.calls_in(st):
            ek = encoder_kind(c)
            if ek:
                evs.append(Event(ek[0], ek[1], c, g, loops, st))
                continue
            sc = struct_callee(c, facts)
            if sc:
                evs.append(Event("STRUCT", sc, c, g, loops, st))
    return evs, env


class Item:
    """One parsed CBOR data item produced by the writer."""

    def __init__(self, kind, guard, loops, ev, children=None, count=None, elem=None):
        self.kind = kind          # scalar kind / 'STRUCT' / 'ARRAY' / 'MAP'
        self.guard = guard
        self.loops = loops
        self.ev = ev
        self.children = children or []
        self.count = count
        self.elem = elem


class WriterAnalysis:
    def __init__(self, fn):
        self.fn = fn
        self.problems = []      # (code, line, text)  -> obligations that fail
        self.unrecognised = []  # (line, text)
        self.top = None         # top-level Item
        self.top_guard = ("T",) # condition under which the one item is emitted
        self.rows = []          # map rows: dict(enum, name, key, value Item, guard(rel))
        self.count_checks = []  # (line, container kind, declared str, emitted str, ok)
        self.struct_sites = []  # Event list of STRUCT calls
        self.events = []
        self.env = None
        self.param_counts = []  # containers whose declared count is a parameter (checked per call site)


def rel_guard(child_guard, parent_guard):
    pc = conjuncts(parent_guard)
    rest = [c for c in conjuncts(child_guard) if c not in pc]
    return f_and(*rest) if rest else ("T",)


def same_loops(a, b):
    return len(a) == len(b) and all(x is y for x, y in zip(a, b))


def loop_range_path(loop, env):
    """Container a loop runs over once per element: `for (x : c)` or `for (i = 0; i < c.size(); ++i)` with i not
    written in the body."""
    if loop.get("k") == "For":
        init, cnd, inc = loop.get("init"), loop.get("cond"), loop.get("inc")
        if not (isinstance(init, dict) and init.get("k") == "Decl" and len(init.get("vars", [])) == 1 and cnd is not None and inc is not None):
            return None
        v = init["vars"][0]
        if const_value(v.get("init")) != 0:
            return None
        key = "l:%s#%s" % (v["n"], v["id"])
        ui = unwrap(inc)
        if not (isinstance(ui, dict) and ui.get("k") == "Un" and ui.get("op") in ("pre++", "post++") and path(ui.get("e")) == (key,)):
            return None
        if key in ir.written_locals(loop.get("body") or {}):
            return None
        c = unwrap(cnd)
        if not (isinstance(c, dict) and c.get("k") == "Bin" and c.get("op") in ("<", "!=") and path(c.get("lhs")) == (key,)):
            return None
        rhs = c.get("rhs")
        sp = ir.size_call_path(rhs)
        if sp is None and env is not None and path(rhs) is not None:
            d = env.definition(path(rhs))
            sp = ir.size_call_path(d) if d is not None else None
        if sp is not None and env is not None:
            sp = env.resolve_ref_path(sp)
        return sp
    if loop.get("k") != "RangeFor":
        return None
    p = path(loop.get("range"))
    if p is not None and env is not None:
        p = env.resolve_ref_path(p)
    return p


def analyse_writer(fn, facts):
    wa = WriterAnalysis(fn)
    evs, env = events_of(fn, facts)
    wa.events = evs
    wa.env = env
    wa.struct_sites = [e for e in evs if e.kind == "STRUCT"]
    for e in evs:
        if e.kind in ("UNKNOWN_EMITTER", "IN_CONDITION"):
            wa.unrecognised.append((e.line, "emitter call in a form the grammar does not know: %s" % show(e.call)))
    if wa.unrecognised or not evs:
        if not evs:
            wa.unrecognised.append((fn["line"], "serialiser emits nothing"))
        return wa

    pos = [0]

    def parse_item():
        i = pos[0]
        if i >= len(evs):
            return None
        ev = evs[i]
        if ev.kind == "ITEM":
            pos[0] += 1
            return Item(ev.detail, ev.guard, ev.loops, ev)
        if ev.kind == "STRUCT":
            pos[0] += 1
            return Item("STRUCT", ev.guard, ev.loops, ev)
        if ev.kind in ("START_ARRAY", "START_MAP"):
            pos[0] += 1
            mult = 2 if ev.kind == "START_MAP" else 1
            arg = ev.call["args"][0] if ev.call.get("args") else None
            it = Item("MAP" if mult == 2 else "ARRAY", ev.guard, ev.loops, ev)
            cv = const_value(arg)
            sp = size_call_path(arg) if cv is None else None
            if sp is not None:
                sp = env.resolve_ref_path(sp)
            if cv is not None:
                it.count = ("const", cv)
                for _ in range(cv * mult):
                    ch = parse_item()
                    if ch is None:
                        wa.problems.append(("count", ev.line, "container declares %d members but fewer items follow" % cv))
                        break
                    if ch.guard != ev.guard or not same_loops(ch.loops, ev.loops):
                        wa.problems.append(("count", ch.ev.line,
                                            "member of a fixed-size container (declared %d) is emitted conditionally (%s)"
                                            % (cv, show_f(rel_guard(ch.guard, ev.guard)))))
                    it.children.append(ch)
                wa.count_checks.append((ev.line, it.kind, str(cv * mult), str(len(it.children)),
                                        len(it.children) == cv * mult))
                return it
            if sp is not None:
                # array_start(c.size()) followed by one loop over c emitting `mult` items per iteration
                it.count = ("size", sp)
                per_iter = []
                loop = None
                while pos[0] < len(evs):
                    nx = evs[pos[0]]
                    if len(nx.loops) == len(ev.loops) + 1 and same_loops(nx.loops[:-1], ev.loops):
                        if loop is None:
                            loop = nx.loops[-1]
                        if nx.loops[-1] is not loop:
                            break
                        ch = parse_item()
                        per_iter.append(ch)
                    else:
                        break
                it.children = per_iter
                ok = True
                why = ""
                if loop is None:
                    ok, why = False, "array of size(%s) is not followed by a loop emitting its elements" % path_str(sp)
                else:
                    lp = loop_range_path(loop, env)
                    if lp != sp:
                        ok, why = False, "declared length size(%s) but the loop iterates %s" % (
                            path_str(sp), path_str(lp) if lp else show(loop.get("range") or loop.get("cond")))
                    elif len(per_iter) != mult:
                        ok, why = False, "loop emits %d items per element, container needs %d" % (len(per_iter), mult)
                    else:
                        for ch in per_iter:
                            if ch.guard != ev.guard:
                                ok, why = False, "element emitted conditionally inside the loop (%s)" % show_f(rel_guard(ch.guard, ev.guard))
                if not ok:
                    wa.problems.append(("count", ev.line, why))
                wa.count_checks.append((ev.line, it.kind, "size(%s)" % path_str(sp),
                                        "loop over %s x %d" % (path_str(sp), len(per_iter)), ok))
                if per_iter:
                    it.elem = per_iter[0]
                return it
            st = sum_terms(arg, env)
            param_count = None
            if st is None:
                ua = unwrap(arg)
                if isinstance(ua, dict) and ua.get("k") == "Ref" and ua.get("d") == "param" and \
                        ("p:%s" % ua["n"]) not in env.assigned:
                    # count handed in by the caller: compared at every call site (R02.1 call-site form)
                    param_count = ua["n"]
                    st = (0, [])
                else:
                    wa.unrecognised.append((ev.line, "declared count %s is neither a constant, a size() nor a sum of presence indicators" % show(arg)))
                    return it
            # symbolic count: all remaining events at this loop depth are the children
            it.count = ("sum", st)
            while pos[0] < len(evs):
                nx = evs[pos[0]]
                if not same_loops(nx.loops, ev.loops) and not (len(nx.loops) > len(ev.loops) and same_loops(nx.loops[:len(ev.loops)], ev.loops)):
                    break
                if nx.kind == "BREAK":
                    break
                ch = parse_item()
                if ch is None:
                    break
                it.children.append(ch)
            declared_c, declared_inds = st
            dform = {}
            for f in declared_inds:
                dform[f] = dform.get(f, 0) + mult
            eform = {}
            econst = 0
            for ch in it.children:
                if not same_loops(ch.loops, ev.loops):
                    wa.problems.append(("count", ch.ev.line, "member emitted inside a loop under a symbolic member count"))
                    continue
                rg = rel_guard(ch.guard, ev.guard)
                if rg == ("T",):
                    econst += 1
                else:
                    eform[rg] = eform.get(rg, 0) + 1
            if param_count is not None:
                wa.param_counts.append({"param": param_count, "mult": mult, "eform": eform, "econst": econst,
                                        "line": ev.line, "kind": it.kind})
                return it
            ok = (econst == declared_c * mult) and eform == dform
            dstr = "%d*(%d%s)" % (mult, declared_c, "".join(" + [%s]" % show_f(f) for f in declared_inds))
            estr = "%d%s" % (econst, "".join(" + %d*[%s]" % (n, show_f(f)) for f, n in sorted(eform.items(), key=repr)))
            wa.count_checks.append((ev.line, it.kind, dstr, estr, ok))
            if not ok:
                missing = ["%s declared x%d, emitted x%d" % (show_f(f), dform.get(f, 0), eform.get(f, 0))
                           for f in set(dform) | set(eform) if dform.get(f, 0) != eform.get(f, 0)]
                if econst != declared_c * mult:
                    missing.append("unconditional: declared %d, emitted %d" % (declared_c * mult, econst))
                wa.problems.append(("count", ev.line, "declared member count differs from members emitted: " + "; ".join(missing)))
            return it
        if ev.kind in ("START_INDEF_ARRAY", "START_INDEF_MAP"):
            pos[0] += 1
            it = Item("INDEF", ev.guard, ev.loops, ev)
            return it
        if ev.kind == "BREAK":
            pos[0] += 1
            return Item("BREAK", ev.guard, ev.loops, ev)
        pos[0] += 1
        return Item("?", ev.guard, ev.loops, ev)

    items = []
    while pos[0] < len(evs):
        it = parse_item()
        if it is None:
            break
        items.append(it)
    wa.items = items
    if len(items) == 1:
        wa.top = items[0]
        wa.top_guard = items[0].guard
        if items[0].loops:
            wa.problems.append(("oneitem", items[0].ev.line, "the only item is emitted inside a loop"))
    else:
        wa.top = None
    # map rows (key/value pairs) of the top-level map
    if wa.top is not None and wa.top.kind == "MAP":
        ch = wa.top.children
        if len(ch) % 2:
            wa.problems.append(("pair", wa.top.ev.line, "map emits an odd number of items (key without value)"))
        for i in range(0, len(ch) - 1, 2):
            k, v = ch[i], ch[i + 1]
            er = ir.enum_ref(k.ev.call["args"][0]) if k.ev.kind == "ITEM" and k.ev.call.get("args") else None
            if er is None:
                wa.unrecognised.append((k.ev.line, "map key is not get_map_index(<enumerator>): %s" % show(k.ev.call)))
                continue
            if k.guard != v.guard:
                wa.problems.append(("pair", k.ev.line, "key %s and its value are emitted under different guards (%s vs %s)" % (
                    er[1], show_f(k.guard), show_f(v.guard))))
            wa.rows.append({"enum": er[0], "name": er[1], "keyval": const_value(k.ev.call["args"][0]),
                            "keykind": k.kind, "value": v, "guard": rel_guard(k.guard, wa.top.guard), "line": k.ev.line})
    return wa


def substitute_formula(f, recv_path, argmap, caller_env):
    """Rewrite a callee-side formula (over this.* and p:param) into the caller's vocabulary."""
    h = f[0]
    if h in ("and", "or"):
        parts = [substitute_formula(x, recv_path, argmap, caller_env) for x in f[1:]]
        return f_and(*parts) if h == "and" else f_or(*parts)
    if h == "not":
        return f_not(substitute_formula(f[1], recv_path, argmap, caller_env))
    if h in ("present", "nonempty"):
        p = f[1]
        if p and p[0] == "this" and recv_path is not None:
            return (h, recv_path + p[1:])
        if p and p[0].startswith("p:") and p[0][2:] in argmap:
            ap = path(argmap[p[0][2:]])
            if ap is not None:
                return (h, caller_env.resolve_ref_path(ap) + p[1:])
        return (h, ("callee",) + tuple(p))
    if h == "nz":
        key = f[1]
        if isinstance(key, str) and key.startswith("p:") and key[2:] in argmap:
            return ir.nz_formula(argmap[key[2:]], caller_env)
        return ("nz", "callee:" + str(key))
    return f
