"""C03 Reading untrusted bytes is memory-safe, bounded and fails only by exception (clauses with a structural form)."""
from .. import ir, decoder, callgraph, ranges, consumption
from ..ir import (path, path_str, unwrap, unwrap_all_casts, callee_name, callee_qn, const_value, show, show_f, Env,
                  conjuncts, int_key, size_call_path)
from ..facts import AnalysisBroken
from . import C05

META = {
    "level": "other",
    "rule_text": "Per clause of the statement: R03.1 decoder window typestate + non-empty refill; R03.2 every sequence-container "
                 "subscript on the read side is dominated by a comparison of that index with that container's size (constant "
                 "index: by a non-emptiness exit); R03.3 no wire-controlled length reaches reserve/resize/new[]/VLA without a "
                 "dominating bound; R03.4 no recursion whose depth is controlled by the input, no VLA with an unbounded bound; "
                 "R03.5 interval check of every signed arithmetic/shift/division reachable from the read entry points; R03.6 "
                 "inet_ntop sources have a checked length; R03.7 every throw is std::exception-derived, no handler on the read "
                 "path, every tool main wraps its read-API calls in a try with a std::exception/... handler that returns. R03.8: a reference/pointer/iterator into a vector, string or deque is not used after a call that may reallocate or shrink the container. R03.9: a cursor that subscripts the input advances by a step whose interval is >= 1. The read side is everything reachable from the decoder, the reader, the renderers and the five tool mains. R03.11: a pointer / iterator member that refers into a container of the same object (also through accessors of a member object) is re-seated by every member function that can reallocate that container. R03.10: the container FilePreamble::read appends the input's block parameters to is tested for emptiness on every accepting path and is what m_block_parameters holds afterwards (callers take entry 0 outside any handler). R03.3: a min() bound only sanitises an allocation size when the bound is a constant or the size of an existing container - members and parameters may themselves come from the input. R03.2 bounds a built-in array subscript by the interval of the index expression against the array extent. R03.12: every `*o` / `o->` / `o.value()` of an optional: under a presence test of the same optional (dominating guard, left operand of the same &&, condition of the same ?:) or straight after a statement of the same list that stores a value into it; under the NEGATED presence test = violation; a dereference the guard says nothing about is not decided (counted).",
    "explanation": "Clause-by-clause static rules over the functions reachable from the read entry points (resolved call graph). "
                   "Full memory safety of C++ is not decided: use-after-free in general, uninitialised reads and libstdc++/boost "
                   "internals are outside reach (C19 covers the one ownership hazard the code has).",
    "trusted_base": ["clang 14 AST", "libstdc++ containers throw or are well-defined for in-range indices"],
    "assumptions": ["command-line argument vectors are not attacker-controlled byte input"],
}

DEC = "CDNS::CdnsDecoder"
SEQ = ("std::basic_string<", "std::vector<", "std::deque<", "std::array<")


def short(q):
    return q.replace("CDNS::", "")


def read_side(facts):
    cg = callgraph.CallGraph(facts)
    entries = []
    for f in facts.functions.values():
        q = f["qn"]
        if f.get("cls") == DEC or q in ("CDNS::CdnsReader::CdnsReader", "CDNS::CdnsReader::read_block") or \
                f.get("cls") == "CDNS::CdnsBlockRead" or (q.endswith("::string") and f.get("file", "").startswith(facts.repo)):
            entries.append(f)
    if len(entries) < 40:
        raise AnalysisBroken("R03", "only %d read-side entry points found" % len(entries))
    mains = [f for f in facts.functions.values() if f["qn"] == "main" and "/src/bin/" in f.get("file", "")]
    if len(mains) < 5:
        raise AnalysisBroken("R03", "only %d tool mains found" % len(mains))
    # the tools are entry points too: cdns-merge hands what it read to the *write* side (exporter, block, encoder,
    # Timestamp::get_time_offset), so that code also runs on values taken from untrusted bytes
    reach = {k: f for k, f in cg.reachable(entries + mains).items()
             if f.get("file", "").startswith(facts.repo + "/src/") and f["qn"] != "main"}
    return reach, mains, cg


def fname(f):
    if f["qn"] == "main":
        return "main@" + f["file"].split("/")[-1]
    return short(f["qn"])


# ------------------------------------------------------------------ R03.2 subscripts

def check_subscripts(run, rule, fns):
    n = 0
    for f in fns:
        env = Env(f["body"])
        seen = {}
        for st, g, loops in ir.guarded_statements_lc(f["body"], env):
            nodes = list(ir.walk(st["cond"])) if st.get("k") == "IfCond" else \
                ([] if st.get("k") in ("LoopHead", "SwitchHead") else list(ir.walk(st)))
            for nd in nodes:
                cont = idx = None
                if nd.get("k") == "OpCall" and nd.get("op") == "[]" and len(nd.get("args", [])) == 2:
                    cls = (nd.get("callee") or {}).get("cls") or ""
                    if cls.startswith(SEQ):
                        cont, idx = nd["args"][0], nd["args"][1]
                elif nd.get("k") == "Index":
                    bp = path(nd.get("base"))
                    if bp == ("this", "m_p"):
                        continue          # decoder window: R03.1
                    if bp and bp[0].startswith("p:argv"):
                        continue          # command line
                    bt = (unwrap(nd.get("base")) or {}).get("t", "")
                    cont, idx = nd.get("base"), nd.get("idx")
                    if "[" in bt and const_value(idx) is not None:
                        # fixed-size array with constant index: compare with the extent
                        try:
                            ext = int(bt[bt.index("[") + 1:bt.index("]")])
                        except ValueError:
                            ext = None
                        if ext is not None:
                            n += 1
                            run.ob(rule, "%s:%s[%s]" % (fname(f), show(cont), const_value(idx)), const_value(idx) < ext, f, nd.get("l", 0),
                                   "constant index inside the array extent %d" % ext)
                            continue
                if cont is None:
                    continue
                if nd.get("k") == "Index":
                    bt_ = (unwrap(nd.get("base")) or {}).get("t", "")
                    bu_ = ir.unwrap_all_casts(nd.get("base"))
                    if "[" not in bt_ and isinstance(bu_, dict):
                        bt_ = bu_.get("t", "") or bt_
                    if "[" in bt_ and "]" in bt_:
                        # a built-in array has no size() to compare with: the interval of the index against the extent
                        try:
                            ext_ = int(bt_[bt_.index("[") + 1:bt_.index("]")])
                        except ValueError:
                            ext_ = None
                        from .. import ranges as _rg
                        # (a subscript inside `c ? table[i] : d` is evaluated only when c holds)
                        g_here = g
                        for n2_, ps2_ in ir.walk_with_parents(st["cond"] if st.get("k") == "IfCond" else st):
                            if n2_ is nd:
                                for p2_ in ps2_:
                                    if isinstance(p2_, dict) and p2_.get("k") == "Cond":
                                        if any(y_ is nd for y_ in ir.walk(p2_.get("a"))):
                                            g_here = ir.f_and(g_here, ir.cond(p2_["c"], env))
                                        elif any(y_ is nd for y_ in ir.walk(p2_.get("b"))):
                                            g_here = ir.f_and(g_here, ir.f_not(ir.cond(p2_["c"], env)))
                        iv = _rg.rng(idx, _rg.Ctx(g_here, env, run.facts.enums, loops)) if ext_ is not None else None
                        if iv is not None:
                            n += 1
                            inside = iv[0] >= 0 and iv[1] < ext_
                            outside = iv[0] >= ext_ or iv[1] < 0
                            run.ob(rule, "%s:%s[%s]" % (fname(f), show(cont)[:40], show(idx)[:40]), True if inside else (False if outside else None), f, nd.get("l", 0),
                                   "index in [%d, %d], inside the array extent %d" % (iv[0], iv[1], ext_) if inside else
                                   "index %s ranges over [%d, %d]; the array has %d elements%s" % (
                                       show(idx)[:60], iv[0], iv[1], ext_, "" if outside else " (no bound on it was found on the path to the access)"))
                            continue
                cp = path(cont)
                # a by-value local copy has the size of its source (`std::string dname = wire_dname`)
                cpr = env.resolve_ref_path(cp) if cp else None
                if cpr == ("this", "m_p") or (cp and len(cp) == 1 and env.defs.get(cp[0]) is not None and
                                              path(ir.unwrap_all_casts(env.defs[cp[0]])) == ("this", "m_p")):
                    continue              # a copy of the decoder's cursor: the window is R03.1's business
                if cp and len(cp) == 1 and env.defs.get(cp[0]) is not None and "this.m_p" in show(env.defs[cp[0]]) and \
                        ((unwrap(cont) or {}).get("t") or "").rstrip().endswith("*"):
                    continue              # a pointer computed from a codec's cursor (m_p + n): the buffer discipline rules (R03.1, R06.4) own it
                n += 1
                ck = path_str(cpr) if cpr else show(cont)
                names = {ck}
                if cp:
                    names.add(path_str(cp))
                cidx = const_value(idx)
                base = "%s:%s[%s]" % (fname(f), path_str(cp) if cp else show(cont), cidx if cidx is not None else show(idx))
                seen[base] = seen.get(base, 0) + 1
                key = base if seen[base] == 1 else "%s#%d" % (base, seen[base])
                atoms = conjuncts(g)
                if cidx is not None:
                    ok = any((a[0] == "nonempty" and path_str(a[1]) in names) or
                             (a[0] == "cmp" and a[1] in ("<", "<=") and a[3] in ("size(%s)" % x for x in names) and a[2].lstrip("-").isdigit() and
                              int(a[2]) + (1 if a[1] == "<" else 0) > cidx) for a in atoms)
                    run.ob(rule, key, ok, f, nd.get("l", 0),
                           "constant index %d behind a non-emptiness/size test of %s" % (cidx, ck) if ok else
                           "element %d of %s is accessed without a dominating test that the container has that many elements (guard: %s)" % (cidx, ck, show_f(g)))
                else:
                    ik = int_key(idx, env)
                    ok = any(a[0] == "cmp" and a[1] == "<" and a[2] == ik and a[3] in ("size(%s)" % x for x in names) for a in atoms)
                    run.ob(rule, key, ok, f, nd.get("l", 0),
                           "index %s is compared with %s.size() on every path to the access" % (ik, ck) if ok else
                           "index %s into %s is not dominated by a comparison with %s.size(): out-of-bounds read/write for crafted input (guard: %s)" % (
                               ik, ck, ck, show_f(g)))
    run.floor(rule, 12, "sequence subscripts on the read side")
    run.info["subscripts"] = n


def check_optional_derefs(run, rule):
    """An optional is dereferenced (`*o`, `o->`, `o.value()`, `o.get()`) where it is known to hold a value.  Decided for the
    case that can be read off the guard: a dereference that sits under the *negated* presence test of the same optional (and
    the function does not assign it) is taken exactly when there is nothing to take - the field is skipped for every record
    that has it, and a record without it throws (value()) or is undefined behaviour (*, ->).  A dereference whose guard says
    nothing about the optional is left to the rules that own the function."""
    facts = run.facts
    n = ok_n = undecided = 0
    for f in sorted(facts.functions.values(), key=lambda f_: (f_.get("file", ""), f_.get("line", 0))):
        if not f.get("file", "").startswith(facts.repo) or f.get("body") is None:
            continue
        env = Env(f["body"])
        assigned = set()
        for x in ir.walk(f["body"]):
            if x.get("k") == "OpCall" and x.get("op") == "=" and x.get("args") and path(x["args"][0]):
                assigned.add(tuple(path(x["args"][0])))
            if x.get("k") == "Bin" and x.get("op") == "=" and path(x.get("lhs")):
                assigned.add(tuple(path(x["lhs"])))
            if x.get("k") == "MCall" and callee_name(x) in ("emplace", "reset", "swap") and path(x.get("recv")):
                assigned.add(tuple(path(x["recv"])))
        seen = {}
        for st, g, loops in ir.guarded_statements_lc(f["body"], env):
            nodes = list(ir.walk(st["cond"])) if st.get("k") == "IfCond" else \
                ([] if st.get("k") in ("LoopHead", "SwitchHead") else list(ir.walk(st)))
            for nd in nodes:
                tgt = None
                if nd.get("k") == "OpCall" and nd.get("op") in ("*", "->") and nd.get("args") and "optional<" in ((nd.get("callee") or {}).get("cls") or ""):
                    tgt, kind = nd["args"][0], nd["op"]
                elif nd.get("k") == "MCall" and callee_name(nd) in ("value", "get") and "optional<" in ((nd.get("callee") or {}).get("cls") or ""):
                    tgt, kind = nd.get("recv"), callee_name(nd) + "()"
                if tgt is None:
                    continue
                p_ = path(tgt)
                if p_ is None:
                    continue
                n += 1
                atoms = conjuncts(g)
                pos = any(isinstance(a, tuple) and a[0] == "present" and tuple(a[1]) == tuple(p_) for a in atoms)
                neg = any(isinstance(a, tuple) and a[0] == "not" and isinstance(a[1], tuple) and a[1][0] == "present" and tuple(a[1][1]) == tuple(p_) for a in atoms)
                if not pos and not neg:
                    # `o && f(*o)`: the dereference is the right operand of an && whose left operand tests o
                    root = st["cond"] if st.get("k") == "IfCond" else st
                    for n2_, ps2_ in ir.walk_with_parents(root):
                        if n2_ is nd:
                            for a_ in ps2_:
                                if isinstance(a_, dict) and a_.get("k") == "Bin" and a_.get("op") == "&&" and any(y_ is nd for y_ in ir.walk(a_.get("rhs"))):
                                    if any(isinstance(c_, tuple) and c_[0] == "present" and tuple(c_[1]) == tuple(p_) for c_ in conjuncts(ir.cond(a_["lhs"], env))):
                                        pos = True
                                if isinstance(a_, dict) and a_.get("k") == "Cond" and any(y_ is nd for y_ in ir.walk(a_.get("a"))):
                                    if any(isinstance(c_, tuple) and c_[0] == "present" and tuple(c_[1]) == tuple(p_) for c_ in conjuncts(ir.cond(a_["c"], env))):
                                        pos = True
                if not pos and not neg and st.get("k") not in ("IfCond",):
                    # `o = T(); o->read(..)`: a value was stored by an earlier statement of the same list, nothing emptied it since
                    for b_ in ir.walk(f["body"]):
                        lst_ = b_.get("s") if b_.get("k") == "Block" else None
                        if not lst_:
                            continue
                        i_ = [j for j, y in enumerate(lst_) if y is st or unwrap(y) is st]
                        if not i_:
                            continue
                        for y in reversed(lst_[:i_[0]]):
                            u_ = unwrap(y)
                            while isinstance(u_, dict) and u_.get("k") in ("Case", "Default") and isinstance(u_.get("sub"), dict):
                                u_ = unwrap(u_["sub"])          # (the first statement after a label hangs below the label)
                            stores = None
                            if isinstance(u_, dict) and u_.get("k") == "OpCall" and u_.get("op") == "=" and u_.get("args") and path(u_["args"][0]) == p_:
                                r_ = unwrap_all_casts(u_["args"][1])
                                stores = isinstance(r_, dict) and not ("none" in show(r_)) and "optional<" not in (r_.get("t") or "")
                            elif isinstance(u_, dict) and u_.get("k") == "MCall" and path(u_.get("recv")) == p_ and callee_name(u_) == "emplace":
                                stores = True
                            if stores is not None:
                                pos = pos or stores
                                break
                            if any(path(x) and tuple(path(x))[:len(p_)] == tuple(p_) and x is not u_ for x in ir.walk(y) if x.get("k") in ("OpCall", "MCall") for x in [x.get("args", [None])[0] if x.get("k") == "OpCall" else x.get("recv")] if isinstance(x, dict)):
                                break
                if pos:
                    ok_n += 1
                elif not neg:
                    undecided += 1          # (nothing on the path speaks about the optional: left to the rules that own the function)
                if neg and not pos and tuple(p_) not in assigned and not any(tuple(p_)[:k_] in assigned for k_ in range(1, len(p_))):
                    base = "%s:%s%s" % (fname(f), path_str(p_), ("." + kind) if kind.endswith(")") else " (%s)" % kind)
                    seen[base] = seen.get(base, 0) + 1
                    run.ob(rule, base if seen[base] == 1 else "%s#%d" % (base, seen[base]), False, f, nd.get("l", 0),
                           "%s is dereferenced where the guard says it is EMPTY (%s): the branch runs for exactly the records that lack the value - "
                           "%s - and is skipped for those that have it" % (
                               path_str(p_), show_f(g)[:120], "boost::bad_optional_access is thrown" if kind.endswith(")") else "undefined behaviour (an empty optional is read)"))
    run.ob(rule, "optional-dereferences", ok_n > 0, None, 0,
           "%d dereferences of optionals looked at, %d of them under a presence test of the same optional or straight after a store into it, %d not decided, none under the negated test" % (n, ok_n, undecided),
           nontrivial=False)
    run.info["optional_derefs"] = n


# ------------------------------------------------------------------ R03.3 taint to allocation

SOURCES = ("read_int", "read_unsigned", "read_array_start", "read_map_start", "read_integer")
SINKS = ("reserve", "resize")


def contains_source(e):
    for n in ir.walk(e):
        if n.get("k") == "MCall" and (n.get("callee") or {}).get("cls") == DEC and callee_name(n) in SOURCES:
            return True
    return False


def tainted_params(facts, fns):
    """(fn key, param name) pairs that receive a wire-controlled value at some call site (one level)."""
    out = set()
    bysig = {}
    for f in facts.functions.values():
        bysig[(f["qn"], tuple(f["sig"]))] = f
    for f in fns:
        env = Env(f["body"])
        tl = tainted_locals(f, env, set())
        for c in ir.calls_in(f["body"]):
            cal = c.get("callee") or {}
            g = bysig.get((cal.get("qn"), tuple(cal.get("sig", []))))
            if g is None or not g.get("file", "").startswith(facts.repo):
                continue
            for prm, a in zip(g["params"], c.get("args", [])):
                if contains_source(a) or any(path(x) and len(path(x)) == 1 and path(x)[0] in tl for x in ir.walk(a) if x.get("k") == "Ref"):
                    out.add((g["key"], prm["n"]))
    return out


def tainted_locals(f, env, tparams):
    tl = set("p:%s" % p for (k, p) in tparams if k == f["key"])
    changed = True
    while changed:
        changed = False
        for n in ir.walk(f["body"]):
            tgt = src = None
            if n.get("k") == "Decl":
                for v in n.get("vars", []):
                    if "n" in v and v.get("init") is not None:
                        key = "l:%s#%s" % (v["n"], v["id"])
                        if key not in tl and (contains_source(v["init"]) or refs_any(v["init"], tl)):
                            tl.add(key)
                            changed = True
            elif n.get("k") == "Bin" and n.get("op") in ("=", "+=", "-=", "*="):
                p = path(n["lhs"])
                if p and len(p) == 1 and p[0] not in tl and (contains_source(n["rhs"]) or refs_any(n["rhs"], tl)):
                    tl.add(p[0])
                    changed = True
    return tl


def refs_any(e, keys):
    for x in ir.walk(e):
        if x.get("k") == "Ref":
            p = path(x)
            if p and len(p) == 1 and p[0] in keys:
                return True
    return False


def check_taint(run, rule, fns):
    facts = run.facts
    tp = tainted_params(facts, fns)
    n = 0
    for f in fns:
        env = Env(f["body"])
        tl = tainted_locals(f, env, tp)
        for st, g, loops in ir.guarded_statements_lc(f["body"], env):
            if st.get("k") in ("IfCond", "LoopHead", "SwitchHead"):
                continue
            for c in ir.walk(st):
                sink_arg = None
                what = None
                if c.get("k") == "MCall" and callee_name(c) in SINKS and c.get("args"):
                    cls = (c.get("callee") or {}).get("cls") or ""
                    if cls.startswith("std::"):
                        sink_arg, what = c["args"][0], "%s.%s" % (show(c.get("recv")), callee_name(c))
                elif c.get("k") == "New" and c.get("size") is not None:
                    sink_arg, what = c["size"], "new[]"
                if sink_arg is None:
                    continue
                n += 1
                key = "%s:%s(%s)" % (fname(f), what, show(sink_arg))
                is_t = contains_source(sink_arg) or refs_any(sink_arg, tl)
                if not is_t:
                    run.ob(rule, key, True, f, c.get("l", 0), "size does not come from the wire", nontrivial=False)
                    continue
                # sanitiser: min(x, bound) or a dominating upper bound on every tainted variable in the expression
                # every tainted leaf of the size expression sits inside a min(x, <untainted bound>) call
                def tainted_leaves_outside_min(e, inside):
                    bad = []
                    if not isinstance(e, dict):
                        return bad
                    if e.get("k") == "Call" and callee_name(e) == "min":
                        args = e.get("args", [])
                        # a bound only counts if it cannot itself come from the input: a constant, or the size of something
                        # that already exists (members of read-side objects and parameters may hold values another reader took
                        # from the file: `min(length, max_block_items)` is one wire value capped by another)
                        def trusted_bound(a_):
                            if contains_source(a_) or refs_any(a_, tl):
                                return False
                            u_ = ir.unwrap_all_casts(a_)
                            if const_value(a_) is not None or const_value(u_) is not None:
                                return True
                            if isinstance(u_, dict) and u_.get("k") == "Ref" and u_.get("d") == "global" and u_.get("const"):
                                return True
                            if isinstance(u_, dict) and u_.get("k") == "MCall" and callee_name(u_) in ("size", "length", "capacity", "max_size") and not u_.get("args"):
                                return True
                            if isinstance(u_, dict) and u_.get("k") == "Bin" and u_.get("op") in ("+", "-", "*"):
                                return trusted_bound(u_["lhs"]) and trusted_bound(u_["rhs"])
                            return False
                        if any(trusted_bound(a) for a in args):
                            inside = True
                    if e.get("k") == "Ref":
                        pp = path(e)
                        if pp and len(pp) == 1 and pp[0] in tl and not inside:
                            bad.append(pp[0])
                    if e.get("k") == "MCall" and (e.get("callee") or {}).get("cls") == DEC and callee_name(e) in SOURCES and not inside:
                        bad.append(show(e))
                    for ch in ir.children(e):
                        bad += tainted_leaves_outside_min(ch, inside)
                    return bad
                sane = not tainted_leaves_outside_min(sink_arg, False)
                if not sane:
                    tv = [path_str(path(x)) for x in ir.walk(sink_arg) if x.get("k") == "Ref" and path(x) and len(path(x)) == 1 and path(x)[0] in tl]
                    atoms = conjuncts(g)
                    sane = bool(tv) and all(any(a[0] == "cmp" and a[1] in ("<", "<=") and a[2] == v and (a[3].isdigit() or "BUFFER_SIZE" in a[3] or a[3].startswith("size("))
                                                for a in atoms) for v in tv)
                run.ob(rule, key, sane, f, c.get("l", 0),
                       "wire-controlled length is bounded before the allocation" if sane else
                       "%s is sized by a length field read from the input (up to 2^64-1) without a dominating bound: a few input bytes request an enormous allocation" % what)
    run.floor(rule, 3, "allocation sinks on the read side")
    run.info["allocation_sinks"] = n


# ------------------------------------------------------------------ R03.4 recursion / VLA

def check_recursion(run, rule, reach, cg, mains):
    facts = run.facts
    sccs = cg.sccs(reach)
    n = 0
    for comp in sccs:
        fs = [reach[k] for k in comp]
        selfrec = len(comp) == 1 and comp[0] in cg.callees(fs[0])
        if len(comp) == 1 and not selfrec:
            continue
        n += 1
        # accepted only with a depth counter compared against a constant on the recursive path
        ok = False
        for f in fs:
            env = Env(f["body"])
            for st, g, loops in ir.guarded_statements(f["body"], env):
                if st.get("k") in ("IfCond", "LoopHead", "SwitchHead"):
                    continue
                for c in ir.calls_in(st):
                    tgt = cg.resolve(c)
                    if any(t["key"] in comp for t in tgt):
                        # some parameter passed as p+1 and p compared with a constant in the guard
                        for a in c.get("args", []):
                            ua = unwrap(a)
                            if isinstance(ua, dict) and ua.get("k") == "Bin" and ua.get("op") == "+" and const_value(ua["rhs"]) == 1:
                                pk = int_key(ua["lhs"], env)
                                if any(x[0] == "cmp" and x[1] in ("<", "<=") and x[2] == pk and x[3].isdigit() for x in conjuncts(g)):
                                    ok = True
        names = sorted(fname(f) for f in fs)
        run.ob(rule, "recursion:%s" % "+".join(names), ok, fs[0], fs[0]["line"],
               "recursion depth is bounded by a counter compared with a constant" if ok else
               "%s recurse%s with depth equal to the nesting depth of the input and no bound: a few megabytes of nested array heads overflow the stack" % (
                   ", ".join(names), "s" if len(names) == 1 else ""))
    if n == 0:
        run.ob(rule, "recursion:none", True, None, 0, "no recursive cycle on the read side", nontrivial=False)
    # VLAs / alloca on the read side
    for f in list(reach.values()) + mains:
        env = Env(f["body"])
        for d in ir.walk(f["body"]):
            if d.get("k") == "Decl":
                for v in d.get("vars", []):
                    if "vla" in v:
                        bound = v["vla"]
                        bp = path(bound) if bound else None
                        consts = []
                        finite = False

                        def value_set(e_, depth=0):
                            """finite set of constants an expression can take (constants, ?: of such, + - * of such)"""
                            u_ = ir.unwrap_all_casts(e_)
                            if not isinstance(u_, dict) or depth > 8:
                                return None
                            cv_ = const_value(e_)
                            if cv_ is None:
                                cv_ = const_value(u_)
                            if cv_ is not None and not isinstance(cv_, str):
                                return {int(cv_)}
                            if u_.get("k") == "Cond":
                                a_, b_ = value_set(u_.get("a"), depth + 1), value_set(u_.get("b"), depth + 1)
                                return (a_ | b_) if a_ is not None and b_ is not None else None
                            if u_.get("k") == "Bin" and u_.get("op") in ("+", "-", "*"):
                                a_, b_ = value_set(u_.get("lhs"), depth + 1), value_set(u_.get("rhs"), depth + 1)
                                if a_ is None or b_ is None or len(a_) * len(b_) > 64:
                                    return None
                                f_ = {"+": lambda x, y: x + y, "-": lambda x, y: x - y, "*": lambda x, y: x * y}[u_["op"]]
                                return set(f_(x, y) for x in a_ for y in b_)
                            return None
                        vs = value_set(bound) if bound is not None else None
                        if vs is not None:
                            finite = all(0 <= x <= 65536 for x in vs)
                            consts = sorted(vs)
                        elif bp and len(bp) == 1:
                            vals = []
                            for x in ir.walk(f["body"]):
                                if x.get("k") == "Bin" and x.get("op") == "=" and path(x["lhs"]) == bp:
                                    vals.append(const_value(x["rhs"]))
                                if x.get("k") == "Decl":
                                    for w in x.get("vars", []):
                                        if "n" in w and ("l:%s#%s" % (w["n"], w["id"]),) == bp and w.get("init") is not None:
                                            vals.append(const_value(w["init"]))
                            finite = bool(vals) and all(c is not None for c in vals) and bp[0] not in env.byref_only
                            consts = vals
                        run.ob(rule, "%s:vla(%s)" % (fname(f), v["n"]), finite, f, v.get("l", 0),
                               "variable-length array bound takes only the constants %s" % sorted(set(consts)) if finite else
                               "variable-length array %s[%s] on the stack with a bound that is not a finite set of constants" % (v["n"], show(bound)))
        for c in ir.calls_in(f["body"]):
            if callee_name(c) in ("alloca", "__builtin_alloca"):
                run.ob(rule, "%s:alloca" % fname(f), False, f, c.get("l", 0), "alloca on the read side")
    if not any(o.rule == rule and ":vla(" in o.key for o in run.obs):
        run.ob(rule, "vla:none", True, None, 0, "no variable-length array in the %d functions on the read side" % (len(reach) + len(mains)), nontrivial=False)
    run.floor(rule, 2, "recursion + VLA obligations")


# ------------------------------------------------------------------ R03.6 inet_ntop

def check_inet_ntop(run, rule, fns):
    n = 0
    for f in fns:
        env = Env(f["body"])
        for st, g, loops in ir.guarded_statements(f["body"], env):
            if st.get("k") in ("IfCond", "LoopHead", "SwitchHead"):
                continue
            for c in ir.calls_in(st):
                if callee_name(c) != "inet_ntop":
                    continue
                n += 1
                src = unwrap_all_casts(c["args"][1])
                sp = path(src.get("recv")) if isinstance(src, dict) and src.get("k") == "MCall" and callee_name(src) in ("data", "c_str") else None
                if sp is None:
                    run.ob(rule, "%s:inet_ntop" % fname(f), None, f, c.get("l", 0), "source buffer %s is not <string>.data()" % show(c["args"][1]))
                    continue
                sk = "size(%s)" % path_str(env.resolve_ref_path(sp))
                ok = any(a[0] == "cmp" and sk in (a[2], a[3]) for a in conjuncts(g))
                run.ob(rule, "%s:inet_ntop(%s)" % (fname(f), path_str(sp)), ok, f, c.get("l", 0),
                       "the address length is tested before inet_ntop reads 4/16 bytes from it" if ok else
                       "inet_ntop reads 4 (AF_INET) or 16 (AF_INET6) bytes from %s.data() but the string's length is never compared with the family's size on this path: "
                       "a shorter address taken from the file is over-read" % path_str(sp))
    run.floor(rule, 1, "inet_ntop call sites")


# ------------------------------------------------------------------ R03.7 fails only by exception

READ_API = ("CDNS::CdnsReader::CdnsReader", "CDNS::CdnsReader::read_block", "CDNS::CdnsBlockRead::read_generic_qr",
            "CDNS::CdnsBlockRead::read_generic_aec", "CDNS::CdnsBlockRead::read_generic_mm", "CDNS::CdnsBlockRead::read")


def check_exceptions(run, rule, reach, mains):
    facts = run.facts
    nthrow = 0
    bad = []
    for f in facts.functions.values():
        if not f.get("file", "").startswith(facts.repo + "/src/"):
            continue
        for n in ir.walk(f["body"]):
            if n.get("k") == "Throw" and not n.get("rethrow"):
                nthrow += 1
                if not n.get("stdexc"):
                    bad.append((f, n))
    for f, n in bad:
        run.ob(rule, "%s:throw(%s)" % (fname(f), n.get("tt")), False, f, n.get("l", 0),
               "throws %s, which is not derived from std::exception: callers catching std::exception& terminate" % n.get("tt"))
    run.ob(rule, "throws-derive-from-std-exception", not bad, None, 0, "all %d throw sites throw std::exception-derived types" % nthrow, nontrivial=False)
    run.info["throw_sites"] = nthrow
    # tool mains
    for m in mains:
        sites = []
        for n, parents in ir.walk_with_parents(m["body"]):
            if n.get("k") in ("Call", "MCall", "Construct") and (callee_qn(n) in READ_API or (callee_qn(n) or "").endswith("::string") and ((n.get("callee") or {}).get("inrepo"))):
                tries = [p for p in parents if p.get("k") == "Try"]
                ok = False
                for t in tries:
                    # the call must be in the try *body*, and a handler for std::exception& or ... must end normally
                    if any(x is n for x in ir.walk(t.get("body"))):
                        for h in t.get("handlers", []):
                            ht = h.get("t", "")
                            if ht in ("...", "std::exception &", "const std::exception &"):
                                leaves = any(x.get("k") == "Throw" for x in ir.walk(h.get("body"))) or \
                                    any(callee_name(c) in ("abort", "terminate", "_exit") for c in ir.calls_in(h.get("body")))
                                if not leaves:
                                    ok = True
                sites.append((n, ok))
        for n, ok in sites:
            if not ok:
                run.ob(rule, "%s:%s-outside-try" % (fname(m), callee_name(n)), False, m, n.get("l", 0),
                       "%s is called outside a try block with a std::exception/... handler that returns normally: malformed input terminates the tool by an uncaught exception" % callee_name(n))
        run.ob(rule, "%s:read-calls-in-try" % fname(m), all(ok for n, ok in sites) and bool(sites), m, m["line"],
               "all %d calls into the read API are inside try { } catch (std::exception&) that ends in a normal return" % len(sites) if sites else "no read-API call found in this tool")
    run.floor(rule, 6, "throw discipline + 5 tools")


# ------------------------------------------------------------------ R03.8 element references and container growth

GROW = {
    "vector": ("push_back", "emplace_back", "insert", "emplace", "resize", "reserve", "shrink_to_fit", "assign", "clear", "erase",
               "pop_back", "swap", "operator="),
    "basic_string": ("push_back", "append", "insert", "resize", "reserve", "shrink_to_fit", "assign", "clear", "erase", "pop_back",
                     "swap", "operator=", "operator+="),
    "deque": ("push_back", "push_front", "emplace_back", "emplace_front", "insert", "emplace", "resize", "clear", "erase", "pop_back",
              "pop_front", "swap", "operator=", "assign"),
    # node containers: references to elements survive insertion; only removal of the element (or of everything) kills them
    "unordered_map": ("clear", "erase", "swap", "operator="),
    "map": ("clear", "erase", "swap", "operator="),
}
ELEM = ("back", "front", "at", "operator[]", "data", "begin", "end", "find", "cbegin", "cend", "rbegin", "rend")


def container_kind(t):
    t = (t or "").replace("const ", "")
    for k in GROW:
        if t.startswith("std::%s<" % k):
            return k
    return None


def element_source(init):
    """(container path, container kind) when init denotes an element / iterator / pointer into a standard container."""
    e = ir.unwrap_all_casts(unwrap(init))
    for _ in range(4):
        if not isinstance(e, dict):
            return None
        k = e.get("k")
        if k == "Un" and e.get("op") in ("*", "&"):
            e = ir.unwrap_all_casts(unwrap(e.get("e")))
            continue
        if k == "OpCall" and e.get("op") in ("*", "->") and e.get("args"):
            e = ir.unwrap_all_casts(unwrap(e["args"][0]))
            continue
        if k == "Member":
            e = ir.unwrap_all_casts(unwrap(e.get("base")))
            continue
        break
    if not isinstance(e, dict):
        return None
    recv = None
    if e.get("k") == "MCall" and callee_name(e) in ELEM:
        recv = e.get("recv")
    elif e.get("k") == "OpCall" and e.get("op") == "[]" and e.get("args"):
        recv = e["args"][0]
    if recv is None:
        return None
    kind = container_kind((unwrap(recv) or {}).get("t"))
    p = path(recv)
    if kind is None or p is None:
        return None
    if kind in ("unordered_map", "map") and e.get("k") == "OpCall":
        return p, kind            # m[k] yields a reference that survives later insertions
    return p, kind


def check_invalidation(run, rule, facts, only_cls=None, floor=10):
    """A reference, pointer or iterator into a vector / string is dead after anything that may reallocate or shrink the
    container; a later use reads or writes freed memory.  Flow order as in the normalisation (a growth call between the
    binding and a use, or in a loop that contains the use but not the binding)."""
    n = 0
    for f in sorted(facts.functions.values(), key=lambda f: (f.get("file", ""), f.get("line", 0))):
        if not f.get("file", "").startswith(facts.repo + "/src/") or f.get("body") is None:
            continue
        if only_cls is not None and f.get("cls") != only_cls:
            continue
        body = f["body"]
        order, loops_of = {}, {}
        cnt = [0]

        def number(x, loops):
            if isinstance(x, list):
                for y in x:
                    number(y, loops)
                return
            if not isinstance(x, dict):
                return
            cnt[0] += 1
            order[id(x)] = cnt[0]
            loops_of[id(x)] = loops
            l2 = loops + (id(x),) if x.get("k") in ("While", "Do", "For", "RangeFor") else loops
            for c in ir.children(x):
                number(c, l2)
        number(body, ())
        # (block, index) chain of every node: a call followed, in its block, by a statement that always leaves
        # (continue / break / return / throw) does not reach what comes after that block in the same iteration
        chain = {}
        in_switch = {}

        def chains(x, ch, sw):
            if isinstance(x, dict):
                chain[id(x)] = ch
                if x.get("k") == "Switch":
                    sw = True
                elif x.get("k") in ("While", "Do", "For", "RangeFor"):
                    sw = False
                if x.get("k") == "Block":
                    in_switch[id(x)] = sw
                    for i_, s_ in enumerate(x.get("s", [])):
                        chains(s_, ch + ((x, i_),), sw)
                else:
                    for c_ in ir.children(x):
                        chains(c_, ch, sw)
        chains(body, (), False)

        def leaves(st_, blk):
            k_ = st_.get("k")
            if k_ in ("Return", "Continue") or unwrap(st_).get("k") == "Throw":
                return True
            if k_ == "Break":
                return not in_switch.get(id(blk), False)      # a break inside a switch only leaves the switch
            if k_ == "Block":
                return any(leaves(y_, st_) for y_ in st_.get("s", []))
            if k_ == "If":
                return st_.get("else") is not None and leaves(st_["then"], blk) and leaves(st_["else"], blk)
            return False

        def reaches(w, u):
            for (blk, i_) in reversed(chain.get(id(w), ())):
                sts_ = blk.get("s", [])
                for j_ in range(i_ + 1, len(sts_)):
                    if leaves(sts_[j_], blk):
                        inside = any((b_ is blk and i_ <= k_ <= j_) for (b_, k_) in chain.get(id(u), ()))
                        if not inside:
                            return False
                        break
            return True
        binds = []
        for d in ir.walk(body):
            if d.get("k") == "Decl":
                for v in d.get("vars", []):
                    if "n" not in v or v.get("init") is None:
                        continue
                    t = v.get("t", "")
                    if not (v.get("ref") or t.endswith("*") or "iterator" in t):
                        continue
                    src = element_source(v["init"])
                    if src is not None:
                        binds.append((d, v, src))
            if d.get("k") == "RangeFor" and isinstance(d.get("var"), dict) and d["var"].get("ref"):
                rp = path(d.get("range"))
                kind = container_kind((unwrap(d.get("range")) or {}).get("t"))
                if rp is not None and kind is not None:
                    binds.append((d.get("body") or d, d["var"], (rp, kind)))
        if not binds:
            continue
        grows = []
        for c in ir.walk(body):
            if c.get("k") in ("MCall", "OpCall") and id(c) in order:
                recv = c.get("recv") if c.get("k") == "MCall" else (c.get("args") or [None])[0]
                rp = path(recv) if recv is not None else None
                kind = container_kind((unwrap(recv) or {}).get("t")) if recv is not None else None
                nm = callee_name(c) or ("operator" + c.get("op", "") if c.get("k") == "OpCall" else "")
                if rp is not None and kind is not None and nm in GROW[kind] and not (c.get("callee") or {}).get("const"):
                    grows.append((order[id(c)], rp, loops_of[id(c)], nm, c))
        for d, v, (cp, kind) in binds:
            n += 1
            d_o = order.get(id(d), 0)
            d_loops = set(loops_of.get(id(d), ()))
            if d.get("k") != "Decl":
                d_loops = d_loops | {lid for lid in []}
            hit = None
            for u in ir.walk(body):
                if u.get("k") == "Ref" and u.get("d") == "local" and u.get("id") == v.get("id") and order.get(id(u), 0) > d_o:
                    u_o = order[id(u)]
                    u_loops = set(loops_of[id(u)])
                    for (w_o, wp, w_loops, nm, node) in grows:
                        if wp != cp:
                            continue
                        between = d_o < w_o < u_o
                        carried = any(L in u_loops and L not in d_loops for L in w_loops)
                        if (between and reaches(node, u)) or carried:
                            hit = (u, nm, node)
                            break
                if hit:
                    break
            key = "%s:%s->%s" % (fname(f), v.get("n"), ir.path_str(cp))
            run.ob(rule, key, hit is None, f, (hit[0] if hit else d).get("l", f["line"]) or f["line"],
                   "no growth of %s between the binding of `%s` and its uses" % (ir.path_str(cp), v.get("n")) if hit is None else
                   "`%s` refers into %s (bound at line %s) and is used at line %s after %s.%s() at line %s: the call may reallocate the "
                   "container, the reference then points into freed memory" % (
                       v.get("n"), ir.path_str(cp), d.get("l"), hit[0].get("l"), ir.path_str(cp), hit[1], hit[2].get("l")))
    run.floor(rule, floor, "references / iterators into standard containers")


def member_element_source(facts, e, depth=0):
    """element_source through accessors: `&m_preamble.get_block_parameters(i)` is an element of m_preamble.m_block_parameters
    when the accessor returns (a reference to) an element of a container member of its object."""
    src = element_source(e)
    if src is not None:
        return src
    u = ir.unwrap_all_casts(unwrap(e))
    for _ in range(3):
        if isinstance(u, dict) and u.get("k") == "Un" and u.get("op") in ("&", "*"):
            u = ir.unwrap_all_casts(unwrap(u.get("e")))
    if not (isinstance(u, dict) and u.get("k") == "MCall" and isinstance(u.get("callee"), dict) and u["callee"].get("inrepo")) or depth > 2:
        return None
    rp = path(u.get("recv"))
    ret = (u["callee"].get("ret") or "")
    if rp is None or not (ret.endswith("&") or ret.endswith("*") or "iterator" in ret):
        return None
    out = None
    for g in facts.fns(u["callee"].get("qn")):
        if g.get("sig") != u["callee"].get("sig") or g.get("body") is None:
            continue
        for r in ir.walk(g["body"]):
            if r.get("k") == "Return" and r.get("e") is not None:
                s_ = member_element_source(facts, r["e"], depth + 1)
                if s_ is None:
                    return None
                cp, kind = s_
                if not cp or cp[0] != "this":
                    return None
                cand = (tuple(rp) + tuple(cp[1:]), kind)
                if out is not None and out != cand:
                    return None
                out = cand
    return out


def grows_of(facts, fn, depth=0, seen=None):
    """[(path relative to this, method name, node)] for container members (also of member objects) that fn may reallocate,
    directly or through in-repo member functions called on itself / on member objects (bounded depth)."""
    seen = seen if seen is not None else set()
    if fn.get("body") is None or fn["key"] in seen or depth > 3:
        return []
    seen = seen | {fn["key"]}
    out = []
    for c in ir.walk(fn["body"]):
        if c.get("k") not in ("MCall", "OpCall"):
            continue
        recv = c.get("recv") if c.get("k") == "MCall" else (c.get("args") or [None])[0]
        rp = path(recv) if recv is not None else None
        if not rp or rp[0] != "this":
            continue
        kind = container_kind((unwrap(recv) or {}).get("t"))
        nm = callee_name(c) or ("operator" + c.get("op", "") if c.get("k") == "OpCall" else "")
        cal = c.get("callee") or {}
        if kind is not None and nm in GROW[kind] and not cal.get("const"):
            out.append((tuple(rp), nm, c))
        elif cal.get("inrepo") and not cal.get("const") and c.get("k") == "MCall":
            for g in facts.fns(cal.get("qn")):
                if g.get("sig") == cal.get("sig"):
                    for (cp, nm2, node) in grows_of(facts, g, depth + 1, seen):
                        out.append((tuple(rp) + tuple(cp[1:]), "%s -> %s" % (nm, nm2), c))
    return out


def check_member_pointers(run, rule, classes=None, floor=1):
    """A pointer / iterator *member* that refers to an element of a container owned by the same object dies when any
    member function lets that container reallocate (push_back, insert, assignment ..) and does not re-seat the pointer
    before it returns.  The owner is found through accessor functions as well (`&m_preamble.get_block_parameters(i)`)."""
    facts = run.facts
    n = 0
    for q, rec in sorted(facts.records.items()):
        if not (rec.get("file") or "").startswith(facts.repo + "/src/") or "/src/bin/" in (rec.get("file") or ""):
            continue
        if classes is not None and q not in classes:
            continue
        ptrs = [f_ for f_ in rec.get("fields", []) if (f_.get("t") or "").endswith("*") or "iterator" in (f_.get("t") or "") or f_.get("ref")]
        if not ptrs:
            continue
        methods = [f for f in facts.functions.values() if f.get("cls") == q and f.get("body") is not None and not f.get("flattened")]
        for fl in ptrs:
            # where the member is pointed somewhere
            targets = set()
            stores = {}
            for f in methods:
                for i_ in f.get("inits", []) or []:
                    if i_.get("member") == fl["n"] and i_.get("init") is not None:
                        s_ = member_element_source(facts, i_["init"])
                        if s_:
                            targets.add(s_)
                for lp, rhs, node in consumption.assignment_targets(ir.stmts(f["body"])):
                    if lp == ("this", fl["n"]):
                        s_ = member_element_source(facts, rhs)
                        if s_ is None:
                            # through a local that was bound to the element just before
                            u_ = ir.unwrap_all_casts(rhs)
                            if isinstance(u_, dict) and u_.get("k") == "Ref" and u_.get("d") == "local":
                                d_ = Env(f["body"]).defs.get(path(u_)[0])
                                if d_ is not None:
                                    s_ = member_element_source(facts, d_)
                        if s_:
                            targets.add(s_)
                        stores.setdefault(f["key"], []).append(node)
            targets = set(t_ for t_ in targets if t_[0] and t_[0][0] == "this")
            if not targets:
                continue
            for (cp, kind) in sorted(targets):
                n += 1
                bad = None

                def events(f, depth=0, seen=frozenset()):
                    """in program order: ('grow', name, node) / ('seat', None, node); calls of the object's own member functions
                    are followed, calls on member objects are summarised by grows_of"""
                    if f.get("body") is None or f["key"] in seen or depth > 3:
                        return []
                    out_ = []
                    own_stores = set(id(x) for x in stores.get(f["key"], []))
                    for x in ir.walk(f["body"]):
                        if id(x) in own_stores:
                            out_.append(("seat", None, x))
                        if x.get("k") not in ("MCall", "OpCall"):
                            continue
                        recv = x.get("recv") if x.get("k") == "MCall" else (x.get("args") or [None])[0]
                        rp = path(recv) if recv is not None else None
                        cal = x.get("callee") or {}
                        nm = callee_name(x) or ("operator" + x.get("op", "") if x.get("k") == "OpCall" else "")
                        if rp == ("this",) and cal.get("inrepo") and x.get("k") == "MCall":
                            for g in facts.fns(cal.get("qn")):
                                if g.get("sig") == cal.get("sig"):
                                    out_ += [(k_, ("%s -> %s" % (nm, n_)) if n_ else None, x) for k_, n_, _ in events(g, depth + 1, seen | {f["key"]})]
                        elif rp and rp[0] == "this" and len(rp) > 1:
                            knd = container_kind((unwrap(recv) or {}).get("t"))
                            if tuple(rp) == tuple(cp) and knd == kind and nm in GROW[kind] and not cal.get("const"):
                                out_.append(("grow", nm, x))
                            elif cal.get("inrepo") and not cal.get("const") and x.get("k") == "MCall" and tuple(cp[:len(rp)]) == tuple(rp):
                                for g in facts.fns(cal.get("qn")):
                                    if g.get("sig") == cal.get("sig"):
                                        for (gp, nm2, node2) in grows_of(facts, g):
                                            if tuple(rp) + tuple(gp[1:]) == tuple(cp) and nm2.split(" -> ")[-1] in GROW[kind]:
                                                out_.append(("grow", "%s -> %s" % (nm, nm2), x))
                    return out_
                for f in methods:
                    if f.get("dtor"):
                        continue
                    ev = events(f)
                    last_grow = max([i for i, e_ in enumerate(ev) if e_[0] == "grow"], default=None)
                    if last_grow is not None and not any(e_[0] == "seat" for e_ in ev[last_grow + 1:]):
                        bad = (f, ev[last_grow][2], ev[last_grow][1])
                        break
                key = "%s.%s->%s" % (short(q) if "short" in globals() else q.split("::")[-1], fl["n"], ir.path_str(cp))
                run.ob(rule, key, bad is None, bad[0] if bad else rec.get("file"), (bad[1].get("l") if bad else rec.get("line")) or 0,
                       "every member function that can reallocate %s re-seats %s afterwards" % (ir.path_str(cp), fl["n"]) if bad is None else
                       "%s points into %s; %s calls %s on it and returns with %s still pointing at the old storage: the next use reads freed memory" % (
                           fl["n"], ir.path_str(cp), bad[0]["qn"].split("::")[-1], bad[2], fl["n"]))
    run.floor(rule, floor, "pointer / iterator members into own containers")
    return n


# ------------------------------------------------------------------ R03.9 a cursor that indexes the input moves forward

def check_progress(run, rule, fns, facts):
    """`pos += step` inside a loop that subscripts with pos: the step must be at least 1 for every input byte, otherwise a
    crafted length byte keeps the loop on the same position for ever (time not proportional to the input)."""
    n = 0
    for f in fns:
        env = Env(f["body"])
        env.def_guard = {}
        for st, g, loops in ir.guarded_statements_lc(f["body"], env):
            if st.get("k") in ("IfCond", "LoopHead", "SwitchHead") or not loops:
                continue
            for x in ir.walk(st):
                if not (x.get("k") == "Bin" and x.get("op") == "+=" and const_value(x.get("rhs")) is None):
                    continue
                vp = path(x.get("lhs"))
                if not vp or len(vp) != 1 or not (vp[0].startswith("l:") or vp[0].startswith("p:")):
                    continue
                lp = [l_ for l_ in loops if l_.get("k") in ("While", "Do", "For")]
                if not lp:
                    continue
                used_as_index = False
                for y in ir.walk(lp[-1]):
                    idx = None
                    if y.get("k") == "Index":
                        idx = y.get("idx")
                    elif y.get("k") == "OpCall" and y.get("op") == "[]" and len(y.get("args", [])) == 2:
                        idx = y["args"][1]
                    elif y.get("k") == "MCall" and callee_name(y) == "at" and y.get("args"):
                        idx = y["args"][0]
                    if idx is not None and path(idx) == vp:
                        used_as_index = True
                if not used_as_index:
                    continue
                r = ranges.rng(x["rhs"], ranges.Ctx(g, env, facts.enums, loops))
                n += 1
                ok = r is not None and r[0] >= 1
                run.ob(rule, "%s:%s+=%s" % (fname(f), vp[0].split("#")[0][2:], show(x["rhs"])[:40]), ok, f, x.get("l", 0),
                       "the cursor advances by %s >= 1 in every round" % (list(r) if r else "?") if ok else
                       "the cursor `%s` advances by %s, whose range %s includes values <= 0: a crafted byte makes the loop stay where it "
                       "is (or go back) and never end" % (vp[0].split("#")[0][2:], show(x["rhs"])[:60], list(r) if r else "unknown"))
    run.floor(rule, 1, "input cursors advanced by a computed step")


def check_preamble_nonempty(run, rule):
    """The file preamble a reader accepts has at least one set of block parameters: CdnsExporter's constructor, the block
    reader and the tools take entry 0 (or the entry a block names) without a handler around them, relying on it.  In
    FilePreamble::read the container the input's entries are appended to is tested for emptiness on every path that does
    not throw, and that container is what m_block_parameters holds afterwards (directly, or committed by swap / move /
    assignment after the test)."""
    facts = run.facts
    f = facts.fn("CDNS::FilePreamble::read", rule=rule)
    env = Env(f["body"])
    final = ("this", "m_block_parameters")
    appended = set()
    for c in ir.calls_in(f["body"]):
        if c.get("k") == "MCall" and callee_name(c) in ("push_back", "emplace_back", "insert", "emplace") and path(c.get("recv")):
            rp = path(c.get("recv"))
            if env is not None:
                rp = env.resolve_ref_path(rp)
            appended.add(rp)
    for lam in [n for n in ir.walk(f["body"]) if n.get("k") == "Lambda"]:
        for c in ir.calls_in(lam.get("body")):
            if c.get("k") == "MCall" and callee_name(c) in ("push_back", "emplace_back", "insert", "emplace") and path(c.get("recv")):
                appended.add(path(c.get("recv")))
    order = {id(x): i for i, x in enumerate(ir.walk(f["body"]))}
    known = {}          # container path -> position of the test after which it is known non-empty
    for st in ir.stmts(f["body"]):
        if st.get("k") == "If":
            for a in conjuncts(ir.fallthrough(st, env)):
                if a[0] == "nonempty":
                    known[tuple(a[1])] = order[id(st)]
    commits = []
    for lp, rhs, node in consumption.assignment_targets(ir.stmts(f["body"])):
        if lp == final and path(unwrap_all_casts(rhs)):
            commits.append((path(unwrap_all_casts(rhs)), order[id(node)]))
    for c in ir.calls_in(f["body"]):
        if c.get("k") == "MCall" and callee_name(c) == "swap" and len(c.get("args", [])) == 1:
            a, b = path(c.get("recv")), path(c["args"][0])
            if a == final and b:
                commits.append((b, order[id(c)]))
            elif b == final and a:
                commits.append((a, order[id(c)]))
    ok, why = None, "where the accepted block parameters come from is not understood (appended to %s)" % sorted(path_str(a) for a in appended)
    if final in appended:
        ok = final in known
        why = "the block parameters read from the input are tested for emptiness before the preamble is accepted" if ok else \
            "m_block_parameters is filled from the input but an empty array is not refused: the exporter's constructor and the tools take entry 0 of an accepted preamble"
    elif commits:
        src, at = commits[-1]
        if src in appended:
            ok = src in known and known[src] < at
            why = "the entries are read aside, tested for emptiness and then committed to m_block_parameters" if ok else \
                "the entries read from the input go to %s, which is committed to m_block_parameters without having been tested for emptiness%s: a preamble " \
                "with an empty block-parameters array is accepted, and cdns-merge / CdnsExporter then take entry 0 of it outside any handler" % (
                    path_str(src), (" (the test looks at %s)" % ", ".join(sorted(path_str(k) for k in known))) if known else "")
    run.ob(rule, "FilePreamble::read:block-parameters-non-empty", ok, f, f["line"], why)
    run.floor(rule, 1, "accepted preamble has block parameters")


def check(run):
    facts = run.facts
    reach, mains, cg = read_side(facts)
    fns = sorted(list(reach.values()) + mains, key=lambda f: (f["file"], f["line"]))
    run.info["read_side_functions"] = len(fns)
    C05.check_refill(run, "R03.1")
    C05.check_typestate(run, "R03.1")
    run.floors.pop("R03.1", None)
    run.floor("R03.1", 10, "decoder window obligations")
    check_subscripts(run, "R03.2", fns)
    check_optional_derefs(run, "R03.12")
    check_taint(run, "R03.3", fns)
    check_recursion(run, "R03.4", reach, cg, mains)
    # R03.5
    n5 = 0
    for f in fns:
        seen = {}
        repo_globals = set(v["qn"] for v in facts.vars)
        for node, ok, txt in ranges.check_function(f, facts.enums):
            foreign = [x for x in ir.walk(node) if x.get("k") == "Ref" and x.get("d") == "global" and x.get("qn") not in repo_globals]
            if foreign:
                continue      # getopt's optind etc.: command-line state, not input bytes (stated assumption)
            n5 += 1
            base = "%s:%s" % (fname(f), show(node)[:50])
            seen[base] = seen.get(base, 0) + 1
            run.ob("R03.5", base if seen[base] == 1 else "%s#%d" % (base, seen[base]), ok, f, node.get("l", 0), txt)
    run.floor("R03.5", 8, "signed arithmetic / shifts / divisions on the read side")
    check_inet_ntop(run, "R03.6", fns)
    check_invalidation(run, "R03.8", facts)
    check_progress(run, "R03.9", fns, facts)
    check_exceptions(run, "R03.7", reach, mains)
    check_preamble_nonempty(run, "R03.10")
    check_member_pointers(run, "R03.11", floor=1)
