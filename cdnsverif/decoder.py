"""Decoder analyses: A8 window typestate, read_to_buffer refill domain, skip_item structure."""
from . import ir, minieval
from .ir import (cond, conjuncts, path, path_str, unwrap, unwrap_all_casts, callee_name, callee_qn, const_value,
                 show, show_f, Env, int_key)

DEC = "CDNS::CdnsDecoder"
FRESHENERS = ("read_to_buffer", "peek_type")


def dec_fns(facts):
    return sorted([f for f in facts.functions.values() if f.get("cls") == DEC], key=lambda f: (f["file"], f["line"]))


def is_mp_deref(n):
    """m_p[k] or *m_p -> offset (int or None) else False"""
    if n.get("k") == "Index" and path(n.get("base")) == ("this", "m_p"):
        return ("idx", const_value(n.get("idx")))
    if n.get("k") == "Un" and n.get("op") == "*" and path(n.get("e")) == ("this", "m_p"):
        return ("idx", 0)
    return None


def is_mp_move(n):
    if n.get("k") == "Un" and n.get("op") in ("post++", "pre++", "post--", "pre--") and path(n.get("e")) == ("this", "m_p"):
        return True
    if n.get("k") == "Bin" and n.get("op") in ("+=", "-=", "=") and path(n.get("lhs")) == ("this", "m_p"):
        return True
    return False


class Typestate:
    """Fresh = a refill check ran and m_p has not moved since (m_p < m_end holds, provided read_to_buffer
    keeps its contract, which R05.1 decides separately)."""

    def __init__(self, fn):
        self.fn = fn
        self.derefs = []    # (node, state ok?, line, why)
        self.moves = []     # unit moves (m_p++): (node, ok, line, why)

    def expr(self, e, st):
        """Evaluate expression in evaluation order; returns state after."""
        if not isinstance(e, dict):
            return st
        k = e.get("k")
        if k == "Lambda":
            return st
        if k == "Bin" and e.get("op") in ("&&", "||"):
            s1 = self.expr(e["lhs"], st)
            s2 = self.expr(e["rhs"], s1)
            return "Fresh" if (s1 == "Fresh" and s2 == "Fresh") else "Stale"
        if k == "Cond":
            s1 = self.expr(e["c"], st)
            a = self.expr(e["a"], s1)
            b = self.expr(e["b"], s1)
            return "Fresh" if a == b == "Fresh" else "Stale"
        d = is_mp_deref(e)
        if d is not None:
            # evaluate sub-expressions first
            for c in ir.children(e):
                st = self.expr(c, st)
            ok = st == "Fresh" and d[1] == 0
            if d[1] is None:
                self.computed_index = getattr(self, "computed_index", set()) | {id(e)}
            self.derefs.append((e, ok, e.get("l", 0),
                                "read through m_p directly after a refill check" if ok else
                                ("m_p[%s] read without a preceding read_to_buffer()/peek_type() since m_p last moved" % d[1]
                                 if d[1] == 0 else "m_p[%s]: only offset 0 is covered by the refill check" % d[1])))
            return st
        if is_mp_move(e):
            for c in ir.children(e):
                st = self.expr(c, st)
            if e.get("k") == "Un" and e.get("op") in ("post++", "pre++"):
                # a unit step is inside the window only directly after a refill check (m_p < m_end)
                self.moves.append((e, st == "Fresh", e.get("l", 0),
                                   "m_p++ directly after a refill check (m_p < m_end holds)" if st == "Fresh" else
                                   "m_p++ without a refill check since m_p last moved: the cursor can step past m_end"))
            return "Stale"
        if k in ("MCall", "Call"):
            for c in ir.children(e):
                st = self.expr(c, st)
            cal = e.get("callee") or {}
            if cal.get("cls") == DEC:
                return "Fresh" if callee_name(e) in FRESHENERS else "Stale"
            return st
        for c in ir.children(e):
            st = self.expr(c, st)
        return st

    def stmt(self, s, st):
        if s is None:
            return st
        k = s.get("k")
        if k == "Block":
            for x in s.get("s", []):
                st = self.stmt(x, st)
                if ir.always_leaves(x):
                    return "Left"
            return st
        if k == "If":
            s0 = self.expr(s["cond"], st)
            a = self.stmt(s["then"], s0)
            b = self.stmt(s.get("else"), s0) if s.get("else") is not None else s0
            outs = [x for x in (a, b) if x != "Left"]
            if not outs:
                return "Left"
            return "Fresh" if all(x == "Fresh" for x in outs) else "Stale"
        if k in ("While", "For", "Do"):
            if k == "For" and s.get("init") is not None:
                st = self.stmt(s["init"], st)
            # first iteration from the entry state, further iterations from Stale (conservative)
            for entry in (st, "Stale"):
                s0 = entry
                if k != "Do" and s.get("cond") is not None:
                    s0 = self.expr(s["cond"], s0)
                s1 = self.stmt(s.get("body"), s0)
                if k == "For" and s.get("inc") is not None and s1 != "Left":
                    self.expr(s["inc"], s1)
                if k == "Do":
                    self.expr(s["cond"], s1 if s1 != "Left" else "Stale")
            return "Stale"
        if k == "RangeFor":
            self.stmt(s.get("body"), "Stale")
            return "Stale"
        if k == "Switch":
            s0 = self.expr(s["cond"], st)
            for x in ir.stmts(s.get("body")):
                self.stmt(x, s0 if x.get("k") in ("Case", "Default") else "Stale")
            return "Stale"
        if k in ("Case", "Default"):
            return self.stmt(s.get("sub"), st)
        if k == "Return":
            if s.get("e") is not None:
                self.expr(s["e"], st)
            return "Left"
        if k == "Throw":
            return "Left"
        if k in ("Break", "Continue"):
            return "Left"
        if k == "Decl":
            for v in s.get("vars", []):
                if v.get("init") is not None:
                    st = self.expr(v["init"], st)
            return st
        if k == "Try":
            self.stmt(s.get("body"), st)
            for h in s.get("handlers", []):
                self.stmt(h.get("body"), "Stale")
            return "Stale"
        return self.expr(s, st)

    def run(self):
        # dedupe derefs visited twice by the loop re-evaluation: a deref must be ok in *every* visit
        self.stmt(self.fn["body"], "Stale")
        agg = {}
        for n, ok, line, why in self.derefs:
            a = agg.setdefault(id(n), [n, True, line, why])
            if not ok:
                a[1] = False
                a[3] = why
        out = list(agg.values())
        # second chance: a read at offset k inside an explicit window test `(m_end - m_p) >= n` with k < n and
        # m_p unmoved between the test and the read
        if any(not a[1] for a in out):
            proofs = window_proofs(self.fn)
            proofs.update(counted_run_proofs(self.fn))
            for a in out:
                if not a[1] and id(a[0]) in proofs:
                    a[1] = True
                    a[3] = proofs[id(a[0])]
        for a in out:
            if not a[1] and id(a[0]) in getattr(self, "computed_index", ()):
                # a computed offset that no window test is seen to bound: nothing is shown either way
                a[1] = None
                a[3] = "m_p[<computed offset>] (%s): no window test was found that bounds the offset" % show(a[0])[:60]
        if any(not m[1] for m in self.moves):
            runs = counted_run_proofs(self.fn)
            self.moves = [(m[0], True, m[2], runs[id(m[0])]) if (not m[1] and id(m[0]) in runs and
                                                                   all(id(m2[0]) != id(m[0]) or (not m2[1]) or True for m2 in self.moves)) else m
                          for m in self.moves]
        return out


WINDOW = "this.m_end - this.m_p"


def counted_run_proofs(fn):
    """{id(node): reason} for `m_p[0]` reads and `m_p++` steps inside a counted loop that runs N times, takes one byte per
    iteration and sits under a test that at least N bytes are left in the window:

        if ((m_end - m_p) >= N) { for (i = 0; i < N; i++) { .. m_p[0] ..; m_p++; } }

    (N not written in between, no other move of the cursor and no decoder call between the test and the end of the loop)."""
    out = {}
    env = Env(fn["body"])
    for t in ir.walk(fn["body"]):
        if t.get("k") != "If" or WINDOW not in show(t.get("cond")):
            continue
        c = cond(t["cond"], env)
        bounds = [a for a in conjuncts(c) if a[0] == "cmp" and a[1] in ("<=", "<") and WINDOW in str(a[3])]
        if not bounds:
            continue
        N = bounds[0][2]
        strict = bounds[0][1] == "<"
        body = [x for x in ir.stmts(t.get("then")) if isinstance(x, dict) and x.get("k") != "Null"]
        loops = [x for x in body if x.get("k") == "For"]
        if len(loops) != 1:
            continue
        lp = loops[0]
        # nothing before the loop moves the cursor or calls into the decoder
        pre = body[:body.index(lp)]
        if any(is_mp_move(x) or (x.get("k") == "MCall" and (x.get("callee") or {}).get("cls") == DEC and not (x.get("callee") or {}).get("const"))
               for y in pre for x in ir.walk(y)):
            continue
        # the loop runs exactly N times: i = 0; i < N; i++   or   i = N; i > 0; i--
        init = lp.get("init")
        v = init["vars"][0] if isinstance(init, dict) and init.get("k") == "Decl" and len(init.get("vars", [])) == 1 else None
        if v is None or lp.get("cond") is None or lp.get("inc") is None:
            continue
        vk = "l:%s#%s" % (v["n"], v["id"])
        lc = cond(lp["cond"], env)
        inc = unwrap(lp["inc"])
        up = const_value(v.get("init")) == 0 and lc == ("cmp", "<", vk, N) and isinstance(inc, dict) and inc.get("k") == "Un" and inc.get("op") in ("post++", "pre++")
        down = int_key(v.get("init"), env) == N and lc in (("nz", vk), ("cmp", "<", "0", vk)) and isinstance(inc, dict) and inc.get("k") == "Un" and inc.get("op") in ("post--", "pre--")
        if not (up or down) or path(unwrap_all_casts(inc.get("e"))) != (vk,):
            continue
        lb = lp.get("body")
        moves = [x for x in ir.walk(lb) if is_mp_move(x)]
        calls = [x for x in ir.walk(lb) if x.get("k") == "MCall" and (x.get("callee") or {}).get("cls") == DEC and not (x.get("callee") or {}).get("const")]
        writes_n = [x for x in ir.walk(lb) if x.get("k") == "Bin" and (x.get("op") or "").endswith("=") and x.get("op") not in ("==", "!=", "<=", ">=") and
                    int_key(x.get("lhs"), env) in (N, vk)]
        nested = [x for x in ir.walk(lb) if x.get("k") in ("While", "For", "Do", "If", "Switch")]
        if len(moves) != 1 or calls or writes_n or nested or not (moves[0].get("k") == "Un" and moves[0].get("op") in ("post++", "pre++")):
            continue
        order = {id(x): i for i, x in enumerate(ir.walk(lb))}
        why = "one byte per iteration of a loop that runs %s times, under the test that %s bytes are left in the window" % (N, N)
        for x in ir.walk(lb):
            d = is_mp_deref(x)
            if d is not None and d[1] == 0 and order[id(x)] < order[id(moves[0])]:
                out[id(x)] = why
        out[id(moves[0])] = why
    return out


def _loop_counts_up_from_zero(loops, key):
    for lp in loops:
        if lp.get("k") == "For" and lp.get("init") is not None and lp["init"].get("k") == "Decl":
            for v in lp["init"].get("vars", []):
                if "n" in v and "l:%s#%s" % (v["n"], v["id"]) == key and const_value(v.get("init")) == 0:
                    inc = unwrap(lp.get("inc")) if lp.get("inc") is not None else None
                    if isinstance(inc, dict) and inc.get("k") == "Un" and inc.get("op") in ("post++", "pre++"):
                        return True
    return False


def value_set(fn, env, key, guard, expr=None):
    """Finite value set of a never-reassigned local whose definition depends on one parameter with a small guarded
    range (constant propagation over <= 256 values), else None.  (expr: evaluate this expression instead of a local's
    definition.)"""
    from . import ranges
    d = expr if expr is not None else env.definition((key,))
    if d is None:
        return None
    params = set()
    for x in ir.walk(d):
        if x.get("k") == "Ref":
            if x.get("d") == "param":
                params.add((x["n"], x.get("t")))
            elif x.get("d") != "enumconst":
                return None
    if len(params) != 1:
        return None
    (pn, pt), = params
    tr = ranges.type_range(pt)
    if tr is None:
        return None
    lo, hi = ranges.Ctx(guard, env, None, ()).refine("p:%s" % pn, tr[0], tr[1])
    if hi - lo > 255:
        return None
    excluded = set()
    for a in conjuncts(guard):
        if a[0] == "cmp" and a[1] == "!=" and ("p:%s" % pn) in (a[2], a[3]):
            other = a[3] if a[2] == "p:%s" % pn else a[2]
            if str(other).lstrip("-").isdigit():
                excluded.add(int(other))
    out = set()
    for v in range(lo, hi + 1):
        if v in excluded:
            continue
        try:
            out.add(minieval.ev(unwrap(d), {"p:%s" % pn: v}))
        except minieval.Unknown:
            return None
    return out


def window_proofs(fn):
    """id(deref node) -> reason, for m_p[k] reads dominated by a test that at least n > k bytes are in the window."""
    env = Env(fn["body"])
    order = {id(n): i for i, n in enumerate(ir.walk(fn["body"]))}
    moves = [order[id(n)] for n in ir.walk(fn["body"]) if is_mp_move(n)]
    refills = [order[id(n)] for n in ir.walk(fn["body"]) if n.get("k") == "MCall" and (n.get("callee") or {}).get("cls") == DEC]
    # the If statements whose condition is a window test
    tests = []
    for n in ir.walk(fn["body"]):
        if n.get("k") == "If" and WINDOW in show(n.get("cond")):
            tests.append(n)
    out = {}
    for st, g, loops in ir.guarded_statements_lc(fn["body"], env):
        if st.get("k") in ("IfCond", "LoopHead", "SwitchHead"):
            continue
        atoms = conjuncts(g)
        # non-constant offsets: m_p[i] with i < X and X <= window (both from dominating guards / the loop header)
        win_vars = set(a[2] for a in atoms if a[0] == "cmp" and a[1] in ("<=", "<") and WINDOW in a[3])
        # ... or the index is compared with the window size itself by the condition of the innermost loop (`i < min(n, m_end - m_p)`
        # is `i < n && i < m_end - m_p`), and nothing in that loop moves the cursor
        for d in ir.walk(st):
            if d.get("k") == "Index" and path(d.get("base")) == ("this", "m_p") and const_value(d.get("idx")) is None and loops:
                ik = int_key(d.get("idx"), env)
                inner = [l_ for l_ in loops if l_.get("k") in ("For", "While")]
                if inner and any(a[0] == "cmp" and a[1] == "<" and a[2] == ik and WINDOW in str(a[3]) and "+" not in str(a[3]).replace(WINDOW, "") for a in atoms) and \
                        ((unwrap(d.get("idx")) or {}).get("t", "").startswith("unsigned") or _loop_counts_up_from_zero(loops, ik)):
                    lpn = inner[-1]
                    if not any(is_mp_move(x) or (x.get("k") == "MCall" and (x.get("callee") or {}).get("cls") == DEC and not (x.get("callee") or {}).get("const"))
                               for x in ir.walk(lpn.get("body"))) and WINDOW in show(lpn.get("cond")) or \
                            (not any(is_mp_move(x) or (x.get("k") == "MCall" and (x.get("callee") or {}).get("cls") == DEC and not (x.get("callee") or {}).get("const"))
                                     for x in ir.walk(lpn.get("body"))) and any(WINDOW in show(v_) for k_, v_ in env.defs.items() if v_ is not None and k_ in show(lpn.get("cond")))):
                        out[id(d)] = "index %s is below the number of bytes left in the window (loop condition), and the loop does not move the cursor" % ik
        # ... or X is a local defined as the window size or as min(.., window), with the cursor unmoved since
        here_o = order.get(id(st), 0)
        for key_, d_ in env.defs.items():
            if d_ is None or key_ in getattr(env, "assigned", ()):
                continue
            ud = unwrap_all_casts(d_)
            is_min = isinstance(ud, dict) and ud.get("k") == "Call" and callee_name(ud) == "min" and any(WINDOW in show(a_) for a_ in ud.get("args", []))
            if (is_min or show(ud).strip("()") == WINDOW) and id(d_) in order:
                d_o = order[id(d_)]
                if d_o < here_o and not any(d_o < m < here_o for m in moves) and not any(d_o < r_ < here_o for r_ in refills):
                    win_vars.add(key_)
                    for d in ir.walk(st):
                        if d.get("k") == "Index" and path(d.get("base")) == ("this", "m_p") and const_value(d.get("idx")) is None:
                            ik = int_key(d.get("idx"), env)
                            if any(a[0] == "cmp" and a[1] == "<" and a[2] == ik and a[3] == key_ for a in atoms) and \
                                    ((unwrap(d.get("idx")) or {}).get("t", "").startswith("unsigned") or _loop_counts_up_from_zero(loops, ik)):
                                out[id(d)] = "index %s is below %s, which was computed from the bytes left in the window with the cursor unmoved since" % (ik, key_)
        for d in ir.walk(st):
            if d.get("k") == "Index" and path(d.get("base")) == ("this", "m_p") and const_value(d.get("idx")) is None:
                ik = int_key(d.get("idx"), env)
                below = [a[3] for a in atoms if a[0] == "cmp" and a[1] == "<" and a[2] == ik]
                nonneg = any(a[0] == "cmp" and a[1] in ("<=",) and a[2] == "0" and a[3] == ik for a in atoms) or \
                    (unwrap(d.get("idx")) or {}).get("t", "").startswith("unsigned") or _loop_counts_up_from_zero(loops, ik)
                anc = [t for t in tests if any(x is d for x in ir.walk(t.get("then")))]
                if anc and nonneg and any(b in win_vars for b in below):
                    t0 = max(order[id(t)] for t in anc)
                    if not any(t0 < m < order[id(d)] for m in moves):
                        out[id(d)] = "index %s is below %s, which the enclosing window test bounds by the bytes left in the window" % (ik, [b for b in below if b in win_vars][0])
        bound = None
        for a in atoms:
            if a[0] == "cmp" and a[1] in ("<=", "<") and WINDOW in a[3]:
                L = a[2]
                if L.lstrip("-").isdigit():
                    bound = int(L) + (1 if a[1] == "<" else 0)
                else:
                    for b in atoms:
                        if b[0] == "cmp" and b[1] == "==" and L in (b[2], b[3]):
                            other = b[3] if b[2] == L else b[2]
                            if other.lstrip("-").isdigit():
                                bound = int(other) + (1 if a[1] == "<" else 0)
                    if bound is None:
                        vals = value_set(fn, env, L, g)
                        if vals is None:
                            # the bound written out as an expression over one parameter (`1 << (item_length - 24)`)
                            for t_ in tests:
                                cu = unwrap_all_casts(t_.get("cond"))
                                if isinstance(cu, dict) and cu.get("k") == "Bin" and cu.get("op") in (">=", "<=", ">", "<"):
                                    for side in (cu.get("lhs"), cu.get("rhs")):
                                        if isinstance(side, dict) and int_key(side, env) == L:
                                            vals = value_set(fn, env, L, g, expr=unwrap_all_casts(side))
                                if vals is not None:
                                    break
                        if vals:
                            for b in atoms:
                                if b[0] == "cmp" and b[1] == "!=" and L in (b[2], b[3]):
                                    other = b[3] if b[2] == L else b[2]
                                    if other.lstrip("-").isdigit():
                                        vals.discard(int(other))
                            if vals:
                                bound = min(vals) + (1 if a[1] == "<" else 0)
        if bound is None:
            continue
        # m_p[i] with i < K for a number K that the window test covers
        for d in ir.walk(st):
            if d.get("k") == "Index" and path(d.get("base")) == ("this", "m_p") and const_value(d.get("idx")) is None:
                ik = int_key(d.get("idx"), env)
                ks = [int(a[3]) for a in atoms if a[0] == "cmp" and a[1] == "<" and a[2] == ik and str(a[3]).isdigit()]
                nonneg = (unwrap(d.get("idx")) or {}).get("t", "").startswith("unsigned") or _loop_counts_up_from_zero(loops, ik)
                anc = [t for t in tests if any(x is d for x in ir.walk(t.get("then")))]
                if ks and nonneg and anc and min(ks) <= bound:
                    t0 = max(order[id(t)] for t in anc)
                    if not any(t0 < m < order[id(d)] for m in moves):
                        out[id(d)] = "index %s is below %d, and the enclosing window test guarantees %d bytes" % (ik, min(ks), bound)
        for d in ir.walk(st):
            dk = is_mp_deref(d)
            if dk is None or dk[1] is None:
                continue
            # innermost enclosing window test
            anc = [t for t in tests if any(x is d for x in ir.walk(t.get("then")))]
            if not anc:
                continue
            t0 = max(order[id(t)] for t in anc)
            moved = any(t0 < m < order[id(d)] for m in moves) or any(t0 < r < order[id(d)] and r > t0 + 0 and False for r in refills)
            if 0 <= dk[1] < bound and not moved:
                out[id(d)] = "offset %d is inside the %d bytes the enclosing window test guarantees, and m_p has not moved since that test" % (dk[1], bound)
    return out


# ------------------------------------------------------------------ read_to_buffer refill domain

EMPTY_TESTS = (
    ("cmp", "==", "this.m_end", "this.m_p"), ("cmp", "==", "this.m_p", "this.m_end"),
    ("cmp", "<=", "this.m_end", "this.m_p"),  # m_p >= m_end
)


def is_empty_window_test(c):
    """Formula that is true iff the refill obtained no bytes."""
    if c in EMPTY_TESTS:
        return True
    if c[0] == "cmp" and c[1] == "==" and ("this.m_buffer" in (c[2], c[3])) and ("this.m_end" in (c[2], c[3])):
        return True
    s = repr(c)
    if "gcount()" in s:
        if c[0] == "not" and c[1][0] == "nz":
            return True                      # gcount() == 0 / !gcount()
        if c[0] == "cmp" and c[1] == "<" and c[3] == "1":
            return True                      # gcount() < 1
        if c[0] == "cmp" and c[1] == "<=" and c[3] == "0":
            return True
    return False


def analyse_refill(fn):
    """Returns (status, line, text). status True/False/None."""
    env = Env(fn["body"])
    leafs = list(ir.guarded_statements(fn["body"], env))
    # locate refill statements
    idx_read = idx_end = None
    for i, (st, g, loops) in enumerate(leafs):
        if st.get("k") in ("IfCond", "LoopHead", "SwitchHead"):
            continue
        for n in ir.walk(st):
            if n.get("k") == "MCall" and callee_name(n) in ("read", "readsome", "get", "getline") and \
                    path(n.get("recv")) == ("this", "m_input"):
                idx_read = i if idx_read is None else idx_read
            if n.get("k") == "Bin" and n.get("op") == "=" and path(n["lhs"]) == ("this", "m_end"):
                idx_end = i
    if idx_read is None or idx_end is None:
        return None, fn["line"], "refill statements (m_input.read / m_end = ...) not found"
    refill_guard = leafs[idx_end][1]
    # 1. a test after the refill that throws when the window is empty
    post_ok = False
    unknown_post = None
    for i, (st, g, loops) in enumerate(leafs):
        if i <= idx_end:
            continue
        if st.get("k") == "IfCond":
            node = st["node"]
            c = cond(node["cond"], env)
            leaves = ir.leaves_function(node.get("then"))
            parts = c[1:] if c[0] == "or" else [c]
            if leaves and any(is_empty_window_test(p) for p in parts):
                post_ok = True
            elif any(x in repr(c) for x in ("m_input", "m_p", "m_end", "gcount")):
                unknown_post = (node.get("l", 0), show_f(c))
    # 2. a peek()==EOF -> throw test in front of the read
    pre_ok = False
    for i, (st, g, loops) in enumerate(leafs):
        if i >= idx_read:
            break
        if st.get("k") == "IfCond":
            node = st["node"]
            c = cond(node["cond"], env)
            if ir.leaves_function(node.get("then")) and "peek()" in repr(c) and ("-1" in repr(c) or "eof" in repr(c).lower()):
                pre_ok = True
    # ... and no normal exit lies between the refill and that test (`if (!finished) return;` in front of it would let an
    # empty window out whenever the stream stored nothing without reaching its end)
    if post_ok and not pre_ok:
        established = False
        for i, (st, g, loops) in enumerate(leafs):
            if i <= idx_end:
                continue
            if st.get("k") == "IfCond":
                node = st["node"]
                c = cond(node["cond"], env)
                parts = c[1:] if c[0] == "or" else [c]
                if ir.leaves_function(node.get("then")) and any(is_empty_window_test(p) for p in parts):
                    established = True
                continue
            if st.get("k") == "Return" and not established:
                atoms = conjuncts(g)
                nonempty = any(a == ("cmp", "!=", "this.m_end", "this.m_p") or a == ("cmp", "!=", "this.m_p", "this.m_end") or
                               a == ("cmp", "<", "this.m_p", "this.m_end") for a in atoms)
                if not nonempty and ir.f_and(g, refill_guard) != ("F",):
                    return False, st.get("l", fn["line"]), \
                        "read_to_buffer returns under %s after the refill and before the test for an empty window: a refill that stored nothing " \
                        "(an unreadable stream that is not at its end) leaves m_p == m_end and the caller reads stale buffer bytes" % show_f(g)
    if post_ok or pre_ok:
        return True, leafs[idx_end][0].get("l", fn["line"]), \
            "a refill that obtained 0 bytes leaves by throw (%s)" % ("test after the read" if post_ok else "peek()==EOF before the read")
    if unknown_post:
        return None, unknown_post[0], "branch on stream/pointer state after the refill not understood: %s" % unknown_post[1]
    return False, leafs[idx_end][0].get("l", fn["line"]), \
        "read_to_buffer returns normally after a refill of 0 bytes (m_p == m_end): eof()/fail() tests before the read do not " \
        "cover an empty stream, a length that is a multiple of the buffer size or an unreadable stream; the caller then reads stale buffer bytes"


def window_counters(fn):
    """Locals that count the bytes left in the window.  -> {id(leaf statement): set of local keys known to be <= m_end - m_p
    when the statement starts}.  A local gets into the set by `w = m_end - m_p`, `w = 0`, `r = min(.., w)` / `min(.., m_end -
    m_p)` or a copy of such a local; it stays there across read_to_buffer() (which changes the window only when it is empty,
    and then only makes it larger) and across the pair `m_p += r; w -= r;` with r = min(.., w); every other move of the
    cursor, every other decoder call and every other store to the local takes it out.  Loops are iterated to a fixpoint,
    branches meet by intersection."""
    out = {}
    defsig = {}         # local -> text of the expression it was last defined as

    def key_of(e):
        u = unwrap_all_casts(e)
        p = path(u) if isinstance(u, dict) else None
        if p and len(p) == 1 and p[0].startswith("l:"):
            return p[0]
        return None

    def is_window_expr(e):
        u = unwrap_all_casts(e)
        return isinstance(u, dict) and show(u).strip("()") == WINDOW

    def bounded_expr(e, K, le, target=None):
        """e <= window given K; records what e is bounded by in le[target]"""
        u = unwrap_all_casts(e)
        if not isinstance(u, dict):
            return False
        if is_window_expr(u) or const_value(u) == 0:
            return True
        k = key_of(u)
        if k is not None and k in K:
            if target:
                le.setdefault(target, set()).add(k)
                le[target] |= le.get(k, set())
            return True
        if u.get("k") == "Call" and callee_name(u) == "min":
            hit = False
            for a in u.get("args", []):
                if is_window_expr(a):
                    hit = True
                ka = key_of(a)
                if ka is not None and ka in K:
                    hit = True
                    if target:
                        le.setdefault(target, set()).add(ka)
            return hit
        return False

    def leaf(st, state):
        K, le, pending = state
        prev = out.get(id(st))
        out[id(st)] = set(K) if prev is None else (prev & set(K))
        K = set(K)
        le = {k: set(v) for k, v in le.items()}
        u = unwrap(st) if st.get("k") != "Decl" else st
        # declarations and plain stores
        stores = []
        if st.get("k") == "Decl":
            for v in st.get("vars", []):
                if "n" in v and "id" in v:
                    stores.append(("l:%s#%s" % (v["n"], v["id"]), v.get("init"), "="))
        elif isinstance(u, dict) and u.get("k") == "Bin" and (u.get("op") or "").endswith("=") and u["op"] not in ("==", "!=", "<=", ">="):
            kl = key_of(u.get("lhs"))
            if kl is not None:
                stores.append((kl, u.get("rhs"), u["op"]))
            elif path(u.get("lhs")) == ("this", "m_p"):
                if u["op"] == "+=":
                    tmp = {}
                    if bounded_expr(u.get("rhs"), K, tmp, "<amount>"):
                        # the amount: a local, or an expression (`min(count, w)`) some local was defined as
                        sig = show(unwrap_all_casts(u["rhs"]))
                        le2 = {k_: set(v_) for k_, v_ in le.items()}
                        le2["<amount>"] = tmp.get("<amount>", set()) | (le.get(key_of(u["rhs"]), set()) if key_of(u["rhs"]) else set())
                        return (set(), le2, ((key_of(u["rhs"]), sig), frozenset(K)))
                return (set(), {}, None)
            elif path(u.get("lhs")) in (("this", "m_end"), ("this", "m_buffer")):
                return (set(), {}, None)
        # anything else that moves the cursor or calls into the decoder
        for n in ir.walk(st):
            if n.get("k") == "Lambda":
                continue
            if is_mp_move(n) and not (isinstance(u, dict) and u is n):
                return (set(), {}, None)
            if n.get("k") == "MCall" and (n.get("callee") or {}).get("cls") == DEC and not (n.get("callee") or {}).get("const") and \
                    callee_name(n) != "read_to_buffer":
                return (set(), {}, None)
            if n.get("k") == "Un" and n.get("op") in ("pre++", "post++", "pre--", "post--", "&") and key_of(n.get("e")) in K:
                K.discard(key_of(n.get("e")))
        if isinstance(u, dict) and is_mp_move(u) and st.get("k") != "Decl":
            return (set(), {}, None)
        for kl, rhs, op in stores:
            if op == "=":
                le.pop(kl, None)
                defsig[kl] = show(unwrap_all_casts(rhs)) if rhs is not None else None
                if rhs is not None and bounded_expr(rhs, K, le, kl):
                    K.add(kl)
                else:
                    K.discard(kl)
            elif op == "-=" and pending is not None and kl in pending[1] and kl != pending[0][0] and kl in le.get("<amount>", set()) and \
                    ((key_of(rhs) is not None and key_of(rhs) == pending[0][0]) or show(unwrap_all_casts(rhs)) == pending[0][1] or
                     (key_of(rhs) is not None and defsig.get(key_of(rhs)) == pending[0][1])):
                K.add(kl)           # w_old - r <= window_old - r = window_new   (r <= w_old: no wrap)
            elif op == "-=" and kl in K and pending is None:
                # w -= x with x <= w keeps w <= window; anything else may wrap
                if not (key_of(rhs) is not None and kl in le.get(key_of(rhs), set())):
                    K.discard(kl)
            else:
                K.discard(kl)
        if pending is not None and not any(op == "-=" for _, _, op in stores):
            # only stores that do not touch the window may stand between `m_p += r` and `w -= r`
            touches = any(n.get("k") in ("MCall", "Call") and (n.get("callee") or {}).get("cls") == DEC for n in ir.walk(st))
            if touches:
                pending = None
        elif pending is not None:
            pending = pending if any(op == "-=" and kl not in K for kl, _, op in stores) else pending
        return (K, le, pending)

    def meet(states):
        states = [s_ for s_ in states if s_ is not None]
        if not states:
            return None
        K = set(states[0][0])
        for s_ in states[1:]:
            K &= s_[0]
        le = {}
        for k in K:
            vals = [s_[1].get(k, set()) for s_ in states]
            le[k] = set.intersection(*vals) if vals else set()
        # relations of locals outside K are kept when every branch agrees
        keys = set.intersection(*[set(s_[1]) for s_ in states]) if states else set()
        for k in keys:
            if k not in le:
                le[k] = set.intersection(*[s_[1][k] for s_ in states])
        pend = states[0][2] if all(s_[2] == states[0][2] for s_ in states) else None
        return (K, le, pend)

    def cond_effects(c, state):
        if state is None or c is None:
            return state
        # conditions with calls into the decoder (peek_type() != BREAK) keep or clear like statements
        K, le, pending = state
        for n in ir.walk(c):
            if n.get("k") == "MCall" and (n.get("callee") or {}).get("cls") == DEC and not (n.get("callee") or {}).get("const") and \
                    callee_name(n) not in ("read_to_buffer", "peek_type"):
                return (set(), {}, None)
            if is_mp_move(n):
                return (set(), {}, None)
        return state

    def stmt(s, state):
        if s is None or state is None:
            return state
        k = s.get("k")
        if k == "Block":
            for x in s.get("s", []):
                state = stmt(x, state)
                if state is None:
                    return None
            return state
        if k == "If":
            st0 = cond_effects(s.get("cond"), state)
            a = stmt(s.get("then"), (set(st0[0]), dict(st0[1]), st0[2]))
            b = stmt(s.get("else"), (set(st0[0]), dict(st0[1]), st0[2])) if s.get("else") is not None else st0
            return meet([a, b])
        if k in ("While", "For", "Do", "RangeFor"):
            if k == "For" and isinstance(s.get("init"), dict):
                state = stmt(s["init"], state) if s["init"].get("k") == "Decl" else leaf(s["init"], state)
            head = state
            for _ in range(4):
                h0 = cond_effects(s.get("cond"), head) if k != "Do" else head
                body_out = stmt(s.get("body"), (set(h0[0]), {a: set(b) for a, b in h0[1].items()}, h0[2]))
                if body_out is not None and k == "For" and isinstance(s.get("inc"), dict):
                    body_out = leaf(s["inc"], body_out)
                new_head = meet([state, body_out]) if body_out is not None else state
                if new_head[0] == head[0] and new_head[2] == head[2]:
                    head = new_head
                    break
                head = new_head
            return cond_effects(s.get("cond"), head)
        if k == "Switch":
            st0 = cond_effects(s.get("cond"), state)
            for x in ir.stmts(s.get("body")):
                stmt(x, (set(), {}, None))
            return (set(), {}, None)
        if k in ("Case", "Default"):
            return stmt(s.get("sub"), state)
        if k == "Try":
            b = stmt(s.get("body"), state)
            for h in s.get("handlers", []):
                stmt(h.get("body"), (set(), {}, None))
            return b if b is not None else None
        if k in ("Return", "Throw", "Break", "Continue"):
            prev = out.get(id(s))
            out[id(s)] = set(state[0]) if prev is None else (prev & state[0])
            return None
        return leaf(s, state)

    stmt(fn["body"], (set(), {}, None))
    return out


def cursor_moves(fn):
    """Obligations for every write to m_p / m_end and every bulk read through m_p:
    [(node, ok (True/False/None), text)].
      m_p++ / ++m_p           : allowed directly after a refill check (state Fresh), decided by the typestate pass
      m_p += n / m_p = m_p+n  : n must be compared with the window `m_end - m_p` by a dominating guard (a test written as
                                `m_p + n > m_end` does not count: the pointer sum wraps for a wire-controlled n)
      m_p = m_buffer / m_end  : refill / exhaust
      f(m_p, n) (append, memcpy, assign, insert ...): bulk read of n bytes, same bound as a move by n"""
    env = Env(fn["body"])
    out = []
    order = {id(n): i for i, n in enumerate(ir.walk(fn["body"]))}
    # window-changing events with the dead-end region they are confined to (a branch that always leaves the function
    # or the loop cannot influence statements outside of it)
    move_events = []
    for n, parents in ir.walk_with_parents(fn["body"]):
        if is_mp_move(n) or (n.get("k") == "MCall" and (n.get("callee") or {}).get("cls") == DEC):
            region = None
            child = n
            for p_ in reversed(parents):
                if p_.get("k") == "If":
                    for br in (p_.get("then"), p_.get("else")):
                        if br is not None and any(x is child for x in ir.walk(br)) and ir.always_leaves(br):
                            region = set(id(x) for x in ir.walk(br))
                    if region:
                        break
                child = p_
            move_events.append((order[id(n)], region))
    move_idx = move_events
    # never-reassigned locals that hold the window size `m_end - m_p` (valid until m_p/m_end next change)
    aliases = {}
    for n in ir.walk(fn["body"]):
        if n.get("k") == "Decl":
            for v in n.get("vars", []):
                if "n" in v and v.get("init") is not None:
                    key = "l:%s#%s" % (v["n"], v["id"])
                    txt = show(unwrap_all_casts(v["init"]))
                    if key not in env.assigned and txt.strip("()") == WINDOW:
                        aliases[key] = order[id(n)]
    counters = window_counters(fn)
    for st, g, loops in ir.guarded_statements_lc(fn["body"], env):
        if st.get("k") in ("IfCond", "LoopHead", "SwitchHead"):
            continue
        atoms = conjuncts(g)
        here = order.get(id(st), 0)

        def is_window(txt):
            if WINDOW in txt and "+" not in txt.replace(WINDOW, ""):
                return True
            if txt in aliases and not any(aliases[txt] < m < here and (reg is None or id(st) in reg) for m, reg in move_idx):
                return True
            return False

        def reaching_store(lp):
            """the value last stored into local lp by a plain assignment earlier in the same block, with neither another
            write of lp nor a change of the window between that store and this statement"""
            blk = None
            for b in ir.walk(fn["body"]):
                if b.get("k") == "Block" and any(x is st for x in b.get("s", [])):
                    blk = b
            if blk is None:
                return None
            sts = blk["s"]
            i = [j for j, x in enumerate(sts) if x is st][0]
            for prev in reversed(sts[:i]):
                u = unwrap(prev)
                if isinstance(u, dict) and u.get("k") == "Bin" and u.get("op") == "=" and path(u.get("lhs")) == lp:
                    return u["rhs"]
                for x in ir.walk(prev):
                    if is_mp_move(x) or (x.get("k") == "MCall" and (x.get("callee") or {}).get("cls") == DEC and not (x.get("callee") or {}).get("const")):
                        return None
                    if x.get("k") == "Bin" and x.get("op", "").endswith("=") and x["op"] not in ("==", "!=", "<=", ">=") and path(x.get("lhs")) == lp:
                        return None
                    if x.get("k") == "Un" and x.get("op") in ("pre++", "post++", "pre--", "post--") and path(x.get("e")) == lp:
                        return None
            return None

        def bounded(nexpr):
            nk = int_key(nexpr, env)
            cv = const_value(nexpr)
            if is_window(nk):
                return True      # the amount *is* the window size
            # a local the window-counter analysis keeps below the window (or the minimum of something and such a local)
            Khere = counters.get(id(st), set())
            un = unwrap_all_casts(nexpr)
            pn = path(un) if isinstance(un, dict) else None
            if pn and len(pn) == 1 and pn[0] in Khere:
                return True
            if isinstance(un, dict) and un.get("k") == "Call" and callee_name(un) == "min" and \
                    any(path(unwrap_all_casts(a)) and len(path(unwrap_all_casts(a))) == 1 and path(unwrap_all_casts(a))[0] in Khere for a in un.get("args", [])):
                return True
            for a in atoms:
                if a[0] == "cmp" and a[1] in ("<=", "<") and is_window(a[3]):
                    if a[2] == nk:
                        return True
                    if cv is not None and a[2].lstrip("-").isdigit() and int(a[2]) + (1 if a[1] == "<" else 0) >= int(cv):
                        return True
            # n = min(x, m_end - m_p)
            d = env.definition(path(nexpr)) if path(nexpr) else None
            if d is None and path(nexpr):
                d = reaching_store(path(nexpr))
            for cand in (nexpr, d):
                u = unwrap_all_casts(cand) if cand is not None else None
                if isinstance(u, dict) and u.get("k") == "Call" and callee_name(u) == "min":
                    if any(WINDOW in show(x) for x in u.get("args", [])):
                        return True
            return False

        for n in ir.walk(st):
            k = n.get("k")
            if k == "Bin" and n.get("op") in ("+=", "-=") and path(n.get("lhs")) == ("this", "m_p"):
                if n["op"] == "-=":
                    out.append((n, False, "m_p is moved backwards"))
                    continue
                ok = bounded(n["rhs"])
                out.append((n, ok, "cursor advanced by %s, which a dominating guard compares with the bytes left in the window" % show(n["rhs"]) if ok else
                            "m_p += %s without a dominating comparison of that amount with the window (m_end - m_p): for a length taken from the input the cursor "
                            "leaves the buffer (or wraps), `m_p == m_end` is never true again and every later read is outside the buffer" % show(n["rhs"])))
            elif k == "Bin" and n.get("op") == "=" and path(n.get("lhs")) == ("this", "m_p"):
                r = unwrap_all_casts(n["rhs"])
                # chained assignment m_p = m_end = m_buffer
                while isinstance(r, dict) and r.get("k") == "Bin" and r.get("op") == "=":
                    r = unwrap_all_casts(r["rhs"])
                rp = path(r)
                if rp in (("this", "m_buffer"), ("this", "m_end")):
                    out.append((n, True, "cursor reset to %s" % path_str(rp)))
                elif isinstance(r, dict) and r.get("k") == "Bin" and r.get("op") == "+" and path(r["lhs"]) == ("this", "m_p"):
                    ok = bounded(r["rhs"])
                    out.append((n, ok, "cursor advanced by a window-checked amount" if ok else "m_p = m_p + %s without a window check" % show(r["rhs"])))
                else:
                    out.append((n, None, "assignment m_p = %s not understood" % show(n["rhs"])))
            elif k in ("MCall", "Call", "Construct") and n.get("args"):
                args = n["args"]
                for i, a in enumerate(args):
                    ua = unwrap_all_casts(a)
                    if path(ua) == ("this", "m_p") and isinstance(ua, dict) and (ua.get("t") or "").endswith("*"):
                        # bulk read: the length is the next integer argument (append(p,n), memcpy(d,p,n), string(p,n))
                        ln = None
                        for b in args[i + 1:]:
                            ub = unwrap(b)
                            if isinstance(ub, dict) and not (ub.get("t") or "").endswith("*"):
                                ln = b
                                break
                        if ln is None:
                            # (first,last) iterator pair: m_p, m_p + n / m_end
                            nxt = unwrap_all_casts(args[i + 1]) if i + 1 < len(args) else None
                            if nxt is not None and path(nxt) == ("this", "m_end"):
                                out.append((n, True, "bulk read of [m_p, m_end)"))
                                continue
                            if isinstance(nxt, dict) and nxt.get("k") == "Bin" and nxt.get("op") == "+" and path(nxt["lhs"]) == ("this", "m_p"):
                                ln = nxt["rhs"]
                        if ln is None:
                            out.append((n, None, "m_p is handed to %s in a form the window rule does not understand" % (callee_name(n) or "?")))
                            continue
                        ok = bounded(ln)
                        out.append((n, ok, "bulk read of %s bytes, which a dominating guard compares with the window" % show(ln) if ok else
                                    "%s reads %s bytes starting at m_p without a dominating comparison of that length with the window (m_end - m_p): "
                                    "a short refill (truncated input) is padded with stale buffer bytes" % (callee_name(n), show(ln))))
    return out
