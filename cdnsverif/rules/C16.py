"""C16 Output failures are reported, never swallowed, and rotation recovers from them (error discipline)."""
from .. import ir, writers, consumption, callgraph
from ..writers import BASE, WSTR, WINT, PLAIN, GZ, XZ, ENC, EXP, short, ordered_calls, names, handlers
from ..ir import path, path_str, unwrap, unwrap_all_casts, callee_name, callee_qn, show, show_f, Env, conjuncts, const_value, cond
from ..facts import AnalysisBroken

META = {
    "level": "other",
    "rule_text": "R16.1 every OS/stream write result is checked and converted to an exception (Writer<int>::write compares ::write's "
                 "result with the size; Writer<std::string> must enable stream exceptions or test the stream state after "
                 "write/flush/close); R16.2 no function reachable from CdnsExporter::rotate_output contains a handler that neither "
                 "rethrows nor throws; R16.3 CdnsEncoder::rotate_output reaches m_cos->rotate_output on every path, including the "
                 "exceptional exit of flush_buffer; R16.4 write_block() clears the buffered block only after write_block(m_block) "
                 "returned normally. R16.5: every exporter member read by the condition under which the file header is written is unconditionally re-initialised by rotate_output. R16.7 = R06.4 (staged bytes leave the encoder only through flush_buffer's write; nothing else resets the cursor). R16.8: a gathering write (writev over the staged bytes and a string) throws or completes for every count the call can return - tabulated over -1, 0, 1, h-1, h, h+1, h+b-1, h+b for sample sizes (positive and negative control in tu/rule_controls.cpp).",
    "explanation": "Error-discipline rules over the resolved call graph from the rotate entry point. Which call of a fault sequence "
                   "throws first and the contents of the recovery file are not decided.",
    "trusted_base": ["clang 14 AST", "POSIX write(2) returns the number of bytes written or -1"],
    "assumptions": ["destructors cannot throw and are outside the guarantee (excluded as entry points, not as shared callees)"],
}


def stream_state_tested_after(fn, call, member="m_out"):
    """Is there, after `call` in structured order, a test of the stream state that leaves by throw?"""
    order = {id(n): i for i, n in enumerate(ir.walk(fn["body"]))}
    for n in ir.walk(fn["body"]):
        if n.get("k") == "If" and order[id(n)] > order[id(call)]:
            txt = show(n["cond"])
            if ("this.%s" % member) in txt and any(w in txt for w in ("fail()", "bad()", "good()", "!this.%s" % member, "operator!")):
                if any(x.get("k") == "Throw" for x in ir.walk(n)):
                    return True
            # `if (!m_out)` / `if (m_out)` via operator bool / operator!
            for c in ir.calls_in(n["cond"]):
                if path(c.get("recv")) == ("this", member) or (c.get("args") and path(c["args"][0]) == ("this", member)):
                    if any(x.get("k") == "Throw" for x in ir.walk(n)):
                        return True
    return False


def exceptions_enabled(facts, cls, member="m_out"):
    """m_out.exceptions(failbit|badbit) somewhere in the class (constructor/open)."""
    for f in facts.functions.values():
        if f.get("cls") != cls:
            continue
        for c in ir.calls_in(f["body"]):
            if callee_name(c) == "exceptions" and path(c.get("recv")) == ("this", member) and c.get("args"):
                return True
    return False


def gather_outcomes(f, enums):
    """A function that hands two buffers (head, head_size, body, body_size) to writev: for every count the system call can
    return, what the function does - throws, or returns after having passed on exactly the bytes that are still missing.
    -> [(count, outcome text, ok)] or raises minieval.Unknown"""
    from .. import minieval
    sizes = [p_ for p_ in f.get("params", []) if (p_.get("t") or "").replace("const ", "") in ("unsigned long", "std::size_t", "size_t")]
    raw = [c for c in ir.calls_in(f["body"]) if c.get("k") == "Call" and callee_name(c) == "writev"]
    if len(raw) != 1 or len(sizes) != 2:
        raise minieval.Unknown("not a two-buffer gathering write")
    H, B = 5, 7
    retkey = None
    for d in ir.walk(f["body"]):
        if d.get("k") == "Decl":
            for v in d.get("vars", []):
                if v.get("init") is not None and any(x is raw[0] for x in ir.walk(v["init"])):
                    retkey = "l:%s#%s" % (v["n"], v["id"])
    if retkey is None:
        raise minieval.Unknown("the result of writev is not kept")
    out = []

    class Leave(Exception):
        pass

    for cnt in (-1, 0, 1, H - 1, H, H + 1, H + B - 1, H + B):
        env = {"p:%s" % sizes[0]["n"]: H, "p:%s" % sizes[1]["n"]: B}
        passed = []

        def walk_(sts):
            for s_ in sts:
                u = unwrap(s_)
                if not isinstance(u, dict):
                    continue
                k = u.get("k")
                if k == "Block":
                    walk_(u.get("s", []))
                elif k == "If":
                    br = u.get("then") if minieval.ev(unwrap(u["cond"]), env, enums) else u.get("else")
                    if br is not None:
                        walk_(ir.stmts(br))
                elif k == "Throw":
                    raise Leave("throw")
                elif k == "Return":
                    raise Leave("return")
                elif k == "Decl":
                    for v in u.get("vars", []):
                        key = "l:%s#%s" % (v.get("n"), v.get("id"))
                        if key == retkey:
                            env[key] = cnt
                        elif v.get("init") is not None:
                            try:
                                env[key] = minieval.ev(unwrap(v["init"]), env, enums)
                            except minieval.Unknown:
                                pass
                elif k == "MCall" and callee_name(u) == "write" and len(u.get("args", [])) == 2:
                    passed.append(minieval.ev(unwrap(u["args"][1]), env, enums))
                elif k in ("While", "For", "Do"):
                    raise minieval.Unknown("a loop after the system call")
                else:
                    try:
                        minieval.step(u, env, enums)
                    except minieval.Unknown:
                        pass
        try:
            walk_(ir.stmts(f["body"]))
            how = "return"
        except Leave as lv:
            how = str(lv)
        if how == "throw":
            out.append((cnt, "throws", True))
        else:
            done = (cnt if cnt > 0 else 0) + sum(passed)
            okc = cnt >= 0 and done == H + B
            out.append((cnt, "returns normally after %d of %d bytes" % (done, H + B), okc))
    return out


def check_gather_counts(run, rule):
    """R16.8: a gathering write (writev over the staged bytes and a string) reports or completes every short count - including the
    count that ends exactly between the two buffers.  Tabulated over the counts -1, 0, 1, h-1, h, h+1, h+b-1, h+b for sample sizes."""
    from .. import minieval
    facts = run.facts
    try:
        bad = gather_outcomes(facts.control("r16_8_writer::gather_boundary_lost", rule), facts.enums)
        good = gather_outcomes(facts.control("r16_8_writer::gather_complete", rule), facts.enums)
    except minieval.Unknown as ex:
        raise AnalysisBroken(rule, "positive control verif_rc::r16_8_writer cannot be tabulated (%s)" % ex)
    if [c_ for c_, t_, ok_ in bad if not ok_] != [5] or any(not ok_ for c_, t_, ok_ in good):
        raise AnalysisBroken(rule, "positive control verif_rc::r16_8_writer: expected exactly the boundary count reported, found %s / %s" % (bad, good))
    n = 0
    for f in sorted(facts.functions.values(), key=lambda x: x["key"]):
        if f.get("body") is None or not any(c.get("k") == "Call" and callee_name(c) == "writev" for c in ir.calls_in(f["body"])):
            continue
        n += 1
        key = "%s:every-count-handled" % short(f["qn"])
        try:
            outs = gather_outcomes(f, facts.enums)
        except minieval.Unknown as ex:
            run.ob(rule, key, None, f, f["line"], "the handling of writev's result cannot be tabulated (%s)" % ex)
            continue
        lost = [(c_, t_) for c_, t_, ok_ in outs if not ok_]
        run.ob(rule, key, not lost, f, f["line"],
               "every count writev can return is reported by an exception or completed by writing the missing bytes" if not lost else
               "for head_size = 5, body_size = 7: when writev returns %d the function %s - bytes are lost and no exception reports it" % lost[0])
    run.info["gathering_writes"] = n


def check(run):
    # staged bytes leave the encoder only through flush_buffer's write: nothing else resets the cursor, so a rotation cannot
    # silently drop what was staged for the output it closes or opens (R06.4 imported)
    from . import C06 as _C06
    _C06.check_buffer_discipline(_C06._Renamed(run, {"R06.4": "R16.7"}))
    facts = run.facts
    cg = callgraph.CallGraph(facts)
    # ---------------- R16.1 raw write results
    wi = facts.fn(WINT + "::write", rule="R16.1")
    env = Env(wi["body"])
    raw = [c for c in ir.calls_in(wi["body"]) if callee_name(c) == "write" and c.get("k") == "Call"]
    ok = False
    why = "expected `ret = ::write(fd, p, size); if (ret != size) throw`"
    if len(raw) == 1:
        # the result is compared with the requested size and a mismatch throws
        for n in ir.walk(wi["body"]):
            if n.get("k") == "If" and any(x.get("k") == "Throw" for x in ir.walk(n.get("then"))):
                c = cond(n["cond"], env)
                txt = show_f(c)
                if c[0] == "cmp" and c[1] in ("!=", "<") and "size" in txt and ("ret" in txt or "write(" in txt):
                    ok = True
        used = not any(unwrap(st) is raw[0] for st in ir.stmts(wi["body"]))
        ok = ok and used
        if not ok:
            why = "the result of ::write() is not compared with the requested size (short write / -1 would be ignored)"
    run.ob("R16.1", "Writer<int>::write:result-checked", ok, wi, raw[0].get("l", wi["line"]) if raw else wi["line"],
           "::write()'s result is compared with the size and a mismatch throws" if ok else why)
    exc = exceptions_enabled(facts, WSTR)
    for meth, calls_of in (("write", ("write",)), ("close", ("flush", "close"))):
        f = facts.fn("%s::%s" % (WSTR, meth), rule="R16.1")
        for c in ir.calls_in(f["body"]):
            if c.get("k") == "MCall" and path(c.get("recv")) == ("this", "m_out") and callee_name(c) in calls_of:
                ok = exc or stream_state_tested_after(f, c)
                run.ob("R16.1", "Writer<std::string>::%s:m_out.%s-checked" % (meth, callee_name(c)), ok, f, c.get("l", 0),
                       "stream failure is converted to an exception (%s)" % ("exception mask" if exc else "state test + throw") if ok else
                       "m_out.%s() on a std::ofstream without exception mask and without a test of the stream state afterwards: a full disk or "
                       "I/O error is recorded only in failbit/badbit and never reported (the API documents @throw std::ios_base::failure)" % callee_name(c))
    run.floor("R16.1", 4, "OS/stream write sites")
    check_gather_counts(run, "R16.8")

    # ---------------- R16.2 no swallowing handler on the rotate path
    rots = facts.fns(EXP + "::rotate_output")
    if not rots:
        raise AnalysisBroken("R16.2", "CdnsExporter::rotate_output<T> not instantiated")
    reach = cg.reachable(rots)
    n_h = 0
    seen = set()
    for k, f in sorted(reach.items()):
        if not f.get("file", "").startswith(facts.repo):
            continue
        for tr, h, swallows in handlers(f):
            n_h += 1
            key = "%s:catch(%s)" % (short(f["qn"]), h.get("t"))
            if key in seen:
                continue
            seen.add(key)
            run.ob("R16.2", key, not swallows, f, h.get("l", 0),
                   "handler rethrows" if not swallows else
                   "%s is reachable from CdnsExporter::rotate_output and swallows %s (logs to stderr and returns): a failed write while "
                   "finishing/closing the old output is not reported, rotate_output returns normally for an output that lost bytes" % (short(f["qn"]), h.get("t")))
    if n_h == 0:
        run.ob("R16.2", "no-handlers-on-rotate-path", True, rots[0], rots[0]["line"], "no exception handler on the rotate path", nontrivial=False)
    run.floor("R16.2", 1, "handlers reachable from rotate_output")
    run.info["rotate_path_functions"] = len([f for f in reach.values() if f.get("file", "").startswith(facts.repo)])

    # ---------------- R16.3 recoverability
    for ef in facts.fns(ENC + "::rotate_output"):
        calls = ordered_calls(ef)
        fl = [c for c in calls if callee_qn(c[0]) == ENC + "::flush_buffer"]
        ro = [c for c in calls if callee_qn(c[0]) == BASE + "::rotate_output"]
        # flush_buffer may throw (it calls the writer): the delegate call must also be reached on that exit,
        # i.e. flush is inside a try whose handler performs the rotation, or the staged bytes are discarded and rotation follows
        protected = False
        for tr, h, swallows in handlers(ef):
            in_body = any(callee_qn(c) == ENC + "::flush_buffer" for c in ir.calls_in(tr.get("body")))
            rot_in_handler = any(callee_qn(c) == BASE + "::rotate_output" for c in ir.calls_in(h.get("body")))
            rot_after = False
            if in_body and (rot_in_handler or (swallows and any(callee_qn(c[0]) == BASE + "::rotate_output" and not c[2] for c in calls))):
                protected = True
        fb = facts.fn(ENC + "::flush_buffer", rule="R16.3")
        can_throw = any(callee_qn(c) == BASE + "::write" for c in ir.calls_in(fb["body"]))
        ok = bool(ro) and (protected or not can_throw or not fl)
        run.ob("R16.3", "CdnsEncoder::rotate_output%s:rotates-even-if-flush-fails" % ef.get("targs", ""), ok, ef, ef["line"],
               "the writer is rotated also when flushing to the old output fails" if ok else
               "flush_buffer() can throw (it writes to the failing output) and the exception leaves rotate_output before m_cos->rotate_output(): "
               "the full staging buffer is kept, so every later rotate_output first writes to the broken output again and a persistently "
               "failing output can never be left")
    run.floor("R16.3", 2, "encoder rotate instantiations")

    # ---------------- R16.4 clear only after a successful write
    wb = facts.fn(EXP + "::write_block", sig=[], rule="R16.4")
    order = {id(n): i for i, n in enumerate(ir.walk(wb["body"]))}
    wr = [c for c in ir.calls_in(wb["body"]) if callee_qn(c) == EXP + "::write_block" and c.get("args")]
    cl = [c for c in ir.calls_in(wb["body"]) if callee_qn(c) == "CDNS::CdnsBlock::clear"]
    tries = [n for n in ir.walk(wb["body"]) if n.get("k") == "Try"]
    ok = len(wr) == 1 and len(cl) == 1 and order[id(wr[0])] < order[id(cl[0])] and not tries
    run.ob("R16.4", "write_block():clear-after-successful-write", ok, wb, wb["line"],
           "an exception from the write leaves before clear(): the failed block's records stay buffered" if ok else
           "the buffered block can be cleared although writing it failed (write/clear order or a handler around the write)")
    wbb = facts.fn(EXP + "::write_block", sig=["CDNS::CdnsBlock &"], rule="R16.4")
    tries = [n for n in ir.walk(wbb["body"]) if n.get("k") == "Try"]
    run.ob("R16.4", "write_block(block):no-handler", not tries, wbb, wbb["line"], "write_block(block) propagates exceptions")
    run.floor("R16.4", 2, "write_block obligations")

    # ---------------- R16.6 the buffered block is not cleared while an exception is on its way out
    # (an explicit handler, or a guard object whose destructor also runs during unwinding - the normalisation writes such a
    # guard out as a catch-all handler that performs its action and throws on)
    n6 = 0
    for f in facts.functions.values():
        if f.get("cls") != EXP or f.get("body") is None or f.get("dtor"):
            continue
        for t_ in ir.walk(f["body"]):
            if t_.get("k") != "Try":
                continue
            emits = [c for c in ir.calls_in(t_.get("body")) if callee_qn(c) in (EXP + "::write_block", ENC + "::write_break", ENC + "::rotate_output")]
            if not emits:
                continue
            for h in t_.get("handlers", []):
                n6 += 1
                cl = [c for c in ir.calls_in(h.get("body")) if callee_qn(c) == "CDNS::CdnsBlock::clear" and (path(c.get("recv")) or ())[-1:] == ("m_block",)]
                run.ob("R16.6", "%s:no-clear-while-unwinding#%d" % (short(f["qn"]) + f.get("targs", ""), n6), not cl, f, (cl[0] if cl else h).get("l", f["line"]),
                       "the handler leaves the buffered block alone" if not cl else
                       "m_block.clear() runs while an exception from %s() propagates (%s): after a failed write the records of the failed block are gone, "
                       "the recovery output cannot contain them" % (callee_name(emits[0]), "a guard object's destructor" if t_.get("synthetic") else "explicit handler"))
    if n6 == 0:
        run.ob("R16.6", "no-handler-around-the-export", True, wb, wb["line"], "no handler (and no guard object) encloses a block export in the exporter", nontrivial=False)
    run.floor("R16.6", 1, "handlers around block exports")

    # ---------------- R16.5 rotation starts the new output from a clean slate
    # Whatever exporter state decides how the next block is framed (is a file header due?) must be re-initialised by
    # rotate_output: otherwise a failure in the middle of a block leaves state behind that mis-frames the recovery output.
    check_rotation_resets(run, "R16.5")


def check_rotation_resets(run, rule):
    facts = run.facts
    wbb = ir.normal_path(facts.fn(EXP + "::write_block", sig=["CDNS::CdnsBlock &"], rule=rule))
    env = Env(wbb["body"])
    reads = set()
    for st, g, loops in ir.guarded_statements(wbb["body"], env):
        if st.get("k") in ("IfCond", "LoopHead", "SwitchHead"):
            continue
        if any(callee_qn(c) == EXP + "::write_file_header" for c in ir.calls_in(st)):
            for a in ir.walk_formula(g):
                txt = repr(a)
                import re as _re
                for fld in facts.record(EXP, rule=rule)["fields"]:
                    if _re.search(r"this\.%s(?![A-Za-z0-9_])" % _re.escape(fld["n"]), txt) or ("'this', '%s'" % fld["n"]) in txt:
                        reads.add(fld["n"])
    if not reads:
        run.ob(rule, "write_block:header-state", None, wbb, wbb["line"], "the condition under which the file header is written reads no exporter member")
    rots = [ir.normal_path(f) for f in facts.fns(EXP + "::rotate_output")]
    for ro in rots:
        from .C02 import reset_at_exit, member_writes
        assigned = set()
        for m in sorted(reads):
            ws = member_writes(ro, m)
            # re-initialised: a constant is stored on every normal path (for counters: 0, possibly only when non-zero)
            if reset_at_exit(ro, m, facts)[0]:
                assigned.add(m)
            elif ws and all(w[3] == ("T",) and w[1] == "=" for w in ws):
                assigned.add(m)
        for m in sorted(reads):
            ok = m in assigned
            run.ob(rule, "rotate_output%s:resets-%s" % (ro.get("targs", ""), m), ok, ro, ro["line"],
                   "rotate_output re-initialises %s, which decides whether the next block is preceded by a file header" % m if ok else
                   "write_block() decides about the file header from %s, but rotate_output() does not reset it: state left behind by a failed "
                   "block makes the first block of the recovery output start without (or with a second) header" % m)
    run.floor(rule, 2, "exporter rotate instantiations x header state")

