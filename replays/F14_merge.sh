#!/bin/sh
# builds two inputs with different format versions, merges them and counts the Q/R items of the result (expected: 2)
set -e
d=$(mktemp -d); mkdir -p /tmp/rp/m
g++ -std=gnu++14 -I/repo -msse4 "$(dirname "$0")/F14_merge_gen.cpp" -L/repo/_build -lcdns -Wl,-rpath,/repo/_build -o $d/gen && $d/gen
/repo/_build/cdns-merge -o $d/out.cdns /tmp/rp/m/a.cdns /tmp/rp/m/b.cdns
n=$(/repo/_build/cdns-itemcount $d/out.cdns | head -1); rm -rf $d
echo "merged Q/R items: $n (expected 2)"; [ "$n" = 2 ]
