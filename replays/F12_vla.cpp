#include "src/cdns.h"
#include <iostream>
#include <vector>
#include <fcntl.h>
#include <unistd.h>
int main(){
  using namespace CDNS;
  std::vector<char> big(16u << 20);
  for (size_t i = 0; i < big.size(); i++) big[i] = (char)((i * 2654435761u) >> 13);
  for (int xz = 0; xz < 2; xz++) {
    int fd = open("/dev/null", O_WRONLY);
    if (xz) { XzCborOutputWriter w(fd); w.write(big.data(), big.size()); }
    else    { GzipCborOutputWriter w(fd); w.write(big.data(), big.size()); }
    std::cout << (xz ? "xz" : "gzip") << ": 16 MiB chunk written\n";
  }
  return 0;
}
