"""C06 CBOR encoder emits the RFC 8949 shortest form, independent of buffer position."""
from .. import ir, tables
from ..ir import (path, path_str, unwrap, unwrap_all_casts, callee_name, callee_qn, const_value, show, show_f,
                  Env, cond, conjuncts)
from ..facts import AnalysisBroken

ENC = "CDNS::CdnsEncoder"
U64 = (1 << 64) - 1

META = {
    "level": "other",
    "rule_text": "Complete analysis of cdns_encoder.{h,cpp}: R06.1 interval interpretation of write_int over the "
                 "argument partitions [0,2^64) into the five RFC 8949 head cells with the right additional-information, "
                 "byte count, big-endian shifts, space guard and return value; R06.2 every public write has a flush "
                 "threshold >= the widest head its argument type can need; R06.3 majors / fixed codes; R06.4 every "
                 "store through m_p is bounded by m_avail and only ctor/update_buffer/flush_buffer write m_p/m_avail; "
                 "R06.5 write_string copies min(m_avail,left) per round and flushes between rounds. R06.1/R06.4 for write_int are decided by cell-wise partial evaluation (cells.py); R06.5 by affine analysis of every path through a loop iteration and the tail, with a ghost-counter/invariant fallback for other shapes (affine.py). R06.9: no member of the encoder receives an argument through a conversion that drops bits (controls). R06.6: `return m_p - start` is accepted only when no flush can run between the sample and the return. R06.4: a bulk memcpy to the cursor followed by update_buffer of the same amount under `n <= m_avail`. R06.3: signedness of a comparison is that of its operand after conversions (a uint64 value converted to int64 can be negative). R06.2 also decides value-dependent thresholds `m_avail < H(x)` (H tabulated over every power of two and every constant it mentions, for the values of the argument's source type; bit counts and constant tables evaluated), thresholds held in a local, and runs: write_int inside a loop whose trip count R was taken from the free space (R = m_avail / C, or BUFFER_SIZE / C straight after a flush) with C at least the head an item can need and nothing advancing the cursor between the computation of R and the run; a threshold tested once in front of a loop does not cover the loop's later iterations. R06.4 also: flush_buffer:whenever-staged (the write and the reset happen in every state with m_p > m_buffer), flush_buffer:reports-what-it-flushed (a count it returns is the count handed to the writer), stores after `if (m_avail < K) flush_buffer();` have K bytes free while the cursor has not been advanced, and a function that hands [m_buffer, m_p) to the writer itself and resets the cursor straight afterwards is a flush site of its own. R06.5 knows a gathering write (staged bytes and n bytes of the source in one call), candidate loop invariants (Houdini) and one step of additive reasoning about signs. R06.6 pairs every update_buffer(n) with `acc += n` for accumulating primitives and accepts head + write_string()'s own report. R06.8 is path-sensitive for loop-free functions: every returning path contains an emission or a recognised refusal (null pointer, no space after flushing); `if (c) { emit } else { }` fails.",
    "explanation": "Abstract interpretation (intervals on the value, constant thresholds) plus structural rules over "
                   "the encoder's ~20 functions. The argument is valid for every value and every buffer fill level "
                   "because it compares constants in guards, not executions.",
    "trusted_base": ["clang 14 AST and constant evaluation", "RFC 8949 section 3 head table in rfc8618_tables.json"],
    "assumptions": ["the output writer's write() either stores all bytes or throws (C16)"],
}

TYPE_BITS = {"bool": 1, "unsigned char": 8, "signed char": 8, "char": 8, "unsigned short": 16, "short": 16,
             "unsigned int": 32, "int": 32, "unsigned long": 64, "long": 64, "unsigned long long": 64, "long long": 64}
SIGNED = {"signed char", "char", "short", "int", "long", "long long"}


def need_bytes(maxval):
    for h in tables.rfc()["cbor"]["heads"]:
        if maxval <= h["max"]:
            return h["bytes"]
    return 9


def enc_fns(facts):
    return sorted([f for f in facts.functions.values() if f.get("cls") == ENC], key=lambda f: (f["file"], f["line"]))


def is_member(e, name):
    return path(e) == ("this", name)


def store_through_mp(n):
    """n is `m_p[i] = rhs` -> (i, rhs) else None"""
    if n.get("k") == "Bin" and n.get("op") == "=":
        l = unwrap(n["lhs"])
        if isinstance(l, dict) and l.get("k") == "Index" and is_member(l.get("base"), "m_p"):
            return const_value(l.get("idx")), n["rhs"]
    return None


def head_rhs(rhs):
    """static_cast<uint8_t>(major) | X  ->  (major_expr, X) """
    e = unwrap_all_casts(rhs)
    if isinstance(e, dict) and e.get("k") == "Bin" and e.get("op") == "|":
        a, b = unwrap_all_casts(e["lhs"]), unwrap_all_casts(e["rhs"])
        return a, b
    return None


def shift_of(rhs, var="value"):
    """value >> k -> k ; value -> 0 ; else None"""
    e = unwrap_all_casts(rhs)
    if not isinstance(e, dict):
        return None
    if e.get("k") == "Ref" and e.get("n") == var and e.get("d") == "param":
        return 0
    if e.get("k") == "Bin" and e.get("op") == ">>":
        l = unwrap_all_casts(e["lhs"])
        if isinstance(l, dict) and l.get("k") == "Ref" and l.get("n") == var:
            return const_value(e["rhs"])
    return None


def interval_split(c, lo, hi, var="value"):
    """Split [lo,hi] by comparison `var op K`; returns (then_interval, else_interval) or None."""
    e = unwrap(c)
    if not (isinstance(e, dict) and e.get("k") == "Bin" and e.get("op") in ("<", "<=", ">", ">=")):
        return None
    l, r = unwrap_all_casts(e["lhs"]), unwrap_all_casts(e["rhs"])
    op = e["op"]
    if isinstance(r, dict) and r.get("k") == "Ref" and r.get("n") == var:
        l, r = r, l
        op = {"<": ">", "<=": ">=", ">": "<", ">=": "<="}[op]
        K = const_value(e["lhs"])
    else:
        K = const_value(e["rhs"])
    if not (isinstance(l, dict) and l.get("k") == "Ref" and l.get("n") == var) or K is None:
        return None
    K = int(K)
    if op == "<=":
        return (lo, min(hi, K)), (max(lo, K + 1), hi)
    if op == "<":
        return (lo, min(hi, K - 1)), (max(lo, K), hi)
    if op == ">":
        return (max(lo, K + 1), hi), (lo, min(hi, K))
    if op == ">=":
        return (max(lo, K), hi), (lo, min(hi, K - 1))
    return None


def check_write_int(run):
    """R06.1 by cell-wise partial evaluation (cdnsverif/cells.py): the value domain is partitioned at the constants the
    code compares `value` with, m_avail at the constants it is compared with; per cell the bytes stored and the value
    returned are read off the abstract state.  Independent of whether the code is an if-chain with unrolled stores, a
    length helper with a switch and a loop, or anything else the evaluator can decide."""
    from .. import cells
    facts = run.facts
    f = facts.fn("CDNS::CdnsEncoder::write_int", rule="R06.1")
    vp, mp = f["params"][0]["n"], f["params"][1]["n"]
    try:
        tab = cells.tabulate(f, facts, vp, mp)
    except cells.Unknown as ex:
        run.ob("R06.1", "write_int:shape", None, f, f["line"], "write_int is not decidable cell by cell (%s)" % ex)
        run.floor("R06.1", 7, "write_int obligations")
        return
    heads = tables.rfc()["cbor"]["heads"]
    want = []
    lo = 0
    for h in heads:
        want.append((lo, h["max"], h))
        lo = h["max"] + 1
    # behaviour classes: adjacent cells with the same (head length on the fitting path) are one range of the code
    def fit_len(paths):
        ls = sorted(set(len(p[2]) for p in paths if p[2]))
        return ls[-1] if ls else 0
    ranges_ = []
    for lo_, hi_, paths in tab:
        L = fit_len(paths)
        if ranges_ and ranges_[-1][2] == L and ranges_[-1][1] + 1 == lo_:
            ranges_[-1] = (ranges_[-1][0], hi_, L)
        else:
            ranges_.append((lo_, hi_, L))
    got = [(r[0], r[1]) for r in ranges_]
    ok = got == [(w[0], w[1]) for w in want]
    run.ob("R06.1", "write_int:partition", ok, f, f["line"],
           "value ranges partition [0,2^64) into the five RFC 8949 cells" if ok else
           "value ranges are %s, RFC 8949 preferred serialisation needs %s" % (got, [(w[0], w[1]) for w in want]))
    refusing = []
    for (wlo, whi, h) in want:
        n = h["bytes"]
        tag = "write_int:cell[%d..%s]" % (wlo, "2^64-1" if whi == U64 else whi)
        problems = []
        subs = [c for c in tab if not (c[1] < wlo or c[0] > whi)]
        if any(c[0] < wlo or c[1] > whi for c in subs):
            problems.append("the code does not distinguish this range from its neighbour")
        for lo_, hi_, paths in subs:
            for alo, ahi, stores, ret, how in paths:
                try:
                    if ahi < n:
                        refusing.append((ret, stores, how))
                        if stores:
                            problems.append("stores %d byte(s) although only %d..%d are free" % (len(stores), alo, ahi))
                        continue
                    if alo < n:
                        if stores:
                            problems.append("space guard lets %d..%d free bytes through, the head needs %d bytes" % (alo, ahi, n))
                            continue
                        refusing.append((ret, stores, how))
                        problems.append("refuses with %d..%d free bytes although a %d-byte head fits" % (alo, ahi, n))
                        continue
                    if how != "return" or ret != cells.C(n):
                        problems.append("returns %s, stores %d bytes" % (ret[1] if ret and cells.is_c(ret) else ret, len(stores)))
                    if sorted(stores) != list(range(n)):
                        problems.append("stores bytes %s, expected 0..%d" % (sorted(stores), n - 1))
                        continue
                    b0 = cells.trunc8(stores[0])
                    exp0 = ("or", tuple(sorted([("major",), ("byte", 0) if h["ai"] == "value" else cells.C(h["ai"])], key=repr)))
                    if b0 != exp0:
                        parts = list(b0[1]) if b0[0] == "or" else [b0]
                        if ("major",) not in parts:
                            problems.append("first byte does not use the major type parameter")
                        ai_parts = [p for p in parts if p != ("major",)]
                        if h["ai"] == "value":
                            problems.append("additional information must be the value itself for 0..23")
                        else:
                            problems.append("additional information is %s, RFC 8949 requires %d for a %d-byte head" % (
                                ai_parts[0][1] if len(ai_parts) == 1 and ai_parts[0][0] == "c" else ai_parts, h["ai"], n))
                    for k in range(1, n):
                        bk = cells.trunc8(stores[k])
                        if bk != ("byte", 8 * (n - 1 - k)):
                            problems.append("m_p[%d] = %s, big-endian needs value >> %d" % (
                                k, ("value >> %d" % bk[1]) if bk[0] == "byte" else bk, 8 * (n - 1 - k)))
                except cells.Unknown as ex:
                    problems.append("byte expression not understood (%s)" % ex)
        problems = sorted(set(problems))
        run.ob("R06.1", tag, not problems if subs else None, f, f["line"],
               "ai=%s, %d bytes, big-endian, stored only when m_avail >= %d, returns %d" % (h["ai"], n, n, n) if not problems else "; ".join(problems))
    ok0 = bool(refusing) and all(r[0] == cells.C(0) and not r[1] and r[2] == "return" for r in refusing)
    run.ob("R06.1", "write_int:no-space-returns-0", ok0, f, f["line"],
           "returns 0 and stores nothing when the head does not fit" if ok0 else "the no-space path does not `return 0` without storing")
    run.floor("R06.1", 7, "write_int obligations")


def flush_guards(fn, env):
    """[(structured index, K)] for `if (m_avail < K) flush_buffer();`"""
    out = []
    leafs = [x for x in ir.guarded_statements(fn["body"], env)]
    for i, (st, g, loops) in enumerate(leafs):
        if st.get("k") in ("IfCond", "LoopHead", "SwitchHead"):
            continue
        for c in ir.calls_in(st):
            if callee_qn(c) == "CDNS::CdnsEncoder::flush_buffer":
                for cj in conjuncts(g):
                    if cj[0] == "cmp" and cj[1] == "<" and cj[2] == "this.m_avail" and cj[3].isdigit():
                        out.append((i, int(cj[3]), loops))
                    elif cj[0] == "cmp" and cj[1] == "<=" and cj[2] == "this.m_avail" and cj[3].isdigit():
                        out.append((i, int(cj[3]) + 1, loops))
    return out, leafs


def run_reservation(f, c, need):
    """write_int(item) inside a loop that writes a *run* of items without a per-item space test: the run length R was taken
    from the free space, `R = m_avail / C` (or `R = BUFFER_SIZE / C` straight after a flush), C at least the head an item can
    need, the loop runs at most R times, and between the moment R was computed and the loop nothing else advances the cursor.
    -> (verdict, text)"""
    pos = {id(x): i for i, x in enumerate(ir.walk(f["body"]))}
    chain = None
    for n_, ps_ in ir.walk_with_parents(f["body"]):
        if n_ is c:
            chain = [p_ for p_ in ps_ if isinstance(p_, dict)]
    if chain is None:
        return None, "call site not found"
    lps = [p_ for p_ in chain if p_.get("k") in ("For", "While", "Do")]
    if not lps:
        return None, "not inside a loop"
    L = lps[-1]
    O = lps[-2] if len(lps) > 1 else None
    inside_L = set(id(x) for x in ir.walk(L))

    def defs_of(ref):
        out = []
        for x in ir.walk(f["body"]):
            if x.get("k") == "Decl":
                out += [(x, v_["init"]) for v_ in x.get("vars", []) if v_.get("id") == ref.get("id") and v_.get("n") == ref.get("n") and v_.get("init") is not None]
            elif x.get("k") == "Bin" and x.get("op") == "=" and path(x.get("lhs")) == path(ref):
                out.append((x, x.get("rhs")))
        return out

    def div_form(e):
        u = unwrap_all_casts(e)
        if isinstance(u, dict) and u.get("k") == "Bin" and u.get("op") == "/":
            cst = const_value(u.get("rhs"))
            if isinstance(cst, int) and cst > 0:
                if is_member(unwrap_all_casts(u["lhs"]), "m_avail"):
                    return ("avail", cst)
                ul = unwrap_all_casts(u["lhs"])
                if isinstance(ul, dict) and ul.get("k") == "Ref" and ul.get("n") == "BUFFER_SIZE":
                    return ("capacity", cst)
        return None
    # the run length behind the loop's bound
    cands = []
    for x in ir.walk(L.get("cond") or {}):
        if x.get("k") == "Ref" and x.get("d") == "local":
            cands.append(x)
    R = None
    for r_ in cands:
        ds = defs_of(r_)
        kinds = []
        for node_, e_ in ds:
            d_ = div_form(e_)
            if d_ is not None:
                kinds.append((node_, d_))
                continue
            ue = unwrap_all_casts(e_)
            if isinstance(ue, dict) and ue.get("k") == "Call" and (callee_qn(ue) or "").split("<")[0] == "std::min":
                inner = [a_ for a_ in ue.get("args", []) if isinstance(unwrap_all_casts(a_), dict) and unwrap_all_casts(a_).get("k") == "Ref" and unwrap_all_casts(a_).get("d") == "local"]
                sub = [(n2, div_form(e2)) for a_ in inner for n2, e2 in defs_of(unwrap_all_casts(a_)) if div_form(e2) is not None]
                if sub:
                    kinds += sub
                    continue
            kinds.append((node_, None))
        divs = [k_ for k_ in kinds if k_[1] is not None]
        # stores that are not a division may only lower the bound (`if (run > left) run = left;`)
        others = [k_ for k_ in kinds if k_[1] is None]
        lowering = True
        for node_, _ in others:
            ok_ = False
            for n2, ps2 in ir.walk_with_parents(f["body"]):
                if n2 is node_:
                    for p2 in reversed(ps2):
                        if isinstance(p2, dict) and p2.get("k") == "If":
                            cu = unwrap(p2.get("cond"))
                            if isinstance(cu, dict) and cu.get("k") == "Bin" and cu.get("op") in (">", "<") and (
                                    path(cu.get("lhs")) == path(r_) or path(cu.get("rhs")) == path(r_)):
                                ok_ = True
                            break
            lowering = lowering and ok_
        if divs and lowering:
            R = (r_, divs)
            break
    if R is None:
        return None, "write_int(%s) inside a loop whose trip count is not recognisably bounded by a run length computed as m_avail / C" % show(c["args"][0])
    r_, divs = R
    cmin = min(d_[1][1] for d_ in divs)
    if cmin < need:
        return False, "the run length %s reserves %d byte(s) per item, but write_int(%s) can need %d: near the end of the buffer an item is refused and " \
            "silently dropped" % (show(r_), cmin, show(c["args"][0]), need)
    def advance(x):
        return x.get("k") in ("MCall", "Call") and (x.get("callee") or {}).get("cls") == ENC and (
            callee_name(x) == "update_buffer" or (callee_name(x) or "").startswith("write_") and callee_name(x) != "write_int" or callee_name(x) == "write")
    adv = [x for x in ir.walk(f["body"]) if advance(x) and id(x) not in inside_L]
    pL = pos[id(L)]
    for node_, (kind_, cst_) in divs:
        pd = pos[id(node_)]
        if pd < pL:
            between = [x for x in adv if pd < pos[id(x)] < pL]
        elif O is not None and any(x is node_ for x in ir.walk(O)):
            inO = set(id(x) for x in ir.walk(O))
            between = [x for x in adv if id(x) in inO and (pos[id(x)] > pd or pos[id(O)] < pos[id(x)] < pL)]
        else:
            return None, "the run length is computed after the loop it bounds"
        if between:
            b0 = between[0]
            return False, "the run length %s is computed at line %s from the space free at that moment, but %s at line %s advances the cursor before the " \
                "run is written: the last item(s) of the run find no room, write_int refuses and they are silently dropped" % (
                    show(r_), node_.get("l"), show(b0)[:40], b0.get("l"))
        if kind_ == "capacity":
            # only right after a flush is the whole capacity free
            okf = False
            for b_ in ir.walk(f["body"]):
                if b_.get("k") == "Block":
                    sts_ = b_.get("s", [])
                    for i_, s_ in enumerate(sts_):
                        if unwrap(s_) is node_ or s_ is node_:
                            pv = unwrap(sts_[i_ - 1]) if i_ > 0 else None
                            okf = isinstance(pv, dict) and pv.get("k") == "MCall" and callee_qn(pv) == "CDNS::CdnsEncoder::flush_buffer"
            if not okf:
                return None, "a run length of BUFFER_SIZE / C that does not directly follow flush_buffer()"
    # one item, one advance per iteration
    wi = [x for x in ir.walk(L) if x.get("k") in ("MCall", "Call") and callee_qn(x) == "CDNS::CdnsEncoder::write_int"]
    ub = [x for x in ir.walk(L) if x.get("k") == "MCall" and callee_qn(x) == "CDNS::CdnsEncoder::update_buffer"]
    other = [x for x in ir.walk(L) if advance(x) and callee_name(x) != "update_buffer"]
    if len(wi) != 1 or len(ub) != 1 or other:
        return None, "a run loop that does not write exactly one item per iteration"
    return True, "a run of at most %s items, %d byte(s) reserved for each (an item needs at most %d); nothing advances the cursor between the moment the run " \
        "length is taken from m_avail and the run" % (show(r_), cmin, need)


def dynamic_flush_guards(fn, facts):
    """[(preorder index of the if, callee fn, argument expr)] for `if (m_avail < H(x)) flush_buffer();` with H in the repo."""
    out = []
    order = {id(n): i for i, n in enumerate(ir.walk(fn["body"]))}
    for n in ir.walk(fn["body"]):
        if n.get("k") != "If" or not any(callee_qn(c) == "CDNS::CdnsEncoder::flush_buffer" for c in ir.calls_in(n.get("then"))):
            continue
        c = unwrap(n["cond"])
        if not (isinstance(c, dict) and c.get("k") == "Bin" and c.get("op") == "<" and path(c["lhs"]) == ("this", "m_avail")):
            continue
        r = unwrap_all_casts(c["rhs"])
        if isinstance(r, dict) and r.get("k") == "Ref" and r.get("d") == "local":
            # `reserve(H(x))` expanded: the threshold sits in a local with one definition
            d_ = Env(fn["body"]).defs.get(path(r)[0]) if path(r) else None
            if d_ is not None:
                r = unwrap_all_casts(d_)
        if isinstance(r, dict) and r.get("k") in ("Call", "MCall") and (r.get("callee") or {}).get("inrepo") and len(r.get("args", [])) == 1:
            cal = r["callee"]
            cands = [g for g in facts.fns(cal["qn"]) if g["sig"] == cal["sig"] and g.get("targs", "") == cal.get("targs", "")]
            if len(cands) == 1:
                out.append((order[id(n)], cands[0], r["args"][0]))
    return out, order


def head_fn_value(hfn, v, facts):
    """H(v) for a head-size function: straight-line evaluation for one concrete argument (comparisons, arithmetic, bit counts,
    look-ups in constant arrays of the translation unit)"""
    from .. import minieval
    arrays = {}
    for x in ir.walk(hfn["body"]):
        if x.get("k") == "Ref" and x.get("d") == "global" and "[" in (x.get("t") or ""):
            for gv in facts.vars:
                if gv.get("qn") == (x.get("qn") or x.get("n")) and gv.get("const"):
                    il = unwrap_all_casts(gv.get("init")) if gv.get("init") is not None else None
                    if isinstance(il, dict) and il.get("k") == "InitList":
                        vals = [const_value(c_) for c_ in il.get("c", [])]
                        if all(isinstance(c_, int) for c_ in vals):
                            arrays[gv["qn"]] = vals
    env = {"p:%s" % hfn["params"][0]["n"]: v, "@arrays": arrays}
    try:
        r = minieval.run_straightline(ir.stmts(hfn["body"]), env, facts.enums)
        if r[0] != "return" or r[1].get("e") is None:
            return None
        return minieval.ev(unwrap(r[1]["e"]), env, facts.enums)
    except minieval.Unknown:
        return None


def head_fn_points(hfn, lo, hi):
    pts = set([lo, hi])
    for b in (0, 23, 24, 255, 256, 65535, 65536, (1 << 32) - 1, 1 << 32, -1, -24, -25, -256, -257, -65536, -65537, -(1 << 32), -(1 << 32) - 1):
        pts.add(b)
    # a function built from bit counts and shifts can change at every power of two
    for b in range(1, 65):
        pts.update(((1 << b) - 1, 1 << b, -(1 << b), -(1 << b) - 1))
    for x in ir.walk(hfn["body"]):
        cv = const_value(x)
        if isinstance(cv, int) and not isinstance(cv, bool):
            pts.update((cv - 1, cv, cv + 1))
    return sorted(p_ for p_ in pts if lo <= p_ <= hi)


_ENUMS = {}


def arg_max(e, fn):
    """Upper bound of the unsigned value passed to write_int, from source types."""
    u = unwrap(e)
    cv = const_value(e)
    if cv is not None:
        return int(cv), "constant %s" % cv
    if not isinstance(u, dict):
        return U64, "unknown"
    inner = unwrap_all_casts(u)
    if isinstance(inner, dict) and inner.get("k") == "Cond":
        a_, b_ = arg_max(inner.get("a"), fn), arg_max(inner.get("b"), fn)
        return max(a_[0], b_[0]), "the larger of %s and %s" % (a_[1], b_[1])
    if isinstance(inner, dict) and inner.get("k") == "Un" and inner.get("op") == "~":
        x = unwrap_all_casts(inner["e"])
        t = x.get("t") if isinstance(x, dict) else None
        if t in SIGNED:
            return (1 << (TYPE_BITS[t] - 1)) - 1, "~(%s) of a negative %s" % (show(x), t)
        return U64, "~ of %s" % t
    if isinstance(inner, dict) and (inner.get("k") == "Un" and inner.get("op") == "*" or inner.get("k") == "OpCall" and inner.get("op") == "*"):
        # an element reached through a pointer or an iterator: the element type (an enumeration counts with its underlying type)
        t = (inner.get("t") or "").replace("const ", "").replace("&", "").strip()
        if t in _ENUMS and _ENUMS[t].get("underlying"):
            t = _ENUMS[t]["underlying"]
        if t in TYPE_BITS:
            return ((1 << (TYPE_BITS[t] - 1)) - 1 if t in SIGNED else (1 << TYPE_BITS[t]) - 1), "%s of type %s" % (show(inner), t)
    if isinstance(inner, dict) and inner.get("k") in ("Ref", "Member", "MCall"):
        t = inner.get("t")
        if t in TYPE_BITS:
            bits = TYPE_BITS[t]
            return ((1 << (bits - 1)) - 1 if t in SIGNED else (1 << bits) - 1), "%s of type %s" % (show(inner), t)
    t = u.get("t")
    if t in TYPE_BITS:
        return (1 << TYPE_BITS[t]) - 1, "expression of type %s" % t
    return U64, "unknown"


MAJOR_OF = {
    "write_array_start": "ARRAY", "write_map_start": "MAP", "write_bytestring": "BYTE_STRING",
    "write_textstring": "TEXT_STRING",
}


class _Renamed:
    """Run a rule function with its obligations filed under other rule ids (None = not claimed by the importing property)."""
    def __init__(self, run, mapping):
        self._run, self._map = run, mapping

    def __getattr__(self, name):
        return getattr(self._run, name)

    def ob(self, rule, *a, **kw):
        r = self._map.get(rule, rule)
        if r is not None:
            return self._run.ob(r, *a, **kw)

    def floor(self, rule, *a, **kw):
        r = self._map.get(rule, rule)
        if r is not None:
            return self._run.floor(r, *a, **kw)


def lossy_state_stores(fn, enums):
    """Assignments `this.<member> = <implicit integral conversion whose operand range does not fit the member's type>`:
    [(node, operand range, target type)].  (Stores through the cursor m_p are the encoding itself and are decided byte by
    byte by R06.1; this is about what the encoder remembers between calls.)"""
    from .. import ranges
    lossy = {id(n): (n, r, t) for n, r, t in ranges.narrowing_conversions(fn, enums)}
    out = []
    for n in ir.walk(fn["body"]):
        if n.get("k") == "Bin" and n.get("op") == "=":
            lp = path(n.get("lhs"))
            rhs = n.get("rhs")
            if lp and lp[0] == "this" and len(lp) >= 2 and isinstance(rhs, dict) and id(rhs) in lossy:
                out.append(lossy[id(rhs)])
    return out


def check_lossy_state(run, rule):
    facts = run.facts
    if not lossy_state_stores(facts.control("r06_9_state::remember", rule), facts.enums) or \
            lossy_state_stores(facts.control("r06_9_state::remember_wide", rule), facts.enums):
        raise AnalysisBroken(rule, "the lossy-state detector gives the wrong answer on its controls (tu/rule_controls.cpp)")
    n = 0
    for f in enc_fns(facts):
        n += 1
        bad = lossy_state_stores(f, facts.enums)
        run.ob(rule, "%s(%s):state-keeps-all-bits" % (f["qn"].split("::")[-1], ",".join(f["sig"])), not bad, f, bad[0][0].get("l", f["line"]) if bad else f["line"],
               "nothing the encoder remembers between calls is narrowed on the way into a member" if not bad else
               "a value with range [%d, %d] is stored into encoder state of type %s: two different arguments become indistinguishable to later "
               "calls that consult this member" % (bad[0][1][0], bad[0][1][1], bad[0][2]), nontrivial=False)
    run.floor(rule, 15, "encoder member functions")


def check_public_writes(run, rename=None):
    if rename:
        run = _Renamed(run, rename)
    facts = run.facts
    _ENUMS.clear()
    _ENUMS.update(facts.enums or {})
    cb = facts.enum("CDNS::CborType", rule="R06.3")
    majors = tables.rfc()["cbor"]["majors"]
    ev = {e["n"]: e["v"] for e in cb["enumerators"]}
    for name, mj in majors.items():
        ok = ev.get(name) == mj << 5
        run.ob("R06.3", "CborType::%s" % name, ok, cb["file"], cb["line"],
               "major %d encoded as 0x%02X" % (mj, mj << 5) if ok else "CborType::%s = %s, RFC 8949 major %d is 0x%02X" % (name, ev.get(name), mj, mj << 5),
               nontrivial=False)
    ok = ev.get("BREAK") == tables.rfc()["cbor"]["break_byte"]
    run.ob("R06.3", "CborType::BREAK", ok, cb["file"], cb["line"], "break stop code is 0xFF", nontrivial=False)

    nsites = 0
    for f in enc_fns(facts):
        nm = f["qn"].split("::")[-1]
        if not nm.startswith("write") or nm in ("write_int", "write_string"):
            continue
        env = Env(f["body"])
        fg, leafs = flush_guards(f, env)
        dyn, dorder = dynamic_flush_guards(f, facts)
        sigs = ",".join(f["sig"])
        fname = "%s(%s)" % (nm, sigs)
        for i, (st, g, loops) in enumerate(leafs):
            if st.get("k") in ("IfCond", "LoopHead", "SwitchHead"):
                continue
            for c in ir.calls_in(st):
                if callee_qn(c) != "CDNS::CdnsEncoder::write_int":
                    continue
                nsites += 1
                mx, why = arg_max(c["args"][0], f)
                need = need_bytes(mx)
                # (a threshold tested once in front of a loop covers the first item written in the loop, not the later ones)
                ks = [k for (j, k, lp) in fg if j < i and [id(x_) for x_ in lp] == [id(x_) for x_ in loops]]
                K = max(ks) if ks else 0
                key = "%s:write_int(%s)" % (fname, show(c["args"][0]))
                if K < need and dyn:
                    # value-dependent threshold `m_avail < H(x)`: tabulate H over the finite set of points where H or the
                    # RFC head size can change, for the value range of this branch
                    dd = [d for d in dyn if d[0] < dorder[id(c)]]
                    # ... of the guards in front of the call, the ones on a path that can reach it (a threshold computed under
                    # `value < 0` does not protect the write under `value >= 0`)
                    def guard_of(ifn_order):
                        for st2, g2, lp2 in leafs:
                            if st2.get("k") == "IfCond" and dorder.get(id(st2.get("node"))) == ifn_order:
                                return g2
                        for st2, g2, lp2 in leafs:
                            if dorder.get(id(st2)) is not None and dorder[id(st2)] > ifn_order and st2.get("k") not in ("IfCond", "LoopHead", "SwitchHead"):
                                return None
                        return None
                    dd2 = []
                    pk0 = "p:%s" % f["params"][0]["n"] if f.get("params") else None
                    for d in dd:
                        gd = guard_of(d[0])
                        compatible = gd is None or ir.f_and(gd, g) != ("F",)
                        if compatible and gd is not None and pk0:
                            # (the two guards as conditions on the argument's sign)
                            compatible = any(ir.eval_formula(gd, {pk0: v_}) is not False and ir.eval_formula(g, {pk0: v_}) is not False
                                             for v_ in (-(1 << 40), -256, -1, 0, 1, 255, 1 << 40))
                        if compatible:
                            dd2.append(d)
                    dd = dd2 or dd
                    verdict = None
                    msg = ""
                    if dd:
                        _, hfn, harg = dd[-1]
                        a0 = unwrap_all_casts(c["args"][0])
                        h0 = unwrap_all_casts(harg)
                        same = show(a0) == show(h0)
                        compl = isinstance(a0, dict) and a0.get("k") == "Un" and a0.get("op") == "~" and show(unwrap_all_casts(a0["e"])) == show(h0)
                        ht = (hfn["params"][0]["t"] or "").replace("const ", "")
                        if ht in TYPE_BITS and (same or compl):
                            bits = TYPE_BITS[ht]
                            lo, hi = ((-(1 << (bits - 1)), (1 << (bits - 1)) - 1) if ht in SIGNED else (0, (1 << bits) - 1))
                            # the argument handed to H comes from a narrower type: H is only ever asked about that type's values
                            src_ = unwrap_all_casts(harg)
                            st_ = (src_.get("t") or "").replace("const ", "") if isinstance(src_, dict) else ""
                            if st_ in TYPE_BITS and src_.get("k") in ("Ref", "Member"):
                                sb_ = TYPE_BITS[st_]
                                slo_, shi_ = ((-(1 << (sb_ - 1)), (1 << (sb_ - 1)) - 1) if st_ in SIGNED else (0, (1 << sb_) - 1))
                                full_ = (lo, hi)
                                lo, hi = slo_, shi_
                            else:
                                full_ = None
                            pk = "p:%s" % f["params"][0]["n"] if f.get("params") else None
                            h_is_param = path(h0) == (pk,) if isinstance(h0, dict) and pk else False
                            if h_is_param and any(cj == ("cmp", "<", pk, "0") for cj in conjuncts(g)):
                                hi = -1
                            elif h_is_param and any(cj in (("cmp", "<=", "0", pk),) for cj in conjuncts(g)):
                                lo = max(lo, 0)
                            if not h_is_param:
                                lo = max(lo, 0) if same else lo
                            if same and mx is not None:
                                hi = min(hi, mx)        # H is asked about the very value write_int is given
                            if full_ is not None:
                                if lo < full_[0]:
                                    lo, hi = full_      # a negative value converted to the unsigned parameter: the whole range
                                else:
                                    hi = min(hi, full_[1])
                            badpts = []
                            for v in head_fn_points(hfn, lo, hi):
                                hv = head_fn_value(hfn, v, facts)
                                wanted = need_bytes((~v) if compl else v) if ((~v) if compl else v) >= 0 else None
                                if hv is None or wanted is None:
                                    verdict = None
                                    badpts = None
                                    break
                                if hv < wanted:
                                    badpts.append((v, hv, wanted))
                            if badpts is not None:
                                verdict = not badpts
                                msg = ("value-dependent flush threshold %s(%s) is at least the head size for every value of this branch" % (hfn["qn"].split("::")[-1], show(harg))) if verdict else \
                                    "flush threshold %s(%s) reserves %d byte(s) for %s = %d but write_int(%s) needs %d: near the end of the buffer write_int refuses and the item is silently dropped" % (
                                        hfn["qn"].split("::")[-1], show(harg), badpts[0][1], show(harg), badpts[0][0], show(c["args"][0]), badpts[0][2])
                    if verdict is None and not msg:
                        msg = "value-dependent flush threshold in a form the rule does not understand"
                    run.ob("R06.2", key, verdict, f, c["l"], msg)
                elif K < need and loops and not nm.startswith("write_int") and any(
                        x_.get("k") == "Bin" and x_.get("op") in ("/", "/=") and "m_avail" in show(x_) for x_ in ir.walk(f["body"])):
                    v_, t_ = run_reservation(f, c, need)
                    run.ob("R06.2", key, v_, f, c["l"], t_)
                else:
                  run.ob("R06.2", key, K >= need, f, c["l"],
                       "flush threshold %d >= worst-case head %d (%s)" % (K, need, why) if K >= need else
                       "flush threshold is %d but %s can need a %d-byte head: write_int refuses and the item is silently dropped near the buffer end"
                       % (K, why, need))
                # major
                mj = unwrap_all_casts(c["args"][1])
                mjn = mj.get("n") if isinstance(mj, dict) and mj.get("d") == "enumconst" else None
                want = None
                a0 = unwrap_all_casts(c["args"][0])
                if nm in MAJOR_OF:
                    want = MAJOR_OF[nm]
                elif nm == "write" and f["sig"] == ["bool"]:
                    want = "SIMPLE"
                    tv = tables.rfc()["cbor"]
                    param = f["params"][0]["n"]
                    # `write_int(value ? 21 : 20, ..)` is the two guarded stores in one expression
                    alts = [(g, const_value(c["args"][0]))]
                    if isinstance(a0, dict) and a0.get("k") == "Cond":
                        cf = ir.cond(a0["c"], env)
                        alts = [(ir.f_and(g, cf), const_value(a0["a"])), (ir.f_and(g, ir.f_not(cf)), const_value(a0["b"]))]
                    for ga, lit in alts:
                        gpos = ("nz", "p:%s" % param) in conjuncts(ga)
                        gneg = ("not", ("nz", "p:%s" % param)) in conjuncts(ga)
                        okb = (lit == tv["true"] and gpos) or (lit == tv["false"] and gneg)
                        run.ob("R06.3", "%s:bool-code(%s)" % (fname, lit), okb, f, c["l"],
                               "true -> simple 21, false -> simple 20" if okb else
                               "simple value %s written under guard %s; RFC 8949: false=20, true=21" % (lit, show_f(ga)))
                elif nm == "write" and f["sig"] and f["sig"][0] in SIGNED:
                    param = f["params"][0]["n"]
                    isneg = any(cj == ("cmp", "<", "p:%s" % param, "0") for cj in conjuncts(g))
                    isnonneg = any(cj in (("cmp", "<=", "0", "p:%s" % param), ("cmp", ">=", "p:%s" % param, "0")) for cj in conjuncts(g))
                    is_not = isinstance(a0, dict) and a0.get("k") == "Un" and a0.get("op") == "~"
                    if isneg:
                        want = "NEGATIVE"
                        run.ob("R06.3", "%s:negative-argument" % fname, is_not, f, c["l"],
                               "negative n encoded as ~n = -1-n" if is_not else
                               "negative value must be encoded as -1-n (~n); found %s" % show(c["args"][0]))
                    elif isnonneg:
                        want = "UNSIGNED"
                        run.ob("R06.3", "%s:nonnegative-argument" % fname, not is_not and path(a0) == ("p:%s" % param,), f, c["l"],
                               "non-negative value encoded as itself")
                    else:
                        run.ob("R06.3", "%s:sign-split" % fname, False, f, c["l"],
                               "write_int call for a signed overload is not under a `value < 0` / else split (guard %s)" % show_f(g))
                        continue
                elif nm == "write":
                    want = "UNSIGNED"
                if want is not None:
                    run.ob("R06.3", "%s:major(%s)" % (fname, show(c["args"][0])), mjn == want, f, c["l"],
                           "major type %s" % want if mjn == want else "major type is %s, must be %s" % (mjn, want))
        # fixed one-byte codes
        if nm in ("write_indef_array_start", "write_indef_map_start", "write_break"):
            want_major = {"write_indef_array_start": "ARRAY", "write_indef_map_start": "MAP", "write_break": "SIMPLE"}[nm]
            stores = [(n, store_through_mp(n)) for n in ir.walk(f["body"]) if n.get("k") == "Bin" and store_through_mp(n)]
            ok = False
            why = "expected a single store m_p[0] = %s | 31" % want_major
            if len(stores) == 1 and stores[0][1][0] == 0:
                hr = head_rhs(stores[0][1][1])
                if hr:
                    a, b = hr
                    if isinstance(b, dict) and b.get("d") == "enumconst":
                        a, b = b, a
                    if isinstance(a, dict) and a.get("d") == "enumconst" and a.get("n") == want_major and const_value(b) == 31:
                        ok, why = True, "%s|31" % want_major
                    else:
                        why = "stores %s | %s, RFC 8949 requires %s | 31" % (a.get("n") if isinstance(a, dict) else "?", const_value(b), want_major)
            run.ob("R06.3", "%s:code" % nm, ok, f, f["line"], why)
            # flush threshold 1
            ks = [k for (j, k, lp) in fg]
            run.ob("R06.2", "%s:threshold" % nm, bool(ks) and max(ks) >= 1, f, f["line"],
                   "flushes when no byte is free" if ks else "no flush before a one-byte store")
            nsites += 1
    run.floor("R06.2", 18, "write_int call sites + one-byte codes")
    run.floor("R06.3", 25, "major/fixed-code obligations")
    run.info["write_int_call_sites"] = nsites


def flush_shaped(fn):
    """every store to m_p / m_avail in fn belongs to a group  <output writer call>(m_buffer, m_p - m_buffer, ..); m_p = m_buffer;
    m_avail = BUFFER_SIZE;  - adjacent statements of one block, the staged bytes handed over first"""
    stores = [x for x in ir.walk(fn["body"]) if x.get("k") == "Bin" and (x.get("op") or "").endswith("=") and x.get("op") not in ("==", "!=", "<=", ">=") and
              path(x.get("lhs")) in (("this", "m_p"), ("this", "m_avail"))]
    stores += [x for x in ir.walk(fn["body"]) if x.get("k") == "Un" and x.get("op") in ("pre++", "post++", "pre--", "post--") and
               path(x.get("e")) in (("this", "m_p"), ("this", "m_avail"))]
    if not stores:
        return False
    covered = set()
    for b in ir.walk(fn["body"]):
        if b.get("k") != "Block":
            continue
        sts = b.get("s", [])
        for i, s_ in enumerate(sts):
            u = unwrap(s_)
            if not (isinstance(u, dict) and u.get("k") == "MCall" and len(u.get("args", [])) >= 2):
                continue
            rc = path(unwrap_all_casts(u.get("recv")))
            recv_txt = show(u.get("recv"))
            if "m_cos" not in recv_txt:
                continue
            a0, a1 = unwrap_all_casts(u["args"][0]), unwrap_all_casts(u["args"][1])
            if not (is_member(a0, "m_buffer") and isinstance(a1, dict) and a1.get("k") == "Bin" and a1.get("op") == "-" and
                    is_member(unwrap_all_casts(a1["lhs"]), "m_p") and is_member(unwrap_all_casts(a1["rhs"]), "m_buffer")):
                continue
            nxt = [unwrap(x) for x in sts[i + 1:i + 3]]
            got = {}
            for x in nxt:
                if isinstance(x, dict) and x.get("k") == "Bin" and x.get("op") == "=":
                    if path(x.get("lhs")) == ("this", "m_p") and is_member(unwrap_all_casts(x.get("rhs")), "m_buffer"):
                        got["m_p"] = x
                    if path(x.get("lhs")) == ("this", "m_avail") and (unwrap_all_casts(x.get("rhs")) or {}).get("n") == "BUFFER_SIZE":
                        got["m_avail"] = x
            if len(got) == 2:
                covered |= {id(got["m_p"]), id(got["m_avail"])}
    return all(id(x) in covered for x in stores)


def check_buffer_discipline(run):
    facts = run.facts
    # who may write m_p / m_avail
    allowed = {"CDNS::CdnsEncoder::update_buffer", "CDNS::CdnsEncoder::flush_buffer"}
    writers = {}
    nstores = 0
    for f in enc_fns(facts):
        env = Env(f["body"])
        for st, g, loops in ir.guarded_statements(f["body"], env):
            if st.get("k") in ("IfCond", "LoopHead", "SwitchHead"):
                continue
            for n in ir.walk(st):
                k = n.get("k")
                tgt = None
                if k == "Bin" and n.get("op", "").endswith("=") and n["op"] not in ("==", "!=", "<=", ">="):
                    tgt = path(n["lhs"])
                elif k == "Un" and n.get("op") in ("pre++", "post++", "pre--", "post--"):
                    tgt = path(n["e"])
                if tgt in (("this", "m_p"), ("this", "m_avail")):
                    writers.setdefault(f["qn"], []).append((tgt[1], n))
                # stores through m_p
                sm = store_through_mp(n)
                if sm is not None and f["qn"].endswith("::write_int"):
                    nstores += 1
                    continue          # decided per cell below (the index may be a loop counter)
                if sm is not None:
                    nstores += 1
                    idx = sm[0]
                    bound = None
                    for cj in conjuncts(g):
                        if cj[0] == "cmp" and cj[1] == "<=" and cj[3] == "this.m_avail" and cj[2].isdigit():
                            bound = max(bound or 0, int(cj[2]))
                        if cj[0] == "cmp" and cj[1] == "<" and cj[3] == "this.m_avail" and cj[2].isdigit():
                            bound = max(bound or 0, int(cj[2]) + 1)
                        # !(m_avail < 1)  ==  m_avail >= 1
                        if cj[0] == "cmp" and cj[1] == ">=" and cj[2] == "this.m_avail" and cj[3].isdigit():
                            bound = max(bound or 0, int(cj[3]))
                    ok = idx is not None and bound is not None and idx < bound
                    if not ok and idx is not None:
                        # `if (m_avail < K) flush_buffer();` in front of the store leaves at least K bytes free (either the test
                        # failed, or the flush - whose shape R06.4 fixes - emptied the buffer), as long as the cursor has not
                        # been advanced since
                        fg_, leafs_ = flush_guards(f, env)
                        pos_ = {id(x_): i_ for i_, x_ in enumerate(ir.walk(f["body"]))}
                        here_ = pos_.get(id(n), 0)
                        for j_, k_, lp_ in fg_:
                            at_ = pos_.get(id(leafs_[j_][0]), -1)
                            if at_ < 0 or at_ > here_ or k_ <= idx:
                                continue
                            moved_ = any(x_.get("k") in ("MCall", "Call") and callee_name(x_) in ("update_buffer", "write_string") and at_ < pos_.get(id(x_), -1) < here_
                                         for x_ in ir.walk(f["body"]))
                            if not moved_:
                                bound, ok = k_, True
                    run.ob("R06.4", "%s:m_p[%s]@%s" % (f["qn"].split("::")[-1] + "(" + ",".join(f["sig"]) + ")", idx,
                                                       "avail>=%s" % bound), ok, f, n["l"],
                           "store at offset %s guarded by m_avail >= %s" % (idx, bound) if ok else
                           "store m_p[%s] is not dominated by a guard m_avail >= %s (guard: %s)" % (idx, (idx or 0) + 1, show_f(g)))
            # memcpy through m_p
        for c in ir.calls_in(f["body"]):
            if callee_name(c) == "memcpy" and c.get("args") and is_member(ir.unwrap_all_casts(c["args"][0]), "m_p"):
                nstores += 1
    # write_int: on every path of every value cell the highest offset stored is below the free space the path assumes
    from .. import cells
    wi = facts.fn("CDNS::CdnsEncoder::write_int", rule="R06.4")
    try:
        tab = cells.tabulate(wi, facts, wi["params"][0]["n"], wi["params"][1]["n"])
        for lo_, hi_, paths in tab:
            worst = None
            for alo, ahi, stores, ret, how in paths:
                if stores and max(stores) >= alo:
                    worst = (max(stores), alo, ahi)
            run.ob("R06.4", "write_int:stores-within-free-space[%d..%s]" % (lo_, "2^64-1" if hi_ == U64 else hi_), worst is None, wi, wi["line"],
                   "every store offset is below m_avail on its path" if worst is None else
                   "m_p[%d] is stored on a path where only %d..%d bytes are known to be free" % worst)
    except cells.Unknown as ex:
        run.ob("R06.4", "write_int:stores-within-free-space", None, wi, wi["line"], "write_int is not decidable cell by cell (%s)" % ex)
    for q, ws in writers.items():
        ok = q in allowed
        if not ok and all(flush_shaped(g_) for g_ in facts.fns(q)):
            run.ob("R06.4", "writer:%s" % q.split("::")[-1], True, facts.fns(q)[0], ws[0][1]["l"],
                   "resets the cursor only straight after handing the staged bytes [m_buffer, m_p) to the output writer itself (a flush site of its own)")
            continue
        run.ob("R06.4", "writer:%s" % q.split("::")[-1], ok, facts.fns(q)[0], ws[0][1]["l"],
               "buffer cursor written by its owner function" if ok else
               "%s writes %s directly; only the constructor, update_buffer and flush_buffer may" % (q, sorted(set(w[0] for w in ws))))
    ub = facts.fn("CDNS::CdnsEncoder::update_buffer", rule="R06.4")
    ws = writers.get(ub["qn"], [])
    shape = sorted((w[0], w[1].get("op"), show(w[1].get("rhs"))) for w in ws)
    ok = shape == [("m_avail", "-=", "p:bytes"), ("m_p", "+=", "p:bytes")] or \
        (len(shape) == 2 and shape[0][0] == "m_avail" and shape[0][1] == "-=" and shape[1][1] == "+=" and shape[0][2] == shape[1][2])
    run.ob("R06.4", "update_buffer:same-delta", ok, ub, ub["line"],
           "m_p advances and m_avail shrinks by the same amount" if ok else "update_buffer must do m_p += n; m_avail -= n (found %s)" % shape)
    fb = facts.fn("CDNS::CdnsEncoder::flush_buffer", rule="R06.4")
    env = Env(fb["body"])
    seq = []
    for st, g, loops in ir.guarded_statements(fb["body"], env):
        if st.get("k") in ("IfCond", "LoopHead", "SwitchHead"):
            continue
        for n in ir.walk(st):
            if n.get("k") == "MCall" and callee_qn(n) == "CDNS::BaseCborOutputWriter::write":
                a = n.get("args", [])
                ln_ = a[1] if len(a) == 2 else None
                # the staged length, possibly through a value-preserving conversion to the parameter type
                while isinstance(ln_, dict) and ln_.get("k") == "Cast" and (ln_.get("t") or "").replace("const ", "") in (
                        "unsigned long", "long", "std::size_t", "size_t", "unsigned long long", "long long", "std::ptrdiff_t", "std::streamsize"):
                    ln_ = ln_.get("e")
                lenok = isinstance(ln_, dict) and ln_.get("k") == "Bin" and ln_.get("op") == "-" and \
                    is_member(ir.unwrap_all_casts(ln_["lhs"]), "m_p") and is_member(ir.unwrap_all_casts(ln_["rhs"]), "m_buffer")
                srcok = len(a) == 2 and is_member(ir.unwrap_all_casts(a[0]), "m_buffer")
                seq.append(("write", lenok and srcok, g))
            if n.get("k") == "Bin" and n.get("op") == "=":
                p = path(n["lhs"])
                if p == ("this", "m_p"):
                    seq.append(("m_p", is_member(ir.unwrap_all_casts(n["rhs"]), "m_buffer"), g))
                if p == ("this", "m_avail"):
                    r = ir.unwrap_all_casts(n["rhs"])
                    seq.append(("m_avail", isinstance(r, dict) and r.get("n") == "BUFFER_SIZE", g))
    names = [s[0] for s in seq]
    ok = names == ["write", "m_p", "m_avail"] and all(s[1] for s in seq) and len(set(s[2] for s in seq)) == 1
    run.ob("R06.4", "flush_buffer:shape", ok, fb, fb["line"],
           "writes [m_buffer, m_p) to the sink, then resets m_p and m_avail" if ok else
           "flush_buffer must write (m_buffer, m_p - m_buffer) and then reset m_p = m_buffer, m_avail = BUFFER_SIZE (found %s)" % seq)
    # ... and does so whenever something is staged: the common guard is true in every state with m_p > m_buffer
    # (evaluated over sample states m_p = m_buffer + k, m_avail = BUFFER_SIZE - k; an atom over anything else is unknown)
    if ok:
        g = seq[0][2]
        cap_ = [v for v in facts.vars if v["qn"] == "CDNS::CdnsEncoder::BUFFER_SIZE" and isinstance((v.get("init") or {}).get("cv"), int)]
        capv = cap_[0]["init"]["cv"] if cap_ else 2048
        def state(k_):
            """valuation for k_ staged bytes: the members, and every atom of the guard that is arithmetic over them"""
            import re as _re
            val = {"this.m_buffer": 4096, "this.m_p": 4096 + k_, "this.m_avail": capv - k_}
            for a_ in ir.walk_formula(g):
                for key_ in ([a_[1]] if a_[0] == "nz" else list(a_[2:4]) if a_[0] == "cmp" else []):
                    if not isinstance(key_, str) or key_ in val:
                        continue
                    txt = _re.sub(r"\((?:const )?(?:unsigned |signed )?(?:long long|long|int|short|char|std::size_t|size_t|std::ptrdiff_t|ptrdiff_t)\)", "", key_)
                    for nm_, v_ in (("this.m_buffer", 4096), ("this.m_p", 4096 + k_), ("this.m_avail", capv - k_), ("g:CDNS::CdnsEncoder::BUFFER_SIZE", capv)):
                        txt = txt.replace(nm_, str(v_))
                    if _re.fullmatch(r"[0-9+\-*() ]+", txt):
                        try:
                            val[key_] = int(eval(txt, {"__builtins__": {}}, {}))
                        except Exception:
                            pass
            return val
        verdicts = [ir.eval_formula(g, state(k_)) for k_ in (1, 2, capv - 1, capv)]
        okg = False if any(v is False for v in verdicts) else (True if all(v is True for v in verdicts) else None)
        run.ob("R06.4", "flush_buffer:whenever-staged", okg, fb, fb["line"],
               "the write and the reset happen in every state with staged bytes (guard %s)" % show_f(g) if okg else
               "flush_buffer writes only under %s, which is %s with bytes staged: staged bytes would stay in the buffer" % (
                   show_f(g), "false" if okg is False else "not decidable"))
    # a flush_buffer() that reports a byte count reports the bytes it handed over: callers refuse to store when it says 0
    if (fb.get("ret") or "void") != "void":
        from .. import affine as _af
        from ..affine import Lin as _Lin
        capc = [v for v in facts.vars if v["qn"] == "CDNS::CdnsEncoder::BUFFER_SIZE" and isinstance((v.get("init") or {}).get("cv"), int)]
        capn = capc[0]["init"]["cv"] if capc else 2048
        P, B, A = _Lin.sym("this.m_p"), _Lin.sym("this.m_buffer"), _Lin.sym("this.m_avail")
        verdict, whyr = True, "every return of flush_buffer() is the number of staged bytes it handed to the writer"
        try:
            paths_ = _af.explore(ir.stmts(fb["body"]), {}, lambda u_, env_, ev_, asm_: (u_.get("k") == "MCall"))
            nret_ = 0
            for outcome, env_, evs_, asm_ in paths_:
                for e_ in evs_:
                    if e_[0] != "return" or e_[1] is None:
                        continue
                    nret_ += 1
                    staged_zero = _af.sign_of(P - B, asm_) == "==0"
                    if staged_zero:
                        if e_[1] != _Lin(0):
                            verdict, whyr = False, "flush_buffer() reports %r bytes on the path with nothing staged" % e_[1]
                    elif e_[1] not in (P - B, _Lin(capn) - A):
                        verdict = False
                        whyr = "flush_buffer() returns %r on a path that handed %r staged bytes to the writer: callers take 0 for `nothing could be " \
                               "flushed` and refuse to store their item" % (e_[1], P - B)
            if nret_ == 0:
                verdict, whyr = None, "no value-returning path of flush_buffer() could be followed"
        except _af.NotAffine as ex_:
            verdict, whyr = None, "flush_buffer() cannot be followed (%s)" % ex_
        run.ob("R06.4", "flush_buffer:reports-what-it-flushed", verdict, fb, fb["line"], whyr)
    # BUFFER_SIZE >= 9 and equals sizeof m_buffer
    bs = [v for v in facts.vars if v["qn"] == "CDNS::CdnsEncoder::BUFFER_SIZE"]
    rec = facts.record(ENC, rule="R06.4")
    buf = [fld for fld in rec["fields"] if fld["n"] == "m_buffer"]
    size_bytes = buf[0]["size"] // 8 if buf else None
    run.ob("R06.4", "BUFFER_SIZE>=9", bool(buf) and size_bytes >= 9, rec["file"], rec["line"],
           "staging buffer holds %s bytes (>= the widest head)" % size_bytes)
    # every update_buffer argument equals the count just stored
    for f in enc_fns(facts):
        nm = f["qn"].split("::")[-1]
        if nm in ("update_buffer",):
            continue
        sts = ir.stmts(f["body"])
        for c in ir.calls_in(f["body"]):
            if callee_qn(c) != "CDNS::CdnsEncoder::update_buffer":
                continue
            a = c["args"][0]
            p = path(a)
            cv = const_value(a)
            ok = None
            why = ""
            if nm == "write_string":
                ok = True   # checked by R06.5
                why = "checked by R06.5"
            elif p and p[0].startswith("l:"):
                # local assigned from write_int
                env = Env(f["body"])
                srcs = set()
                for n in ir.walk(f["body"]):
                    if n.get("k") == "Bin" and n.get("op") == "=" and path(n["lhs"]) == p:
                        srcs.add(callee_qn(unwrap(n["rhs"])) or show(n["rhs"]))
                    if n.get("k") == "Decl":
                        for v in n.get("vars", []):
                            if "n" in v and ("l:%s#%s" % (v["n"], v["id"]),) == p and v.get("init") is not None:
                                srcs.add(callee_qn(unwrap(v["init"])) or show(v["init"]))
                # resolve locals that merely hand a count on (a helper's result variable after it was expanded in place)
                def resolve(srcset, depth=0):
                    out_ = set()
                    for s_ in srcset:
                        if s_.startswith("l:") and depth < 3:
                            inner = set()
                            for n2 in ir.walk(f["body"]):
                                if n2.get("k") == "Bin" and n2.get("op") == "=" and path(n2["lhs"]) == (s_,):
                                    inner.add(callee_qn(unwrap(n2["rhs"])) or show(n2["rhs"]))
                                if n2.get("k") == "Decl":
                                    for v2 in n2.get("vars", []):
                                        if "n" in v2 and "l:%s#%s" % (v2["n"], v2["id"]) == s_ and v2.get("init") is not None:
                                            inner.add(callee_qn(unwrap(v2["init"])) or show(v2["init"]))
                            out_ |= resolve(inner, depth + 1) if inner else {s_}
                        else:
                            out_.add(s_)
                    return out_
                srcs = resolve(srcs)
                core = srcs - {"0"}
                ok = core == {"CDNS::CdnsEncoder::write_int"}
                why = "advances by the count write_int returned" if ok else "advances by %s whose sources are %s" % (show(a), sorted(srcs))
                if not ok and any(x.startswith("this.") for x in core) and "CDNS::CdnsEncoder::write_int" in core:
                    # a count that may also come out of the encoder's own state (a remembered head): not decided here
                    ok = None
                    why = "the count %s may come from encoder state (%s) as well as from write_int: not decided" % (show(a), sorted(x for x in core if x.startswith("this.")))
            elif cv is not None:
                nst = len([n for n in ir.walk(f["body"]) if n.get("k") == "Bin" and store_through_mp(n)])
                ok = cv == nst
                why = "advances by %s after %d single-byte store(s)" % (cv, nst)
            else:
                # a bulk copy of n bytes to the cursor directly before it, under a guard n <= m_avail
                ok = None
                why = "update_buffer(%s): origin of the count not understood" % show(a)
                envb = Env(f["body"])
                for b_ in ir.walk(f["body"]):
                    if b_.get("k") != "Block":
                        continue
                    ss_ = b_.get("s", [])
                    for i_, st_ in enumerate(ss_):
                        if i_ > 0 and isinstance(st_, dict) and any(x is c for x in ir.walk(st_)):
                            prev = unwrap(ss_[i_ - 1])
                            if isinstance(prev, dict) and prev.get("k") == "Call" and callee_name(prev) == "memcpy" and len(prev.get("args", [])) == 3 and \
                                    is_member(ir.unwrap_all_casts(prev["args"][0]), "m_p") and show(prev["args"][2]) == show(a):
                                g_ = [g2 for s2, g2, l2 in ir.guarded_statements(f["body"], envb) if s2 is st_]
                                nk = ir.int_key(a, envb)
                                fits = bool(g_) and any(at[0] == "cmp" and at[1] in ("<=", "<") and at[2] == nk and at[3] == "this.m_avail" for at in conjuncts(g_[0]))
                                ok = fits
                                why = "advances by the %s bytes just copied to the cursor, which fit the free space" % show(a) if fits else \
                                    "memcpy of %s bytes to the cursor is not guarded by %s <= m_avail" % (show(a), show(a))
            run.ob("R06.4", "%s(%s):update_buffer(%s)" % (nm, ",".join(f["sig"]), show(a)), ok, f, c["l"], why)
    run.floor("R06.4", 25, "stores, cursor writers, update_buffer arguments")
    run.info["stores_through_m_p"] = nstores


def check_write_string(run):
    """R06.5: the chunked copy appends exactly the bytes str[0..size).  Decided by an affine analysis (A13) of every
    path through one loop iteration and through the code after the loop: what a round copies, how far source and
    remainder move, that a continuing round flushes, that leaving the loop copies exactly what is left.  Branch conditions
    and std::min are resolved by case splits over affine forms, so `while (m_avail < left) {..} <tail copy>` and
    `for (;;) { n = min(m_avail, size - done); ..; if (done == size) break; flush; }` are the same to it."""
    from .. import affine
    from ..affine import Lin
    facts = run.facts
    f = facts.fn("CDNS::CdnsEncoder::write_string", rule="R06.5")
    body = ir.stmts(f["body"])
    loops = [s for s in body if s.get("k") in ("While", "For", "Do")]
    if len(loops) != 1:
        general_write_string(run, f, "the function has %d loops at function level" % len(loops))
        return
    lp = loops[0]
    i_lp = body.index(lp)
    if any(x.get("k") == "Return" or (x.get("k") == "Call" and callee_name(x) == "memcpy") for s_ in body[:i_lp] for x in ir.walk(s_)):
        # a fast path in front of the loop (early return, a first copy): the per-round analysis below starts at the loop head
        # with nothing copied; the general copy analysis follows every path from the function entry instead
        general_write_string(run, f, "the function copies or returns before its loop")
        return
    AV, MP = "this.m_avail", "this.m_p"
    size_p, str_p = "p:%s" % f["params"][1]["n"], "p:%s" % f["params"][0]["n"]

    # the expression that stands for "what is left": the loop condition's partner of m_avail, else min's partner
    rem_e = None
    cu = unwrap(lp.get("cond")) if lp.get("cond") is not None else None
    if isinstance(cu, dict) and cu.get("k") == "Bin" and cu.get("op") in ("<", "<=", ">", ">="):
        if is_member(cu["lhs"], "m_avail"):
            rem_e = cu["rhs"]
        elif is_member(cu["rhs"], "m_avail"):
            rem_e = cu["lhs"]
    if rem_e is None:
        for x in ir.walk(lp.get("body")):
            if x.get("k") == "Call" and (callee_qn(x) or "").split("<")[0] == "std::min" and len(x.get("args", [])) == 2:
                a0, a1 = x["args"]
                if is_member(a0, "m_avail"):
                    rem_e = a1
                elif is_member(a1, "m_avail"):
                    rem_e = a0
    c = cond(lp["cond"], None) if lp.get("cond") is not None else ("T",)
    ok = True if rem_e is not None else None          # an unknown loop shape is not a verdict
    run.ob("R06.5", "write_string:loop-condition", ok, f, lp["l"],
           "the loop is governed by the free space and the remainder (%s)" % show(rem_e) if ok else
           "loop condition %s is not `m_avail < remaining` and no min(m_avail, remaining) bounds the chunk" % show_f(c))
    if not ok:
        run.obs = [o for o in run.obs if not (o.rule == "R06.5" and o.key == "write_string:loop-condition")]
        general_write_string(run, f, "the loop is not governed by a comparison of m_avail with a remainder")
        return

    def on_call(u, env, events, assumptions):
        nm = callee_name(u)
        if nm == "memcpy" and len(u.get("args", [])) == 3:
            a = u["args"]
            events.append(("memcpy", affine.ev2(a[0], env, assumptions), affine.ev2(a[1], env, assumptions), affine.ev2(a[2], env, assumptions),
                           env.get(AV, Lin.sym(AV)), env.get(MP, Lin.sym(MP)), u))
            return True
        if nm == "update_buffer" and (u.get("callee") or {}).get("cls") == ENC:
            n = affine.ev2(u["args"][0], env, assumptions)
            events.append(("update", n, u))
            env[MP] = env.get(MP, Lin.sym(MP)) + n
            env[AV] = env.get(AV, Lin.sym(AV)) - n
            return True
        if nm == "flush_buffer" and (u.get("callee") or {}).get("cls") == ENC:
            events.append(("flush", u))
            env[MP] = Lin.sym("buffer-start")
            env[AV] = Lin.sym("buffer-capacity")
            return True
        return False

    try:
        # ---- one iteration, from the loop head
        k = lp["k"]
        lbody = ir.stmts(lp.get("body"))
        inc = [lp["inc"]] if k == "For" and lp.get("inc") is not None else []
        cont = [{"k": "Continue"}]
        if k == "Do":
            it = lbody + ([{"k": "If", "cond": lp["cond"], "then": {"k": "Block", "s": cont}, "else": {"k": "Break"}}] if lp.get("cond") is not None else cont)
        elif lp.get("cond") is not None:
            it = [{"k": "If", "cond": lp["cond"], "then": {"k": "Block", "s": lbody + inc + cont}, "else": {"k": "Break"}}]
        else:
            it = lbody + inc + cont
        paths = affine.explore(it, {}, on_call)
        A0, P0 = Lin.sym(AV), Lin.sym(MP)
        src_nodes = [e_[6]["args"][1] for p_ in paths for e_ in p_[2] if e_[0] == "memcpy"]
        tail_cp = [x for s_ in body[i_lp + 1:] for x in ir.walk(s_) if x.get("k") == "Call" and callee_name(x) == "memcpy"]
        src_e = src_nodes[0] if src_nodes else (tail_cp[0]["args"][1] if tail_cp else None)
        if src_e is None:
            run.ob("R06.5", "write_string:shape", None, f, lp["l"], "no memcpy found")
            run.floor("R06.5", 4, "write_string obligations")
            return
        S0, R0 = affine.ev2(src_e, {}, ()), affine.ev2(rem_e, {}, ())
        skip = set()
        for e_ in (src_e, rem_e):
            for x in ir.walk(e_):
                kx = affine.key_of(x)
                if kx:
                    skip.add(kx)
        declared = set("l:%s#%s" % (v.get("n"), v.get("id")) for n_ in ir.walk(lp) if n_.get("k") == "Decl" for v in n_.get("vars", []))
        counters = sorted(x for x in (ir.written_locals(lp) | ir.written_locals({"k": "Block", "s": body[i_lp + 1:]})) if x not in skip and x not in declared)

        def check_copy(evs, asm, why, entry_src):
            """memcpy/update pairs of one path: to the cursor, from where the source stands, never more than is free."""
            total = Lin(0)
            src = entry_src
            i = 0
            while i < len(evs):
                e_ = evs[i]
                if e_[0] == "memcpy":
                    _, dst, sv, n, av, cur, node = e_
                    if dst != cur:
                        why.append("memcpy writes to %r, the cursor stands at %r" % (dst, cur))
                    if sv != src:
                        why.append("memcpy reads from %r, the next byte to copy is at %r" % (sv, src))
                    fits = affine.sign_of(av - n, asm)
                    if fits not in ("==0", ">0", ">=0"):
                        why.append("memcpy copies %r bytes while %r are free" % (n, av))
                    nxt = evs[i + 1] if i + 1 < len(evs) else None
                    if nxt is None or nxt[0] != "update" or nxt[1] != n:
                        why.append("memcpy of %r bytes is not followed by update_buffer of the same amount" % n)
                    total = total + n
                    src = src + n
                elif e_[0] == "update" and (i == 0 or evs[i - 1][0] != "memcpy"):
                    why.append("update_buffer(%r) without a copy" % e_[1])
                i += 1
            return total

        # ---- rounds that go on
        why = []
        cwhy = {}
        n_cont = 0
        for outcome, env, evs, asm in paths:
            if outcome != "continue":
                continue
            n_cont += 1
            total = check_copy(evs, asm, why, S0)
            names = [e_[0] for e_ in evs]
            if "memcpy" not in names:
                why.append("a round can go on without copying anything")
            if not names or names[-1] != "flush":
                why.append("a round that goes on does not end with flush_buffer (sequence %s)" % names)
            if affine.ev2(src_e, dict(env), asm) != S0 + total:
                why.append("after a round the source stands at %r; it must have advanced by the %r bytes copied" % (affine.ev2(src_e, dict(env), asm), total))
            if affine.ev2(rem_e, dict(env), asm) != R0 - total:
                why.append("after a round the remainder is %r; it must have shrunk by the %r bytes copied" % (affine.ev2(rem_e, dict(env), asm), total))
            for key in counters:
                if env.get(key, Lin.sym(key)) != Lin.sym(key) + total:
                    cwhy[key] = "`%s` becomes %r in a round that copies %r bytes (after update_buffer(m_avail) m_avail is 0): the bytes of every " \
                        "round that fills the buffer are not counted, so the reported size is too small whenever the string crosses a buffer " \
                        "boundary" % (key.split("#")[0][2:], env.get(key, Lin.sym(key)), total)
        if n_cont == 0:
            why.append("no path goes round the loop")
        run.ob("R06.5", "write_string:round", not why, f, lp["l"],
               "a round copies to the cursor what fits, advances source and remainder by that amount, updates and flushes" if not why else
               "; ".join(sorted(set(why))))
        for key in counters:
            run.ob("R06.5", "write_string:round-counter", key not in cwhy, f, lp["l"],
                   "the byte count %s grows by the bytes copied in a round" % key.split("#")[0][2:] if key not in cwhy else cwhy[key])
        # ---- leaving the loop and running to the end
        why = []
        n_exit = 0
        for outcome, env, evs, asm in paths:
            if outcome not in ("break", "end"):
                continue
            for out2, env2, evs2, asm2 in affine.explore(body[i_lp + 1:], env, on_call, asm):
                n_exit += 1
                allv = list(evs) + list(evs2)
                total = check_copy([e_ for e_ in allv if e_[0] != "return"], asm2, why, S0)
                if total != R0:
                    why.append("leaving the loop copies %r bytes in all, %r are left" % (total, R0))
                retv = [e_[1] for e_ in allv if e_[0] == "return" and e_[1] is not None]
                for key in counters:
                    if env2.get(key, Lin.sym(key)) != Lin.sym(key) + total:
                        if retv and retv[-1] == Lin.sym(key) + total:
                            continue            # `return counter + <what the tail copied>;` reports the same number
                        why.append("counter %s grows by %r on the way out, %r bytes are copied" % (
                            key.split("#")[0][2:], env2.get(key, Lin.sym(key)) - Lin.sym(key), total))
        if n_exit == 0:
            why.append("no path leaves the loop")
        run.ob("R06.5", "write_string:tail", not why, f, f["line"],
               "on the way out exactly the remainder (which fits by the exit condition) is copied and accounted" if not why else "; ".join(sorted(set(why))))
        # ---- initial values
        why = []
        for out0, env_p, evs0, asm0 in affine.explore(body[:i_lp] + ([lp["init"]] if k == "For" and lp.get("init") is not None else []), {}, on_call):
            if affine.ev2(rem_e, dict(env_p), asm0) != Lin.sym(size_p):
                why.append("the remainder starts at %r, not at the size argument" % affine.ev2(rem_e, dict(env_p), asm0))
            if affine.ev2(src_e, dict(env_p), asm0) != Lin.sym(str_p):
                why.append("the source starts at %r, not at the string argument" % affine.ev2(src_e, dict(env_p), asm0))
            for key in counters:
                if env_p.get(key) != Lin(0):
                    why.append("counter %s does not start at 0" % key.split("#")[0][2:])
            if evs0:
                why.append("bytes are copied before the loop")
        run.ob("R06.5", "write_string:init", not why, f, f["line"], "remaining starts at the size argument, the source at the string argument" if not why else "; ".join(sorted(set(why))))
    except affine.NotAffine as ex:
        run.ob("R06.5", "write_string:shape", None, f, lp["l"], "the copy loop is not affine code the analysis can follow (%s)" % ex)
    run.floor("R06.5", 4, "write_string obligations")


def general_write_string(run, f, because):
    """Fallback of R06.5 for copy functions of any shape (several loops, an up-front split into head / whole buffers /
    tail, ...): ghost counter of the bytes copied so far, loop invariants `source expression == str + copied` and
    `remainder expression == size - copied` (affine.analyse_copy).  Obligations that depend on values the affine domain
    cannot express (division, modulo) are *unknown*, not failures."""
    from .. import affine
    AV, MP = "this.m_avail", "this.m_p"
    size_p, str_p = "p:%s" % f["params"][1]["n"], "p:%s" % f["params"][0]["n"]

    def classify(u):
        nm = callee_name(u)
        if nm == "memcpy" and len(u.get("args", [])) == 3:
            return "memcpy"
        if nm == "update_buffer" and (u.get("callee") or {}).get("cls") == ENC:
            return "update"
        if nm == "flush_buffer" and (u.get("callee") or {}).get("cls") == ENC:
            return "flush"
        if u.get("k") == "MCall" and len(u.get("args", [])) == 4 and "m_cos" in show(u.get("recv")) and is_member(unwrap_all_casts(u["args"][0]), "m_buffer"):
            return "gather"         # <writer>(m_buffer, staged, src, n): staged bytes and n bytes of the source in one call
        return None
    try:
        cap = [v for v in run.facts.vars if v["qn"] == "CDNS::CdnsEncoder::BUFFER_SIZE" and isinstance((v.get("init") or {}).get("cv"), int)]
        problems, returns, notes = affine.analyse_copy(f["body"], str_p, size_p, lambda e: is_member(e, "m_avail"), lambda e: is_member(e, "m_p"),
                                                       classify, AV, MP, capacity=cap[0]["init"]["cv"] if cap else None)
    except affine.NotAffine as ex:
        run.ob("R06.5", "write_string:shape", None, f, f["line"], "write_string cannot be followed (%s; %s)" % (because, ex))
        run.floor("R06.5", 1, "write_string obligations")
        return
    definite = [p for p in problems if p[2]]
    unknown = [p for p in problems if not p[2]]
    ok = False if definite else (None if unknown or notes else True)
    run.ob("R06.5", "write_string:copies-in-order", ok, f, (definite or unknown or [(f["line"],)])[0][0],
           "every copy writes at the cursor, reads the next uncopied byte, fits the free space and is followed by its update" if ok else
           "; ".join(p[1] for p in (definite or unknown))[:600] + ("" if definite else " [not decidable in the affine domain: %s]" % because))
    dec = [r[2] for r in returns]
    okc = False if any(d is False for d in dec) else (True if dec and all(d is True for d in dec) else None)
    bad = [r for r in returns if r[2] is False]
    run.ob("R06.5", "write_string:complete", okc, f, f["line"],
           "on every path to the end exactly `size` bytes have been copied" if okc else
           ("a path reaches the end after copying %r bytes, not the size" % bad[0][0] if bad else
            "the total copied on some path depends on values the affine domain cannot express (%s)" % because))
    run.floor("R06.5", 2, "write_string obligations")


def check_primitive_returns(run, rule):
    """R10.2: every public write primitive returns exactly the bytes it stored."""
    facts = run.facts
    n = 0
    for f in enc_fns(facts):
        nm = f["qn"].split("::")[-1]
        if not nm.startswith("write") or nm in ("write_int", "write_string") or f.get("ret") != "unsigned long":
            continue
        env = Env(f["body"])
        fname = "%s(%s)" % (nm, ",".join(f["sig"]))
        rets = [x for x in ir.walk(f["body"]) if x.get("k") == "Return" and x.get("e") is not None]
        ubs = [c for c in ir.calls_in(f["body"]) if callee_qn(c) == "CDNS::CdnsEncoder::update_buffer"]
        wss = [c for c in ir.calls_in(f["body"]) if callee_qn(c) == "CDNS::CdnsEncoder::write_string"]
        stores = [x for x in ir.walk(f["body"]) if x.get("k") == "Bin" and store_through_mp(x)]
        for i, r in enumerate(rets):
            n += 1
            e = unwrap(r["e"])
            cv = const_value(r["e"])
            p = path(e)
            key = "%s:return#%d" % (fname, i)
            if isinstance(e, dict) and e.get("k") == "MCall" and (e.get("callee") or {}).get("cls") == ENC:
                run.ob(rule, key, True, f, r["l"], "forwards the count of %s" % callee_name(e))
            elif cv == 0:
                # refusing paths: nothing stored before
                run.ob(rule, key, True, f, r["l"], "returns 0 on a path that stored nothing", nontrivial=False)
            elif cv is not None:
                ok = cv == len(stores) and any(const_value(u["args"][0]) == cv for u in ubs)
                run.ob(rule, key, ok, f, r["l"], "returns %d after storing %d byte(s) and advancing by %d" % (cv, len(stores), cv) if ok else
                       "returns %s but stores %d byte(s)" % (cv, len(stores)))
            elif p and p[0].startswith("l:") and any(x.get("k") == "Bin" and x.get("op") == "+=" and path(x.get("lhs")) == p for x in ir.walk(f["body"])) and \
                    len(ubs) > 1 and not wss:
                # an accumulator over several stores (items written in a loop): every advance of the buffer is added to it - the
                # `update_buffer(n)` and the `acc += n` sit in one statement list, the same n
                missing = []
                for b_ in ir.walk(f["body"]):
                    if b_.get("k") != "Block":
                        continue
                    sts_ = b_.get("s", [])
                    for i_, s_ in enumerate(sts_):
                        u_ = unwrap(s_)
                        if isinstance(u_, dict) and u_.get("k") == "MCall" and callee_qn(u_) == "CDNS::CdnsEncoder::update_buffer":
                            arg_ = show(u_["args"][0])
                            paired = any(isinstance(unwrap(t_), dict) and unwrap(t_).get("k") == "Bin" and unwrap(t_).get("op") == "+=" and
                                         path(unwrap(t_).get("lhs")) == p and show(unwrap(t_).get("rhs")) == arg_ for t_ in sts_)
                            # the first advance: `acc = write_int(head); update_buffer(acc);`
                            if not paired and path(u_["args"][0]) == p and i_ > 0:
                                pv_ = unwrap(sts_[i_ - 1])
                                if isinstance(pv_, dict) and (
                                        (pv_.get("k") == "Bin" and pv_.get("op") == "=" and path(pv_.get("lhs")) == p) or
                                        (pv_.get("k") == "Decl" and any(("l:%s#%s" % (v_.get("n"), v_.get("id")),) == p and v_.get("init") is not None for v_ in pv_.get("vars", [])))):
                                    paired = True
                            if not paired:
                                missing.append(u_.get("l"))
                nested = [u for u in ubs if not any(unwrap(s_) is u for b_ in ir.walk(f["body"]) if b_.get("k") == "Block" for s_ in b_.get("s", []))]
                if nested:
                    run.ob(rule, key, None, f, r["l"], "the buffer is advanced inside an expression; the accumulated count is not followed")
                else:
                    run.ob(rule, key, not missing, f, r["l"],
                           "every update_buffer(n) is paired with `%s += n`" % show(e) if not missing else
                           "update_buffer() at line %s advances the buffer without adding to %s: the reported count is short by those bytes" % (missing[0], show(e)))
            elif p and p[0].startswith("l:"):
                ok = any(path(u["args"][0]) == p for u in ubs)
                why = "returns the head count that was also passed to update_buffer" if ok else \
                    "returns %s which is not the count the buffer was advanced by" % show(e)
                if ok and wss:
                    # a payload was copied as well: its size must have been added to the returned counter
                    added = False
                    for x in ir.walk(f["body"]):
                        if x.get("k") == "Bin" and x.get("op") == "+=" and path(x["lhs"]) == p:
                            rr = unwrap(x["rhs"])
                            if (isinstance(rr, dict) and callee_qn(rr) == "CDNS::CdnsEncoder::write_string") or path(x["rhs"]) == path(wss[0]["args"][1]):
                                added = True
                    if not added:
                        ok = False
                        why = "returns only the head count %s although write_string() copied the payload as well: the string's bytes are not counted" % show(e)
                run.ob(rule, key, ok, f, r["l"], why)
            elif isinstance(e, dict) and e.get("k") == "Bin" and e.get("op") == "+":
                lp, rp = path(e["lhs"]), path(e["rhs"])
                ok = bool(wss) and any(path(u["args"][0]) == lp for u in ubs) and rp is not None and path(wss[0]["args"][1]) == rp
                if not ok:
                    # head count + what write_string() itself reports (that it reports exactly the bytes it copied is R06.5's
                    # counter obligation on write_string)
                    for a_, b_ in ((e["lhs"], e["rhs"]), (e["rhs"], e["lhs"])):
                        bu_ = ir.unwrap_all_casts(b_)
                        if isinstance(bu_, dict) and bu_.get("k") == "MCall" and callee_qn(bu_) == "CDNS::CdnsEncoder::write_string" and \
                                any(path(u["args"][0]) == path(a_) for u in ubs):
                            ok = True
                run.ob(rule, key, ok, f, r["l"], "returns head bytes + payload size handed to write_string" if ok else
                       "returns %s; expected <head count> + <size passed to write_string>" % show(e))
            elif isinstance(e, dict) and e.get("k") == "Bin" and e.get("op") == "-" and is_member(ir.unwrap_all_casts(e["lhs"]), "m_p") and \
                    path(e["rhs"]) is not None and len(path(e["rhs"])) == 1 and path(e["rhs"])[0].startswith("l:"):
                # `return m_p - start`: the distance the cursor moved since `start = m_p`.  That is the number of bytes appended
                # only if the buffer was not flushed in between (flush_buffer() takes the cursor back to the buffer start)
                order_ = {id(x): i for i, x in enumerate(ir.walk(f["body"]))}
                sp = path(e["rhs"])[0]
                decl = [d_ for d_ in ir.walk(f["body"]) if d_.get("k") == "Decl" and any("l:%s#%s" % (v_.get("n"), v_.get("id")) == sp for v_ in d_.get("vars", []))]
                init = [v_.get("init") for d_ in decl for v_ in d_.get("vars", []) if "l:%s#%s" % (v_.get("n"), v_.get("id")) == sp]
                if len(decl) != 1 or init[0] is None or not is_member(ir.unwrap_all_casts(init[0]), "m_p") or sp in ir.written_locals(f["body"]) - {sp} and False:
                    run.ob(rule, key, None, f, r["l"], "return expression %s not understood" % show(e))
                else:
                    fl = [c_ for c_ in ir.calls_in(f["body"]) if callee_qn(c_) == "CDNS::CdnsEncoder::flush_buffer" and order_[id(decl[0])] < order_[id(c_)] < order_[id(r)]]
                    # write_string() may flush as well
                    ws_between = [c_ for c_ in wss if order_[id(decl[0])] < order_[id(c_)] < order_[id(r)]]
                    okd = not fl and not ws_between
                    run.ob(rule, key, okd, f, r["l"],
                           "returns the distance the cursor moved since it was sampled; no flush lies between" if okd else
                           "returns m_p - %s, but %s can run between the sample and the return: a flush takes the cursor back to the start of the buffer, "
                           "the difference then wraps and the reported count is off by what was buffered" % (
                               sp.split("#")[0][2:], "flush_buffer()" if fl else "write_string() (which flushes)"))
            else:
                # a single term that is neither the head counter nor a forwarded call
                terms_known = p is not None and (p[0].startswith("p:") or p[0].startswith("l:"))
                if terms_known and (ubs or wss):
                    run.ob(rule, key, False, f, r["l"],
                           "returns %s, which is not <bytes of the head> (+ <payload size>): the reported count differs from the bytes appended" % show(e))
                else:
                    run.ob(rule, key, None, f, r["l"], "return expression %s not understood" % show(e))
    run.floor(rule, 18, "primitive returns")


def check_always_emits(run, rule):
    """R06.8 every size_t-returning encoder function stores its item on every path: a return before the first store/
    delegate call is allowed only for the null-pointer refusal and for `no space even after flushing`."""
    facts = run.facts
    n = 0
    for f in enc_fns(facts):
        nm = f["qn"].split("::")[-1]
        if f.get("ret") != "unsigned long" or nm in ("write_int", "flush_buffer"):
            continue            # (flush_buffer is the sink; what it may report is R06.4's flush_buffer:reports-what-it-flushed)
        env = Env(f["body"])
        order = {id(x): i for i, x in enumerate(ir.walk(f["body"]))}
        emits = [order[id(x)] for x in ir.walk(f["body"]) if (x.get("k") == "Bin" and store_through_mp(x)) or
                 (x.get("k") in ("MCall", "Call") and (x.get("callee") or {}).get("cls") == ENC and (callee_name(x) or "").startswith("write")) or
                 (x.get("k") == "Call" and callee_name(x) == "memcpy" and x.get("args") and is_member(ir.unwrap_all_casts(x["args"][0]), "m_p"))]
        gs = list(ir.guarded_statements(f["body"], env))
        guard_at = {}
        for st, g, loops in gs:
            if st.get("k") in ("IfCond", "LoopHead", "SwitchHead"):
                continue
            for x in ir.walk(st):
                guard_at[id(x)] = g
        emit_nodes = [x for x in ir.walk(f["body"]) if (x.get("k") == "Bin" and store_through_mp(x)) or
                      (x.get("k") in ("MCall", "Call") and (x.get("callee") or {}).get("cls") == ENC and (callee_name(x) or "").startswith("write")) or
                      (x.get("k") == "Call" and callee_name(x) == "memcpy" and x.get("args") and is_member(ir.unwrap_all_casts(x["args"][0]), "m_p"))]
        if not emit_nodes and not emits and not nm.startswith("write") and not any(
                x.get("k") == "Member" and path(x) and path(x)[:1] == ("this",) for x in ir.walk(f["body"])):
            continue            # a function of the class that computes a number from its arguments (a head size) is not an emitter

        def contradict(g1, g2):
            a1, a2 = conjuncts(g1), conjuncts(g2)
            return any(ir.f_not(x) in a2 for x in a1) or any(ir.f_not(x) in a1 for x in a2)
        fname = "%s(%s)" % (nm, ",".join(f["sig"]))
        bad = 0
        nret = 0
        # loop-free functions are judged path by path: `if (c) { emit } else { }  return n;` has a path that stores nothing
        from . import C05 as _C05
        pths = _C05._paths(ir.stmts(f["body"]))
        emit_ids = set(id(x) for x in emit_nodes)
        cases = []
        if pths is not None:
            for pth in pths:
                if not pth or pth[-1][0] != "return":
                    continue
                if any(id(x) in emit_ids for ev in pth for x in ir.walk(ev[1])):
                    nret += 1
                    continue
                atoms = []
                for ev in pth:
                    if ev[0] == "cond":
                        fm = cond(ev[1], env)
                        atoms += conjuncts(fm if ev[2] else ir.f_not(fm))
                cases.append((pth[-1][1], ("and",) + tuple(atoms) if atoms else ("T",)))
        else:
            for st, g, loops in gs:
                if st.get("k") != "Return":
                    continue
                # an emission is on this return's path when it comes earlier and its guard can hold together with the return's
                before = [x for x in emit_nodes if order[id(x)] < order[id(st)] and not contradict(guard_at.get(id(x), ("T",)), g)]
                inside = [x for x in emit_nodes if any(y is x for y in ir.walk(st))]
                if before or inside:
                    nret += 1
                    continue
                cases.append((st, g))
        for st, g in cases:
            nret += 1
            extra = []
            for a in conjuncts(g):
                if a[0] == "not" and a[1][0] == "nz" and str(a[1][1]).startswith("p:") and "*" in (next((p_["t"] for p_ in f["params"] if "p:" + p_["n"] == a[1][1]), "")):
                    continue      # null pointer refusal
                if a[0] == "cmp" and a[1] == "<" and a[2] == "this.m_avail" and a[3].isdigit():
                    continue      # no space even after flush_buffer()
                if a[0] == "cmp" and a[1] == "<=" and a[3] == "this.m_avail":
                    continue
                flush_local = False
                for nm_, d_ in env.defs.items():
                    if nm_ in repr(a) and d_ is not None and isinstance(ir.unwrap_all_casts(d_), dict) and \
                            callee_qn(ir.unwrap_all_casts(d_)) == "CDNS::CdnsEncoder::flush_buffer":
                        flush_local = True
                if ("this.flush_buffer()" in repr(a) or flush_local) and any(b_[0] == "cmp" and b_[1] == "<" and b_[2] == "this.m_avail" for b_ in conjuncts(g)):
                    continue      # `m_avail < k && flush_buffer() == 0`: no space, and flushing freed none (R06.4 decides what flush_buffer reports)
                extra.append(a)
            if not extra and pths is not None and not any(
                    (a[0] == "not" and a[1][0] == "nz" and str(a[1][1]).startswith("p:")) or (a[0] == "cmp" and "this.m_avail" in (a[2], a[3])) or
                    "flush_buffer" in repr(a) for a in conjuncts(g) if isinstance(a, tuple) and len(a) > 1):
                extra = [("T",)] if g == ("T",) else list(conjuncts(g))       # a path with no refusal reason at all
            if extra:
                bad += 1
                run.ob(rule, "%s:return-before-emission@%s" % (fname, show_f(g)[:60]), False, f, st.get("l", 0),
                       "%s returns without emitting anything when %s: every caller has already counted this item (map key written, array "
                       "element counted), so the enclosing container is mis-framed" % (fname, " && ".join(show_f(a) for a in extra)))
        n += 1
        run.ob(rule, "%s:every-path-emits-or-refuses" % fname, bad == 0 and nret > 0, f, f["line"],
               "each of the %d return path(s) has stored the item, or refuses only for a null pointer / no buffer space" % nret if bad == 0 and nret > 0 else
               "%d return path(s) leave without emitting" % bad)
    run.floor(rule, 12, "size_t-returning encoder primitives")


def check(run):
    check_write_int(run)
    check_public_writes(run)
    check_buffer_discipline(run)
    check_write_string(run)
    check_primitive_returns(run, "R06.6")
    check_always_emits(run, "R06.8")
    check_lossy_state(run, "R06.9")
    from .. import ranges
    for f in enc_fns(run.facts):
        seen = {}
        for node, ok, txt in ranges.check_function(f, run.facts.enums):
            base = "%s:%s" % (f["qn"].split("::")[-1], show(node)[:50])
            seen[base] = seen.get(base, 0) + 1
            run.ob("R06.7", base if seen[base] == 1 else "%s#%d" % (base, seen[base]), ok, f, node.get("l", 0), txt)
