#include "src/cdns.h"
#include <iostream>
#include <fcntl.h>
#include <unistd.h>
#include <cstdio>
using namespace CDNS;
static GenericQueryResponse rec(int i){ GenericQueryResponse q; q.client_port = i; q.query_name = std::string(40, 'a' + i % 26); return q; }
int main(){
  int bad = 0;
  { // (1) named output that cannot take any byte (the .part path is a symlink to /dev/full)
    std::remove("/tmp/rp/full.cdns.part"); std::remove("/tmp/rp/full.cdns"); std::remove("/tmp/rp/next.cdns");
    if (symlink("/dev/full", "/tmp/rp/full.cdns.part")) return 2;
    FilePreamble fp;
    CdnsExporter ex(fp, std::string("/tmp/rp/full.cdns"), CborOutputCompression::GZIP == CborOutputCompression::GZIP ? CborOutputCompression::NO_COMPRESSION : CborOutputCompression::NO_COMPRESSION);
    bool thrown = false;
    try {
      for (int i = 0; i < 2000; i++) ex.buffer_qr(rec(i));
      std::size_t n = ex.write_block();
      ex.rotate_output(std::string("/tmp/rp/next.cdns"), false);
      std::cout << "named output on a full device: " << n << " bytes reported written, rotate_output returned normally, no exception\n";
    } catch (std::exception& e) { thrown = true; std::cout << "named output: exception: " << e.what() << "\n"; }
    if (!thrown) bad |= 1;
  }
  { // (2) descriptor output: the failure is reported, but rotation to a healthy descriptor never succeeds
    int full = open("/dev/full", O_WRONLY), good = open("/tmp/rp/recovered.cdns", O_WRONLY | O_CREAT | O_TRUNC, 0644);
    FilePreamble fp;
    CdnsExporter ex(fp, full, CborOutputCompression::NO_COMPRESSION);
    int reported = 0, stuck = 0;
    try { for (int i = 0; i < 2000; i++) ex.buffer_qr(rec(i)); ex.write_block(); } catch (std::exception&) { reported = 1; }
    for (int attempt = 0; attempt < 3; attempt++) {
      try { ex.rotate_output(good, false); break; } catch (std::exception& e) { stuck++; }
    }
    std::cout << "descriptor output: failure reported=" << reported << ", rotate_output to a healthy descriptor failed " << stuck << " of 3 times\n";
    if (stuck == 3) bad |= 2;
  }
  return bad;
}
