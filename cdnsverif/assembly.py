"""Byte-assembly tabulation for CdnsDecoder::read_int (R07.4 / R01.9).

For one value of the additional information the function is a finite program: the number of argument bytes is a constant, every
loop counter is a concrete integer, and the only things not known are the input bytes themselves and how many of them happen
to be buffered (m_end - m_p) when the function starts and after each refill.  `explore` therefore walks the function's IR for
that one value with

  * integer locals and the parameter held concretely (minieval),
  * every variable that holds input held as a map  input byte index -> bit position it ends up at  (so `value += b << 8*(i-1)`,
    `value = (value << 8) | b` and `value = value * 256 + b` are the same thing),
  * the cursor as an offset from where it stood on entry,
  * the window m_end - m_p as an integer that is *chosen*: every value 0..n on entry, every value 1..n that a refill of an empty
    window can deliver; all choices are enumerated (a fast path taken only when the whole argument is buffered, a run-wise
    copy, the byte-by-byte form are all just different sets of paths).

The result is the list of paths that return, each with the map of the returned variable and the cursor offset.  The rule
compares every one of them with RFC 8949's big-endian layout.  Anything the walk does not understand raises minieval.Unknown:
no verdict.  This is a tabulation over a finite domain (4 values x the compositions of at most 8 bytes), not an execution of
the library: no byte value is ever chosen."""
import copy

from . import ir, minieval
from .ir import path, unwrap, unwrap_all_casts
from .minieval import Unknown

MP, MEND = ("this", "m_p"), ("this", "m_end")


class EndOfInput(Exception):
    pass


class OutOfWindow(Unknown):
    """a read or a move of the cursor beyond the bytes buffered on the path being walked (a definite finding, with the path)"""
    def __init__(self, text, choices=()):
        Unknown.__init__(self, text)
        self.choices = tuple(choices)


class Chooser:
    def __init__(self, prefix):
        self.prefix = list(prefix)
        self.taken = []
        self.alternatives = []

    def choose(self, options):
        options = list(options)
        i = len(self.taken)
        if i < len(self.prefix):
            v = self.prefix[i]
        else:
            v = options[0]
            for o in options[1:]:
                self.alternatives.append(self.taken + [o])
        self.taken.append(v)
        return v


class State:
    def __init__(self, env):
        self.env = env          # concrete integers
        self.sym = {}           # variable -> {byte index: shift}
        self.moves = 0          # cursor offset from the entry position
        self.window = 0         # buffered bytes in front of the cursor
        self.refills = 0
        self.ptrs = {}          # local pointer -> absolute byte index it points at (a copy of the cursor taken earlier)
        self.fill_lo = 0        # absolute index of the first byte still in the buffer (the cursor at the last refill)


def _const_arrays(fn, extra=None):
    """constant integer arrays the function can index: its own `static const T name[] = {..}` and those handed in"""
    out = dict(extra or {})
    for d in ir.walk(fn["body"]):
        if d.get("k") == "Decl":
            for v in d.get("vars", []):
                il = unwrap_all_casts(v.get("init")) if v.get("init") is not None else None
                if isinstance(il, dict) and il.get("k") == "InitList" and "const" in (v.get("t") or "") and "[" in (v.get("t") or ""):
                    vals = [ir.const_value(c) for c in il.get("c", [])]
                    if vals and all(isinstance(x, int) for x in vals):
                        out[v.get("n")] = vals
    return out


def explore(fn, pname, ai, want, enums, refill="read_to_buffer", max_paths=4000, arrays=None):
    """[(kind, value, moves)] for every path of fn's body that returns; kind 'bytes' (value = map) or 'const'"""
    results = []
    work = [[]]
    n = 0
    while work:
        prefix = work.pop()
        n += 1
        if n > max_paths:
            raise Unknown("more than %d paths" % max_paths)
        ch = Chooser(prefix)
        st = State({pname: ai, "@arrays": _const_arrays(fn, arrays)})
        st.window = ch.choose(range(want, -1, -1))
        ev = _Eval(st, ch, enums, want, refill)
        try:
            r = ev.run(ir.stmts(fn["body"]))
            if r[0] == "return":
                results.append(r[1:] + (tuple(ch.taken),))
            elif r[0] == "end":
                raise Unknown("a path reaches the end of the function without returning")
        except EndOfInput:
            pass
        work.extend(ch.alternatives)
    return results


class _Eval:
    def __init__(self, st, ch, enums, want, refill):
        self.st, self.ch, self.enums, self.want, self.refill = st, ch, enums, want, refill

    # ---- pointers into the window
    def ptr(self, e):
        """('p', k) for m_p + k, ('end', 0) for m_end, else None"""
        u = unwrap_all_casts(e)
        if not isinstance(u, dict):
            return None
        p = path(u)
        if p == MP:
            return ("p", 0)
        if p == MEND:
            return ("end", 0)
        if p is not None and len(p) == 1 and ir.path_str(p) in self.st.ptrs:
            return ("p", self.st.ptrs[ir.path_str(p)] - self.st.moves)     # relative to where the cursor stands now
        if u.get("k") == "Bin" and u.get("op") in ("+", "-"):
            a = self.ptr(u.get("lhs"))
            if a is not None and a[0] == "p" and self.ptr(u.get("rhs")) is None:
                k = self.cev(u["rhs"])
                return ("p", a[1] + (k if u["op"] == "+" else -k))
        return None

    def resolve(self, e):
        """e with window arithmetic, std::min / std::max replaced by the integers they stand for"""
        if isinstance(e, list):
            return [self.resolve(x) for x in e]
        if not isinstance(e, dict):
            return e
        k = e.get("k")
        if k == "Bin" and e.get("op") in ("-", "<", "<=", ">", ">=", "==", "!="):
            a, b = self.ptr(e.get("lhs")), self.ptr(e.get("rhs"))
            if a is not None and b is not None:
                # positions relative to the cursor: m_p + k -> k, m_end -> window
                pa = a[1] if a[0] == "p" else self.st.window
                pb = b[1] if b[0] == "p" else self.st.window
                if e["op"] == "-":
                    return {"k": "Lit", "v": pa - pb, "t": "long"}
                return {"k": "Lit", "v": bool({"<": pa < pb, "<=": pa <= pb, ">": pa > pb, ">=": pa >= pb, "==": pa == pb, "!=": pa != pb}[e["op"]]), "t": "bool"}
        if k == "Call" and (ir.callee_qn(e) or "").split("<")[0] in ("std::min", "std::max") and len(e.get("args", [])) == 2:
            a, b = self.cev(e["args"][0]), self.cev(e["args"][1])
            return {"k": "Lit", "v": min(a, b) if "min" in ir.callee_qn(e) else max(a, b), "t": e.get("t")}
        if k in ("Member", "Ref") and path(e) in (MP, MEND):
            raise Unknown("the cursor used as a value (%s)" % ir.show(e)[:40])
        out = {}
        for kk, vv in e.items():
            out[kk] = self.resolve(vv) if isinstance(vv, (dict, list)) else vv
        return out

    def cev(self, e):
        u = unwrap(e) if isinstance(e, dict) else e
        for x in ir.walk(u):
            if x.get("k") == "Ref" and x.get("d") == "local" and ir.path_str(path(x)) in self.st.sym and self.st.sym[ir.path_str(path(x))]:
                raise Unknown("a decision depends on input bytes")
        env = dict(self.st.env)
        for key, m in self.st.sym.items():
            if not m:
                env.setdefault(key, 0)
        return minieval.ev(self.resolve(u), env, self.enums)

    # ---- input bytes
    def byte_at(self, off):
        a = self.st.moves + off
        if a < self.st.fill_lo or off >= self.st.window:
            raise OutOfWindow("reads the byte at cursor%+d with %d byte(s) buffered" % (off, self.st.window), self.ch.taken)
        return {a: 0}

    def mentions_input(self, e):
        for x in ir.walk(e):
            if x.get("k") == "Index" and self.ptr(x.get("base")) is not None:
                return True
            if x.get("k") == "Un" and x.get("op") == "*" and self._deref_target(x) is not None:
                return True
            if x.get("k") in ("Ref",) and x.get("d") == "local" and self.st.sym.get(ir.path_str(path(x))):
                return True
        return False

    def _deref_target(self, u):
        inner = unwrap_all_casts(u.get("e"))
        if isinstance(inner, dict) and inner.get("k") == "Un" and inner.get("op") in ("post++", "pre++") and path(inner.get("e")) == MP:
            return inner
        if self.ptr(inner) is not None and self.ptr(inner)[0] == "p":
            return inner
        return None

    def symev(self, e):
        u = unwrap_all_casts(e)
        if not isinstance(u, dict):
            raise Unknown("byte expression")
        if not self.mentions_input(u):
            v = self.cev(u)
            if v == 0:
                return {}
            raise Unknown("a constant %s merged into the argument" % v)
        k = u.get("k")
        if k == "Ref":
            key = ir.path_str(path(u))
            if key in self.st.sym:
                return dict(self.st.sym[key])
        if k == "Index":
            b = self.ptr(u.get("base"))
            if b is not None and b[0] == "p":
                return self.byte_at(b[1] + self.cev(u["idx"]))
        if k == "Un" and u.get("op") == "*":
            t = self._deref_target(u)
            if t is not None:
                if t.get("k") == "Un":
                    if t["op"] == "pre++":
                        self.move(1)
                        return self.byte_at(0)
                    m = self.byte_at(0)
                    self.move(1)
                    return m
                return self.byte_at(self.ptr(t)[1])
        if k == "Bin" and u.get("op") == "<<":
            sh = self.cev(u["rhs"])
            return {i: s + sh for i, s in self.symev(u["lhs"]).items()}
        if k == "Bin" and u.get("op") == "*":
            for a, b in ((u["lhs"], u["rhs"]), (u["rhs"], u["lhs"])):
                if not self.mentions_input(b):
                    m = self.cev(b)
                    if m > 0 and m & (m - 1) == 0:
                        return {i: s + m.bit_length() - 1 for i, s in self.symev(a).items()}
                    raise Unknown("multiplication by %s" % m)
        if k == "Bin" and u.get("op") in ("|", "+"):
            a, b = self.symev(u["lhs"]), self.symev(u["rhs"])
            if set(a) & set(b):
                raise Unknown("the same input byte is merged twice")
            for i, s in a.items():
                for j, s2 in b.items():
                    if abs(s - s2) < 8:
                        raise Unknown("two input bytes overlap at bit positions %d and %d" % (s, s2))
            a.update(b)
            return a
        raise Unknown("byte expression %s" % ir.show(u)[:50])

    def move(self, n):
        if n < 0:
            raise Unknown("the cursor moves backwards")
        if n > self.st.window:
            raise OutOfWindow("moves the cursor by %d byte(s) with %d buffered" % (n, self.st.window), self.ch.taken)
        self.st.moves += n
        self.st.window -= n

    # ---- statements
    def store(self, lhs, op, rhs):
        lp = path(unwrap_all_casts(lhs))
        if lp == MP:
            if op == "+=":
                self.move(self.cev(rhs))
                return
            if op == "=":
                t = self.ptr(rhs)
                if t is not None and t[0] == "p":
                    self.move(t[1])
                    return
            raise Unknown("cursor store %s" % op)
        if lp is None or len(lp) != 1:
            raise Unknown("store to %s" % ir.show(lhs)[:40])
        key = ir.path_str(lp)
        if op == "=":
            if self.mentions_input(rhs):
                self.st.sym[key] = self.symev(rhs)
                self.st.env.pop(key, None)
            else:
                self.st.env[key] = minieval.wrap(self.cev(rhs), (unwrap_all_casts(lhs) or {}).get("t"), self.enums)
                self.st.sym.pop(key, None)
            return
        if self.mentions_input(rhs) or self.st.sym.get(key):
            if op not in ("+=", "|="):
                if op in ("<<=", "*="):
                    fake = {"k": "Bin", "op": op[:-1], "lhs": lhs, "rhs": rhs, "t": (unwrap_all_casts(lhs) or {}).get("t")}
                    cur = self.st.sym.get(key)
                    if cur is None and self.st.env.get(key) == 0:
                        self.st.sym[key] = {}
                        self.st.env.pop(key, None)
                    self.st.sym[key] = self.symev(fake)
                    return
                raise Unknown("compound store %s on the argument" % op)
            cur = self.st.sym.get(key)
            if cur is None:
                if self.st.env.get(key) != 0:
                    raise Unknown("input merged into %s, which holds %s" % (key, self.st.env.get(key)))
                cur = {}
            m = self.symev(rhs)
            if set(cur) & set(m):
                raise Unknown("the same input byte is merged twice")
            for i, s in cur.items():
                for j, s2 in m.items():
                    if abs(s - s2) < 8:
                        raise Unknown("two input bytes overlap at bit positions %d and %d" % (s, s2))
            cur = dict(cur)
            cur.update(m)
            self.st.sym[key] = cur
            self.st.env.pop(key, None)
            return
        fake = {"k": "Bin", "op": op[:-1], "lhs": lhs, "rhs": rhs, "t": (unwrap_all_casts(lhs) or {}).get("t")}
        self.st.env[key] = minieval.wrap(self.cev(fake), (unwrap_all_casts(lhs) or {}).get("t"), self.enums)

    def expr_stmt(self, u):
        k = u.get("k")
        if k == "Bin" and (u.get("op") or "").endswith("=") and u["op"] not in ("==", "!=", "<=", ">="):
            self.store(u["lhs"], u["op"], u["rhs"])
            return
        if k == "Un" and u.get("op") in ("pre++", "post++", "pre--", "post--"):
            if path(unwrap_all_casts(u.get("e"))) == MP:
                self.move(1 if "++" in u["op"] else -1)
                return
            key = ir.path_str(path(unwrap_all_casts(u["e"])))
            if key not in self.st.env:
                raise Unknown("update of %s" % key)
            self.st.env[key] = minieval.wrap(self.st.env[key] + (1 if "++" in u["op"] else -1), unwrap_all_casts(u["e"]).get("t"), self.enums)
            return
        if k in ("MCall", "Call"):
            nm = ir.callee_name(u)
            if nm == self.refill:
                if self.st.window == 0:
                    opts = list(range(self.want, 0, -1))
                    self.st.refills += 1
                    if self.st.refills > 9:
                        raise EndOfInput()
                    self.st.window = self.ch.choose(opts)
                    self.st.fill_lo = self.st.moves          # what was buffered before is gone
                return
            raise Unknown("call of %s" % nm)
        if k == "Cast" and (u.get("t") or "") == "void":
            return
        if k == "Null":
            return
        raise Unknown("statement %s" % ir.show(u)[:40])

    def run(self, sts):
        for s in sts:
            r = self.stmt(s)
            if r[0] != "end":
                return r
        return ("end",)

    def stmt(self, s):
        if not isinstance(s, dict):
            return ("end",)
        k = s.get("k")
        if k == "Block":
            return self.run(s.get("s", []))
        if k == "Null":
            return ("end",)
        if k == "If":
            c = self.cev(s["cond"])
            br = s.get("then") if c else s.get("else")
            return self.run(ir.stmts(br)) if br is not None else ("end",)
        if k == "Switch":
            on = self.cev(s["cond"])
            body = ir.stmts(s.get("body"))
            start = default = None
            for i, x in enumerate(body):
                y = x
                while isinstance(y, dict) and y.get("k") in ("Case", "Default"):
                    if y["k"] == "Case":
                        if self.cev(y["val"]) == on and start is None:
                            start = i
                    elif default is None:
                        default = i
                    y = y.get("sub")
            if start is None:
                start = default
            if start is None:
                return ("end",)
            for x in body[start:]:
                y = x
                while isinstance(y, dict) and y.get("k") in ("Case", "Default"):
                    y = y.get("sub")
                if y is None:
                    continue
                r = self.stmt(y)
                if r[0] == "break":
                    return ("end",)
                if r[0] != "end":
                    return r
            return ("end",)
        if k in ("For", "While", "Do"):
            if k == "For" and s.get("init") is not None:
                r = self.stmt(s["init"])
                if r[0] != "end":
                    return r
            rounds = 0
            first = True
            while True:
                if not (first and k == "Do") and s.get("cond") is not None and not self.cev(s["cond"]):
                    break
                first = False
                rounds += 1
                if rounds > 80:
                    raise Unknown("a loop does not end within 80 rounds")
                r = self.run(ir.stmts(s.get("body")))
                if r[0] == "break":
                    break
                if r[0] not in ("end", "continue"):
                    return r
                if k == "For" and s.get("inc") is not None:
                    self.expr_stmt(unwrap(s["inc"]))
            return ("end",)
        if k == "Break":
            return ("break",)
        if k == "Continue":
            return ("continue",)
        if k == "Throw":
            raise EndOfInput()
        if k == "Return":
            e = s.get("e")
            if e is None:
                raise Unknown("return without a value")
            if self.mentions_input(e):
                return ("return", "bytes", self.symev(e), self.st.moves)
            u = unwrap_all_casts(e)
            key = ir.path_str(path(u)) if isinstance(u, dict) and path(u) else None
            if key in self.st.sym:
                return ("return", "bytes", dict(self.st.sym[key]), self.st.moves)
            return ("return", "const", self.cev(e), self.st.moves)
        if k == "Decl":
            for v in s.get("vars", []):
                if "n" not in v:
                    continue
                key = "l:%s#%s" % (v["n"], v["id"])
                self.st.sym.pop(key, None)
                self.st.env.pop(key, None)
                if v.get("init") is None:
                    continue
                if (v.get("t") or "").rstrip().endswith("*"):
                    t_ = self.ptr(v["init"])
                    if t_ is not None and t_[0] == "p":
                        self.st.ptrs[key] = self.st.moves + t_[1]
                        continue
                if self.mentions_input(v["init"]):
                    self.st.sym[key] = self.symev(v["init"])
                else:
                    try:
                        self.st.env[key] = minieval.wrap(self.cev(v["init"]), (v.get("t") or "").replace("const ", ""), self.enums)
                    except Unknown:
                        if any(self.ptr(x) is not None for x in ir.walk(v["init"])):
                            raise
            return ("end",)
        self.expr_stmt(unwrap(s))
        return ("end",)
