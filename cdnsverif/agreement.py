"""A5 writer/reader table agreement: per struct, the rows the writer emits vs. the cases the reader handles."""
from . import ir, emission, consumption, tables
from .ir import (path, path_str, unwrap, unwrap_all_casts, callee_name, callee_qn, const_value, show, show_f, Env)

WIDTH = {"BOOL": 1, "UINT8": 8, "UINT16": 16, "UINT32": 32, "UINT64": 64, "INT8": 8, "INT16": 16, "INT32": 32, "INT64": 64}
TYPE_BITS = {"bool": 1, "unsigned char": 8, "signed char": 8, "char": 8, "unsigned short": 16, "short": 16,
             "unsigned int": 32, "int": 32, "unsigned long": 64, "long": 64}


def short(q):
    return q.replace("CDNS::", "")


def value_source(item, env):
    """(member, detail) of a writer value Item; member is the struct member the value comes from."""
    if item is None:
        return None, None
    ev = item.ev
    if item.kind in ("ARRAY",):
        if item.count and item.count[0] == "size":
            p = item.count[1]
            return consumption.member_of(p), {"path": p}
        return None, None
    if item.kind == "STRUCT":
        rp = path(ev.call.get("recv")) if ev.call.get("k") == "MCall" else None
        if rp is not None:
            rp = env.resolve_ref_path(rp)
            if rp == ("this",):
                return "-", {"path": rp}
            return consumption.member_of(rp), {"path": rp}
        return None, None
    if item.kind == "MAP":
        return None, None
    # scalar
    a = ev.call["args"][0] if ev.call.get("args") else None
    return scalar_source(a, env)


def scalar_source(a, env):
    e = unwrap_all_casts(a)
    narrowing = []
    # record explicit casts on the way
    cur = a
    while isinstance(cur, dict):
        cur = unwrap(cur)
        if isinstance(cur, dict) and cur.get("k") == "Cast":
            narrowing.append((cur.get("from"), cur.get("t"), cur.get("style")))
            cur = cur.get("e")
        else:
            break
    if isinstance(e, dict) and e.get("k") == "Call" and callee_qn(e) == "CDNS::get_map_index" and e.get("args"):
        m, d = scalar_source(e["args"][0], env)
        return m, d
    if isinstance(e, dict) and e.get("k") == "MCall" and callee_name(e) == "get_time_offset":
        rp = path(e.get("recv"))
        if rp is not None:
            rp = env.resolve_ref_path(rp)
            return consumption.member_of(rp), {"path": rp, "time_offset": True, "args": e.get("args", [])}
    p = path(e)
    if p is not None:
        p = env.resolve_ref_path(p)
        return consumption.member_of(p), {"path": p, "type": e.get("t"), "casts": narrowing}
    return None, {"expr": show(a)}


_WCACHE = {}


def effective(item, facts):
    """(kind, elem item, struct cls) of a writer item, resolving a STRUCT whose serialiser emits a
    non-map item (StringItem -> BYTES, IndexListItem -> ARRAY[UINT32], Timestamp -> ARRAY)."""
    if item is None:
        return None, None, None
    if item.kind != "STRUCT":
        return item.kind, item.elem, None
    cal = item.ev.detail or {}
    cands = [g for g in facts.fns(cal.get("qn")) if g["sig"] == cal.get("sig")]
    if len(cands) != 1:
        return "STRUCT", None, cal.get("cls")
    k = cands[0]["key"]
    if k not in _WCACHE:
        _WCACHE[k] = emission.analyse_writer(cands[0], facts)
    cwa = _WCACHE[k]
    if cwa.top is not None and cwa.top.kind not in ("MAP", "STRUCT"):
        return cwa.top.kind, cwa.top.elem, cal.get("cls")
    return "STRUCT", None, cal.get("cls")


def reader_kind_compatible(wkind, rkind, welem=None, relem=None):
    if wkind is None or rkind is None:
        return None
    if wkind.startswith("UINT"):
        return rkind in ("UINT", "INT")
    if wkind.startswith("INT"):
        return rkind == "INT"
    if wkind == "BOOL":
        return rkind == "BOOL"
    if wkind == "TEXT":
        return rkind == "TEXT"
    if wkind == "BYTES":
        return rkind == "BYTES"
    if wkind == "STRUCT":
        return rkind == "STRUCT"
    if wkind == "ARRAY":
        return rkind == "ARRAY"
    return None


def enum_underlying_bits(facts, t):
    if t in TYPE_BITS:
        return TYPE_BITS[t]
    e = facts.enums.get(t)
    if e:
        return TYPE_BITS.get(e["underlying"])
    return None


def payload_type(t):
    if t and t.startswith("boost::optional<") and t.endswith(">"):
        return t[len("boost::optional<"):-1]
    return t


def find_pair(facts, struct):
    w = [f for f in facts.fns(struct + "::write") if emission.is_serialiser_sig(f)]
    r = [f for f in facts.fns(struct + "::read") if consumption.is_deserialiser_sig(f)]
    return (w[0] if len(w) == 1 else None), (r[0] if len(r) == 1 else None)


def check_pair(run, rule, struct, wfn, rfn, width_rule=None, label=None):
    """Emits obligations for one writer/reader pair. Returns (writer analysis, reader analysis)."""
    facts = run.facts
    name = label or short(struct)
    wa = emission.analyse_writer(wfn, facts)
    mr = consumption.analyse_full(rfn, facts)
    if wa.unrecognised or (mr.unrecognised and not mr.rows):
        run.ob(rule, "%s:tables" % name, None, wfn, wfn["line"],
               "cannot extract tables: %s" % (wa.unrecognised or mr.unrecognised)[:1])
        return wa, mr
    wrows = {}
    for r in wa.rows:
        wrows.setdefault((r["enum"], r["name"]), []).append(r)
    rrows = {}
    for r in mr.rows:
        rrows.setdefault((r["enum"], r["name"]), []).append(r)
    rec = facts.records.get(struct)
    for key in sorted(set(wrows) | set(rrows), key=repr):
        en, nm = key
        w = wrows.get(key, [])
        r = rrows.get(key, [])
        k = "%s.%s" % (name, nm)
        if len(w) > 1:
            run.ob(rule, k + ":dup-key-writer", False, wfn, w[1]["line"], "key %s emitted twice" % nm)
        if len(r) > 1:
            run.ob(rule, k + ":dup-key-reader", False, rfn, r[1]["line"], "key %s handled by two cases" % nm)
        if not w:
            run.ob(rule, k + ":keyset", True, rfn, r[0]["line"], "reader accepts key %s that the writer never emits (harmless)" % nm, nontrivial=False)
            continue
        if not r:
            run.ob(rule, k + ":keyset", False, wfn, w[0]["line"],
                   "writer emits key %s (=%s) but %s::read has no case for it: the member is skipped on reading" % (nm, w[0]["keyval"], name))
            continue
        w, r = w[0], r[0]
        run.ob(rule, k + ":keyset", True, wfn, w["line"], "key %s written and read" % nm, nontrivial=False)
        # member agreement
        wm, wd = value_source(w["value"], wa.env)
        rm = r["member"]
        if wm is None or rm is None:
            run.ob(rule, k + ":member", None, wfn, w["line"], "cannot determine the member behind key %s (writer %s / reader %s)" % (nm, wm, rm))
        else:
            ok = wm == rm
            run.ob(rule, k + ":member", ok, wfn if ok else rfn, w["line"] if ok else r["line"],
                   "key %s carries member %s on both sides" % (nm, wm) if ok else
                   "key %s is written from member %s but read into member %s" % (nm, wm, rm))
        # kind agreement
        wk = w["value"].kind if w["value"] is not None else None
        wk0 = "STRUCT" if wk == "STRUCT" else ("ARRAY" if wk == "ARRAY" else wk)
        comp = reader_kind_compatible(wk0, r["kind"])
        why = "writer %s / reader %s" % (wk0, r["kind"])
        if comp and wk0 == "STRUCT":
            wcls = (w["value"].ev.detail or {}).get("cls")
            if r["cls"] and wcls and wcls != r["cls"] and r["cls"] != "CDNS::CdnsBlockRead" and wcls != "CDNS::CdnsBlock":
                comp = False
                why = "writer serialises %s, reader parses %s" % (wcls, r["cls"])
        if comp and wk0 == "ARRAY":
            el = w["value"].elem
            ek, _, ecls = effective(el, facts)
            ek0 = "STRUCT" if ek == "STRUCT" else ("ARRAY" if ek == "ARRAY" else ek)
            relem = r["elem"]
            if relem == "STRUCT" and ek0 in ("ARRAY", "BYTES", "TEXT") and r["cls"] and ecls == r["cls"]:
                relem = ek0     # both sides delegate to the same struct's write/read pair
            c2 = reader_kind_compatible(ek0, relem)
            if c2 is False:
                comp = False
                why = "array elements: writer %s / reader %s" % (ek0, relem)
            elif c2 is None:
                comp = None
                why = "array element kinds not determined (writer %s / reader %s)" % (ek0, r["elem"])
            elif ek0 == "STRUCT" and r["cls"] and (el.ev.detail or {}).get("cls") != r["cls"]:
                comp = False
                why = "array elements: writer serialises %s, reader parses %s" % ((el.ev.detail or {}).get("cls"), r["cls"])
        run.ob(rule, k + ":kind", comp, wfn, w["line"], ("compatible CBOR kinds (%s)" % why) if comp else
               "key %s: incompatible CBOR kinds, %s" % (nm, why))
        # a list member takes exactly the decoded array: it is emptied before the elements are appended, or the decoded
        # list replaces it unconditionally (a hand-over skipped for an empty array keeps whatever reset() installed)
        lf = r.get("list_fill")
        if lf is not None and r["kind"] == "ARRAY" and rm and rec is not None and \
                any(fl["n"] == rm and "std::vector<" in (fl.get("t") or "") for fl in rec.get("fields", [])):
            starts_empty, rf_, rl_ = reset_clears(facts, struct, rm, rfn)
            if lf["mode"] == "in-place":
                ok = lf["cleared"] or starts_empty is True
                why_ = "elements are appended to %s after it was emptied" % rm if ok else \
                    "elements are appended to %s, which is neither cleared in this case nor empty after reset(): the list read back is the " \
                    "previous / default content followed by the decoded elements" % rm
            else:
                g_ = lf.get("transfer_guard")
                ok = g_ == ("T",) or (g_ is not None and starts_empty is True)
                why_ = "the decoded list replaces %s" % rm if ok else (
                    "the decoded list is handed to %s only when %s: for the other case %s keeps the non-empty value reset() installed "
                    "(an empty array in the file reads back as the defaults)" % (rm, show_f(g_), rm) if g_ is not None else
                    "the decoded list never reaches %s" % rm)
            run.ob(rule, k + ":list-replaced", ok, rfn, lf.get("line") or r["line"], why_)
        # reader-required => writer-unconditional
        if r["flag"] is not None and r["flag"] in mr.flags_required:
            ok = w["guard"] == ("T",) and wa.top_guard == ("T",)
            run.ob(rule, k + ":mandatory", ok, wfn, w["line"],
                   "reader requires key %s and the writer always emits it" % nm if ok else
                   "reader rejects input without key %s but the writer emits it only under %s" % (nm, show_f(w["guard"])))
        # time offsets: the 64-bit tick difference must go out through a 64-bit overload
        if width_rule and wd and wd.get("time_offset") and wk in WIDTH:
            run.ob(width_rule, k + ":width", WIDTH[wk] >= 64, wfn, w["line"],
                   "the 64-bit tick offset is written with a 64-bit overload" if WIDTH[wk] >= 64 else
                   "the tick offset (int64_t) is narrowed to %d bits on the way out: offsets above that range are truncated" % WIDTH[wk])
        # array elements: same width rule on the element expression
        if width_rule and wk0 == "ARRAY" and w["value"].elem is not None and w["value"].elem.kind in WIDTH:
            el = w["value"].elem
            _, ed = scalar_source(el.ev.call["args"][0], wa.env) if el.ev.call.get("args") else (None, None)
            if ed and ed.get("type"):
                mt = payload_type(ed["type"].replace("const ", ""))
                mb = enum_underlying_bits(facts, mt)
                wb = WIDTH[el.kind]
                narrowing = [c for c in ed.get("casts", []) if enum_underlying_bits(facts, (c[0] or "").replace("const ", "")) and
                             enum_underlying_bits(facts, c[1]) and enum_underlying_bits(facts, c[1]) < enum_underlying_bits(facts, (c[0] or "").replace("const ", ""))]
                if mb is not None:
                    ok = wb >= mb and not narrowing
                    run.ob(width_rule, k + ":element-width", ok, wfn, el.ev.line,
                           "elements of %d bits written with a %d-bit overload" % (mb, wb) if ok else
                           "list elements (%s, %d bits) are narrowed to %d bits on the way out" % (
                               mt, mb, min([wb] + [enum_underlying_bits(facts, c[1]) for c in narrowing])))
        # width: the overload written is at least as wide as the member, no narrowing cast on the way out
        if width_rule and wd and wd.get("type") and wk in WIDTH:
            mt = payload_type(wd["type"].replace("const ", ""))
            mb = enum_underlying_bits(facts, mt)
            wb = WIDTH[wk]
            if mb is None:
                run.ob(width_rule, k + ":width", None, wfn, w["line"], "member type %s has no known width" % mt)
            else:
                narrowing = [c for c in wd.get("casts", []) if enum_underlying_bits(facts, (c[0] or "").replace("const ", "")) and
                             enum_underlying_bits(facts, c[1]) and enum_underlying_bits(facts, c[1]) < enum_underlying_bits(facts, (c[0] or "").replace("const ", ""))]
                ok = wb >= mb and not narrowing
                run.ob(width_rule, k + ":width", ok, wfn, w["line"],
                       "member of %d bits written with a %d-bit overload" % (mb, wb) if ok else
                       "member %s (%s, %d bits) is narrowed to %d bits on the way out%s: values above the narrower range do not survive" % (
                           wm, mt, mb, min([wb] + [enum_underlying_bits(facts, c[1]) for c in narrowing]),
                           " by %s" % ["%s->%s" % (c[0], c[1]) for c in narrowing] if narrowing else ""))
    return wa, mr


def reset_clears(facts, struct, member, rfn):
    """True if after reset()/at the start of read() the optional/vector member is empty."""
    cands = facts.fns(struct + "::reset") + facts.fns(struct + "::clear")
    # reset()/clear() only count if read() really calls them before its loop
    called = set()
    for s_ in ir.stmts(rfn["body"]):
        if s_.get("k") in ("While", "For", "Do"):
            break
        for c in ir.calls_in(s_):
            if c.get("k") == "MCall" and unwrap(c.get("recv") or {}).get("k") == "This":
                called.add(callee_qn(c))
    cands = [f for f in cands if f["qn"] in called]
    verdict = None
    for f in cands + [rfn]:
        body = ir.stmts(f["body"])
        if f is rfn:
            # only statements before the loop (which may sit inside an `if (indef) .. else ..` when there is one loop per form)
            pre = []
            for s in body:
                if any(x.get("k") in ("While", "For", "Do") for x in ir.walk(s)):
                    break
                pre.append(s)
            body = pre[:12]
        for s in body:
            in_lambda = set(id(y) for x in ir.walk(s) if x.get("k") == "Lambda" for y in ir.walk(x.get("body") or {}))
            for n in ir.walk(s):
                if id(n) in in_lambda:
                    continue            # the body of a lambda runs where it is called, not where it is declared
                if n.get("k") == "OpCall" and n.get("op") == "=" and len(n.get("args", [])) == 2 and path(n["args"][0]) == ("this", member):
                    sig = (n.get("callee") or {}).get("sig", [])
                    isnone = sig == ["boost::none_t"] or any(x.get("qn") == "boost::none" for x in ir.walk(n["args"][1]))
                    verdict = bool(isnone)
                    where = n.get("l", 0)
                    last = (verdict, f, where)
                if n.get("k") == "MCall" and callee_name(n) in ("clear", "reset") and path(n.get("recv")) == ("this", member):
                    verdict = True
                    last = (True, f, n.get("l", 0))
                if n.get("k") == "Bin" and n.get("op") == "=" and path(n["lhs"]) == ("this", member):
                    r_ = ir.unwrap_all_casts(n.get("rhs"))
                    isnone = any(x.get("qn") == "boost::none" for x in ir.walk(n.get("rhs"))) or \
                        (isinstance(r_, dict) and r_.get("k") == "Construct" and not r_.get("args") and "optional<" in (r_.get("t") or ""))
                    verdict = bool(isnone)
                    last = (verdict, f, n.get("l", 0))
    if verdict is None:
        return None, None, 0
    return last
