"""Fact base: runs the libTooling extractor over the translation units of /repo's *current*
working tree and merges the per-TU JSON documents.

TU set: derived from CMakeLists.txt exactly the way CMake derives it (file(GLOB src/*.cpp) +
every add_executable source) plus the verif-owned instantiation TU.  Nothing is cached by
path or time: the optional cache is keyed by the sha256 of every input byte (sources, headers,
CMakeLists.txt, extractor binary, flags), so a changed tree can never be served stale facts.
"""
import glob
import hashlib
import json
import os
import re
import shutil
import subprocess
import sys
import tempfile
import time
from concurrent.futures import ThreadPoolExecutor

VERIF = os.path.dirname(os.path.dirname(os.path.abspath(__file__)))
EXTRACTOR = os.path.join(VERIF, "build", "cdns-facts")
RESOURCE_DIR = "/usr/lib/llvm-14/lib/clang/14.0.6"


class AnalysisBroken(Exception):
    """The analysis cannot give a verdict (lost anchor, unparsable TU, unknown idiom)."""

    def __init__(self, rule, reason):
        super().__init__("%s: %s" % (rule, reason))
        self.rule = rule
        self.reason = reason


def repo_root():
    return os.environ.get("CDNS_REPO", "/repo")


def tu_list(repo):
    cm = os.path.join(repo, "CMakeLists.txt")
    if not os.path.exists(cm):
        raise AnalysisBroken("tu-set", "CMakeLists.txt not found in %s" % repo)
    txt = open(cm).read()
    tus = []
    # file(GLOB sources "src/*.cpp")
    for m in re.finditer(r'file\s*\(\s*GLOB\s+\w+\s+"([^"]+\.cpp)"\s*\)', txt):
        tus += sorted(glob.glob(os.path.join(repo, m.group(1))))
    # add_executable(name a.cpp b.cpp)
    for m in re.finditer(r'add_executable\s*\(\s*[\w-]+\s+([^)]+)\)', txt):
        for tok in m.group(1).split():
            if tok.endswith(".cpp"):
                p = os.path.join(repo, tok)
                if os.path.exists(p):
                    tus.append(p)
    seen = set()
    out = []
    for t in tus:
        t = os.path.normpath(t)
        if t not in seen:
            seen.add(t)
            out.append(t)
    if len(out) < 8:
        raise AnalysisBroken("tu-set", "only %d translation units derived from CMakeLists.txt" % len(out))
    return out


def flags(repo):
    return ["-std=gnu++14", "-I" + repo, "-msse4", "-UNDEBUG", "-resource-dir", RESOURCE_DIR,
            "-Wno-everything"]


def _content_key(repo, tus, extra):
    h = hashlib.sha256()
    files = set(tus) | set(extra)
    for pat in ("src/*.h", "src/*.cpp", "src/bin/*.cpp", "src/bin/*.h", "CMakeLists.txt"):
        files |= set(glob.glob(os.path.join(repo, pat)))
    files.add(EXTRACTOR)
    for f in sorted(files):
        h.update(f.encode())
        try:
            with open(f, "rb") as fh:
                h.update(hashlib.sha256(fh.read()).digest())
        except OSError:
            h.update(b"<missing>")
    h.update(" ".join(flags(repo)).encode())
    return h.hexdigest()[:32]


def _run_one(args):
    src, out, roots, repo = args
    cmd = [EXTRACTOR, "--out=" + out] + ["--root=" + r for r in roots] + [src, "--"] + flags(repo)
    t0 = time.time()
    p = subprocess.run(cmd, stdout=subprocess.PIPE, stderr=subprocess.PIPE, text=True)
    return src, out, p.returncode, p.stderr, time.time() - t0


def _load_doc(path):
    """Explicit specialisations print their class as written (Writer<std::string>) while qualified names are
    canonical (Writer<std::basic_string<char>>): normalise to the canonical spelling."""
    txt = open(path).read()
    txt = txt.replace("Writer<std::string>", "Writer<std::basic_string<char>>")
    return json.loads(txt)


class Facts:
    def __init__(self):
        self.functions = {}   # key -> fn
        self.by_qn = {}       # qn -> [fn]
        self.records = {}     # qn -> rec
        self.enums = {}       # qn -> enum
        self.vars = []
        self.hashinst = {}
        self.tus = []
        self.fn_tu = {}
        self.extract_s = 0.0
        self.cache_hit = False
        self.repo = None
        self.absorbed = {}    # key -> helper function every call of which was inlined (analysed in its callers)
        self.norm_stats = {}
        self.controls = {}    # qn -> control function (tu/rule_controls.cpp)

    def fn(self, qn, sig=None, required=True, rule="anchor"):
        """Return the unique function with this qualified name (and signature if given)."""
        c = self.by_qn.get(qn, [])
        if sig is not None:
            c = [f for f in c if f["sig"] == sig]
        if len(c) == 1:
            return c[0]
        if not c:
            if required:
                raise AnalysisBroken(rule, "function %s%s not found in the tree" % (qn, sig or ""))
            return None
        if required:
            raise AnalysisBroken(rule, "function %s is ambiguous (%d overloads)" % (qn, len(c)))
        return None

    def fns(self, qn):
        return list(self.by_qn.get(qn, []))

    def control(self, qn, rule):
        f = self.controls.get("verif_rc::" + qn)
        if f is None:
            raise AnalysisBroken(rule, "positive control verif_rc::%s not found (tu/rule_controls.cpp)" % qn)
        return f

    def record(self, qn, required=True, rule="anchor"):
        r = self.records.get(qn)
        if r is None and required:
            raise AnalysisBroken(rule, "record %s not found in the tree" % qn)
        return r

    def enum(self, qn, required=True, rule="anchor"):
        e = self.enums.get(qn)
        if e is None and required:
            raise AnalysisBroken(rule, "enum %s not found in the tree" % qn)
        return e

    def rel(self, path):
        if self.repo and path.startswith(self.repo + "/"):
            return path[len(self.repo) + 1:]
        return path


def load(repo=None, extra_tus=None, extra_roots=None, use_cache=True, only_tus=None):
    repo = os.path.normpath(repo or repo_root())
    if not os.path.exists(EXTRACTOR):
        raise AnalysisBroken("setup", "extractor %s missing; run tool/build.sh (MANIFEST.setup_cmd)" % EXTRACTOR)
    tus = tu_list(repo) if only_tus is None else list(only_tus)
    inst = os.path.join(VERIF, "tu", "instantiate.cpp")
    extra = [inst, os.path.join(VERIF, "tu", "normalize_fixtures.cpp"), os.path.join(VERIF, "tu", "rule_controls.cpp")] if only_tus is None else []
    extra += list(extra_tus or [])
    roots = [repo + "/", os.path.join(VERIF, "tu") + "/"] + list(extra_roots or [])
    t0 = time.time()
    key = _content_key(repo, tus, extra)
    cache_dir = os.path.join(VERIF, "build", "cache", key)
    facts = Facts()
    facts.repo = repo
    docs = []
    if use_cache and os.environ.get("VERIF_NO_CACHE") != "1" and os.path.exists(os.path.join(cache_dir, "DONE")):
        for f in sorted(glob.glob(os.path.join(cache_dir, "*.json"))):
            docs.append(_load_doc(f))
        facts.cache_hit = True
    else:
        tmp = tempfile.mkdtemp(prefix="facts-", dir=os.path.join(VERIF, "build"))
        try:
            jobs = []
            for i, src in enumerate(tus + extra):
                out = os.path.join(tmp, "%02d_%s.json" % (i, os.path.basename(src).replace(".cpp", "")))
                jobs.append((src, out, roots, repo))
            with ThreadPoolExecutor(max_workers=16) as ex:
                res = list(ex.map(_run_one, jobs))
            for src, out, rc, err, dt in res:
                if rc != 0 or not os.path.exists(out):
                    raise AnalysisBroken("extract", "extractor failed on %s (rc=%s): %s" % (src, rc, err.strip()[-600:]))
                d = _load_doc(out)
                if d.get("errors"):
                    raise AnalysisBroken("extract", "translation unit %s does not compile: %s" % (src, err.strip()[-600:]))
                docs.append(d)
            if use_cache and os.environ.get("VERIF_NO_CACHE") != "1":
                os.makedirs(os.path.dirname(cache_dir), exist_ok=True)
                # keep the cache small: drop older entries
                old = sorted(glob.glob(os.path.join(VERIF, "build", "cache", "*")), key=os.path.getmtime)
                for o in old[:-6]:
                    shutil.rmtree(o, ignore_errors=True)
                try:
                    if not os.path.exists(cache_dir):
                        shutil.copytree(tmp, cache_dir)
                        open(os.path.join(cache_dir, "DONE"), "w").write("ok")
                except OSError:
                    pass
        finally:
            shutil.rmtree(tmp, ignore_errors=True)
    for d in docs:
        facts.tus.append(d["tu"])
        for f in d["functions"]:
            if f["key"] in facts.functions and facts.functions[f["key"]]["file"] != f["file"]:
                # same signature defined in several files (each tool's main, static helpers): keep both
                f["key"] = "%s@%s" % (f["key"], os.path.basename(f["file"]))
            if f["key"] not in facts.functions:
                facts.functions[f["key"]] = f
                facts.by_qn.setdefault(f["qn"], []).append(f)
                facts.fn_tu[f["key"]] = d["tu"]
        for r in d["records"]:
            facts.records.setdefault(r["qn"], r)
            # explicit specialisations keep the spelling of their declaration (Writer<std::string>); functions name
            # the same class canonically (Writer<std::basic_string<char>>): register both spellings
            alt = r["qn"].replace("std::string", "std::basic_string<char>")
            if alt != r["qn"]:
                facts.records.setdefault(alt, r)
        for e in d["enums"]:
            facts.enums.setdefault(e["qn"], e)
        seenv = set((v["qn"], v["file"], v["line"]) for v in facts.vars)
        for v in d["vars"]:
            k = (v["qn"], v["file"], v["line"])
            if k not in seenv:
                seenv.add(k)
                facts.vars.append(v)
        for h in d["hashinst"]:
            facts.hashinst.setdefault(h["fn"], h)
    from . import hierarchy
    facts.flattened = hierarchy.flatten(facts)
    if os.environ.get("VERIF_NO_NORMALISE") != "1":
        from . import normalize
        normalize.normalise(facts)
        if only_tus is None:
            normalize.self_check(facts)
    # positive controls of zero-expected rules (tu/rule_controls.cpp): kept apart from the analysed program
    for k in [k for k, f in facts.functions.items() if f["qn"].startswith("verif_rc::")]:
        f = facts.functions.pop(k)
        lst = facts.by_qn.get(f["qn"], [])
        if f in lst:
            lst.remove(f)
        facts.controls[f["qn"]] = f
    if os.environ.get("VERIF_NO_NORMALISE") != "1":
        # members that are always assigned the same function of other members: verified ones are rewritten away, stale ones
        # are kept for the rules to report (cdnsverif/derived.py)
        from . import derived
        facts.derived_eliminated = derived.apply(facts)
    facts.extract_s = time.time() - t0
    return facts
