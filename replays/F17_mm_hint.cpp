#include "src/cdns.h"
#include <iostream>
int main(){
  using namespace CDNS;
  BlockParameters bp; bp.storage_parameters.storage_hints.other_data_hints = 0; // neither MM nor AEC
  CdnsBlock b(bp, 0);
  MalformedMessage mm; mm.client_port = 53;
  AddressEventCount aec; aec.ae_address_index = 0;
  b.add_malformed_message(mm);
  b.add_address_event_count(aec);
  std::cout << "hints off: stored mm=" << b.get_mm_count() << " aec=" << b.get_aec_count() << "\n";
  return b.get_mm_count() ? 1 : 0;
}
