#!/usr/bin/env python3
"""Gap hunting, not a registered check: applies small textual mutations to /repo's sources in scratch copies, runs every quick
check on each copy and lists the mutants no check reported (exit 0).  Survivors are read by hand: equivalent / irrelevant to
the 20 properties, or a gap in a rule.  Nothing here decides a property; the registered checks do.

usage: tool/mutation_sweep.py [--n 200] [--seed 1] [--files src/a.cpp,src/b.h] [--jobs 12] [--out /tmp/sweep.txt]
Scratch copies live under $TMPDIR and are removed."""
import argparse, os, random, re, shutil, subprocess, sys, tempfile
from concurrent.futures import ThreadPoolExecutor

REPO = "/repo"
DEFAULT = ["src/cdns.cpp", "src/cdns.h", "src/cdns_encoder.cpp", "src/cdns_encoder.h", "src/cdns_decoder.cpp", "src/cdns_decoder.h",
           "src/writer.cpp", "src/writer.h", "src/timestamp.cpp", "src/block_table.h", "src/hash.h", "src/bin/cdns_merge.cpp",
           "src/bin/cdns_itemcount.cpp", "src/block.cpp", "src/block.h", "src/file_preamble.cpp", "src/interface.cpp"]

OPS = [
    ("first<->second", r"->second\b", "->first"), ("first<->second", r"->first\b", "->second"),
    ("rel", r" <= ", " < "), ("rel", r" < ", " <= "), ("rel", r" >= ", " > "), ("rel", r" > ", " >= "),
    ("eq", r" == ", " != "), ("eq", r" != ", " == "),
    ("logic", r" && ", " || "), ("logic", r" \|\| ", " && "),
    ("bool", r"\btrue\b", "false"), ("bool", r"\bfalse\b", "true"),
    ("arith", r" \+ 1\b", ""), ("arith", r" - 1\b", ""), ("arith", r" \+ ", " - "), ("arith", r" - ", " + "),
    ("arith", r" \+= ", " -= "), ("arith", r" -= ", " += "),
    ("neg", r"if \(!", "if ("), ("neg", r"if \((?!!)", "if (!"),
    ("const", r"\b0xFF\b", "0x7F"), ("const", r"\b8\b", "4"), ("const", r"\b1\b", "2"), ("const", r"\b0\b", "1"),
    ("shift", r" << ", " >> "), ("shift", r" >> ", " << "),
    ("inc", r"\+\+", "--"),
]


def candidates(files):
    out = []
    for f in files:
        try:
            lines = open(os.path.join(REPO, f)).read().split("\n")
        except OSError:
            continue
        incomment = False
        for i, ln in enumerate(lines):
            s = ln.strip()
            if incomment:
                if "*/" in s:
                    incomment = False
                continue
            if s.startswith("/*"):
                if "*/" not in s:
                    incomment = True
                continue
            if not s or s.startswith(("//", "*", "#")) or "std::cout" in s or "std::cerr" in s or "<<" in s and '"' in s:
                continue
            code = ln.split("//")[0]
            for name, pat, rep in OPS:
                for m in re.finditer(pat, code):
                    if '"' in code[:m.start()] and code[:m.start()].count('"') % 2 == 1:
                        continue
                    out.append((f, i, name, m.start(), m.end(), rep))
            # statement deletion: a single-line expression statement
            if re.match(r"^\s+[A-Za-z_][\w:.\->\[\]]*(\(.*\)| [-+]?= .*|\+\+|--);\s*$", code) and not s.startswith(("return", "throw", "break", "continue")):
                out.append((f, i, "delete", 0, len(ln), "    ;"))
    return out


def run_one(job):
    idx, (f, i, name, a, b, rep), root = job
    d = os.path.join(root, "m%d" % idx)
    os.makedirs(d)
    subprocess.run("cd %s && tar cf - --exclude=_build --exclude=.git . | (cd %s && tar xf -)" % (REPO, d), shell=True, check=True)
    p = os.path.join(d, f)
    lines = open(p).read().split("\n")
    old = lines[i]
    lines[i] = old[:a] + rep + old[b:]
    open(p, "w").write("\n".join(lines))
    env = dict(os.environ, VERIF_SEEDRUN="1", VERIF_NO_CACHE="1")
    r = subprocess.run(["./check", "all", "--repo", d], cwd="/verif", env=env, stdout=subprocess.PIPE, stderr=subprocess.STDOUT, text=True)
    viol = sorted(set(re.findall(r"VIOLATION property=(C\d\d)", r.stdout)))
    broken = sorted(set(re.findall(r"ANALYSIS-BROKEN property=(C\d\d)", r.stdout)))
    nocompile = "error:" in r.stdout and "extract" in r.stdout and not viol
    shutil.rmtree(d, ignore_errors=True)
    return idx, f, i + 1, name, old.strip(), lines[i].strip(), r.returncode, viol, broken, nocompile


def main():
    ap = argparse.ArgumentParser()
    ap.add_argument("--n", type=int, default=200)
    ap.add_argument("--seed", type=int, default=1)
    ap.add_argument("--files", default=",".join(DEFAULT))
    ap.add_argument("--jobs", type=int, default=12)
    ap.add_argument("--out", default="/tmp/sweep.txt")
    a = ap.parse_args()
    cands = candidates(a.files.split(","))
    random.Random(a.seed).shuffle(cands)
    picked, seen = [], set()
    for c in cands:
        if (c[0], c[1]) in seen:
            continue                    # one mutant per line
        seen.add((c[0], c[1]))
        picked.append(c)
        if len(picked) >= a.n:
            break
    root = tempfile.mkdtemp(prefix="sweep.")
    res = []
    try:
        with ThreadPoolExecutor(a.jobs) as ex:
            for r in ex.map(run_one, [(k, c, root) for k, c in enumerate(picked)]):
                res.append(r)
                print("%3d rc=%d %s:%d [%s] viol=%s broken=%s" % (r[0], r[6], r[1], r[2], r[3], ",".join(r[7]), ",".join(r[8])), flush=True)
    finally:
        shutil.rmtree(root, ignore_errors=True)
    with open(a.out, "w") as o:
        for r in res:
            o.write("%s rc=%d %s:%d [%s]\n    - %s\n    + %s\n    viol=%s broken=%s\n" % ("SURVIVED" if r[6] == 0 else "reported" if r[7] else "stopped ", r[6], r[1], r[2], r[3], r[4], r[5], ",".join(r[7]), ",".join(r[8])))
    n0 = sum(1 for r in res if r[6] == 0)
    print("mutants=%d survived=%d reported=%d stopped(exit 2)=%d -> %s" % (len(res), n0, sum(1 for r in res if r[7]), sum(1 for r in res if r[6] != 0 and not r[7]), a.out))


if __name__ == "__main__":
    main()
