#include "src/cdns.h"
#include <sstream>
#include <fstream>
#include <iostream>
int main(){
  using namespace CDNS;
  int bad=0;
  { std::istringstream is(""); CdnsDecoder d(is);
    try { auto t=d.peek_type(); std::cout<<"empty stream: peek returned "<<(int)t<<" (fabricated)\n"; bad=1; }
    catch(CdnsDecoderEnd&){ std::cout<<"empty stream: CdnsDecoderEnd\n"; } }
  { std::string in(65535, '\x01'); std::istringstream is(in); CdnsDecoder d(is);
    try { for (int i=0;i<65535;i++) d.read_unsigned(); auto v=d.read_unsigned(); std::cout<<"len=65535: extra value "<<v<<" (fabricated)\n"; bad=1; }
    catch(CdnsDecoderEnd&){ std::cout<<"len=65535: CdnsDecoderEnd\n"; } }
  { std::ifstream f; CdnsDecoder d(f);
    try { auto t=d.peek_type(); std::cout<<"unopened: peek returned "<<(int)t<<" (fabricated)\n"; bad=1; }
    catch(CdnsDecoderEnd&){ std::cout<<"unopened: CdnsDecoderEnd\n"; } }
  return bad;
}
