#include "src/cdns.h"
#include <iostream>
#include <cstdint>
int main(){
  using namespace CDNS;
  int bad = 0;
  Timestamp t(10, 5);
  try { t.add_time_offset(INT64_MIN, 1000); std::cout << "INT64_MIN accepted: " << t.m_secs << "." << t.m_ticks << "\n"; bad = 1; }
  catch (std::exception& e) { std::cout << "INT64_MIN refused, timestamp " << t.m_secs << "." << t.m_ticks << "\n"; if (t.m_secs != 10 || t.m_ticks != 5) bad = 1; }
  Timestamp u(5, 300); u.add_time_offset(-2600, 1000);
  std::cout << "5.300 - 2600 = " << u.m_secs << "." << u.m_ticks << "\n"; if (u.m_secs != 2 || u.m_ticks != 700) bad = 1;
  Timestamp v(INT64_MAX / 1000, 0); v.add_time_offset(INT64_MAX, 1000);   // signed overflow of ticks += offset before the fix
  std::cout << "huge + huge = " << v.m_secs << "." << v.m_ticks << " (wraps, no UB)\n";
  return bad;
}
