"""C05 End of input is always detected; a truncated file yields only complete blocks (necessary conditions)."""
from .. import ir, decoder, callgraph
from ..ir import path, path_str, unwrap, callee_name, callee_qn, show
from ..facts import AnalysisBroken

META = {
    "level": "other",
    "rule_text": "R05.1: inside read_to_buffer every normal exit has a non-empty window (three-point domain for m_p ? m_end; "
                 "only a test of gcount()==0 / m_p==m_end after the refill, or peek()==EOF before it, that leaves by throw "
                 "refines 'le' to 'lt'). R05.2: typestate Fresh/Stale over every CdnsDecoder member: each read through m_p "
                 "happens directly after a refill check with m_p unmoved. R05.3: the read path is exception-transparent "
                 "(no handler between the decoder and CdnsReader::read_block's caller) and a block is returned only after "
                 "CdnsBlockRead::read returned. R05.3 no-input-after-block: between the completed block.read() and the return of that block read_block calls nothing that can reach read_to_buffer (positive control in tu/rule_controls.cpp). R05.4: m_input is touched only by read_to_buffer and the constructor. R05.5: a decoder member that stores a window position or a value read through the window is re-initialised by the refill (or is only consulted under a key that is) - positive control. R05.6: a data member that is always assigned the same function of other members (cdnsverif/derived.py) is recomputed by every member function that changes those members; the lazy form under a validity flag / stored key is refreshed before every read and invalidated after every change (what the decoder remembers about bytes in its window). R05.1 also: no normal exit lies between the refill and the test for an empty window, and m_end is m_buffer plus a count every store of which is gcount() or 0. R05.2: inside read_int, reads and moves the typestate pass cannot place are decided by the R07.4 path tabulation, which checks every read and move against the bytes buffered on each path; a computed offset that no window test bounds is undecided. R05.7: CdnsReader::read_block enumerated path by path (loop-free): a path that decodes a block leaves the end-of-input flag false, every other returning path leaves it true (a flag left as the caller passed it fails), and the decoding path increments exactly the member an end-of-blocks test compares with the declared count.",
    "explanation": "Abstract interpretation of one function plus a typestate pass over the decoder class; necessary conditions of "
                   "'end of input is always detected' valid for every input length. Equality of the returned blocks with the "
                   "prefix's blocks is not decided.",
    "trusted_base": ["clang 14 AST", "std::istream::read/gcount semantics: gcount() is the number of bytes stored by the last read"],
    "assumptions": [],
}


def check_typestate(run, rule):
    facts = run.facts
    n = 0
    for f in decoder.dec_fns(facts):
        ts = decoder.Typestate(f)
        results = ts.run()
        if f["qn"].endswith("::read_int") and (any(not r_[1] for r_ in results) or any(not m_[1] for m_ in ts.moves)):
            # read_int is a finite program per additional-information value: the path tabulation of R07.4 (assembly.py) walks it
            # for every way the argument can be split across refills and checks *each read and each move of the cursor against
            # the bytes buffered at that moment*.  Where the typestate pass cannot see why a read is inside the window (a run
            # under `m_end - m_p >= left` established by a loop's exit), the tabulation decides.
            from .. import assembly, minieval
            try:
                pn_ = "p:%s" % f["params"][0]["n"]
                garr_ = {}
                for gv_ in facts.vars:
                    il_ = ir.unwrap_all_casts(gv_.get("init")) if gv_.get("init") is not None else None
                    if gv_.get("const") and isinstance(il_, dict) and il_.get("k") == "InitList":
                        vals_ = [ir.const_value(c_) for c_ in il_.get("c", [])]
                        if vals_ and all(isinstance(x_, int) for x_ in vals_):
                            garr_[gv_["qn"]] = vals_
                            garr_[gv_["qn"].split("::")[-1]] = vals_
                npaths = sum(len(assembly.explore(f, pn_, ai_, w_, facts.enums, arrays=garr_)) for ai_, w_ in ((24, 1), (25, 2), (26, 4), (27, 8)))
                why_ = "inside the window on each of the %d paths of the read_int tabulation (every split of the argument across refills)" % npaths
                results = [[r_[0], True, r_[2], why_] if not r_[1] else r_ for r_ in results]
                ts.moves = [(m_[0], True, m_[2], why_) if not m_[1] else m_ for m_ in ts.moves]
            except minieval.Unknown:
                pass
        for node, ok, line, why in results:
            n += 1
            seen = sum(1 for o in run.obs if o.rule == rule and o.key.startswith(f["qn"].split("::")[-1] + ":m_p"))
            run.ob(rule, "%s:m_p-read#%d" % (f["qn"].split("::")[-1], seen), ok, f, line, why)
        agg = {}
        for node, ok, line, why in ts.moves:
            a = agg.setdefault(id(node), [node, True, line, why])
            if not ok:
                a[1], a[3] = False, why
        for node, ok, line, why in agg.values():
            n += 1
            seen = sum(1 for o in run.obs if o.rule == rule and o.key.startswith(f["qn"].split("::")[-1] + ":m_p++"))
            run.ob(rule, "%s:m_p++#%d" % (f["qn"].split("::")[-1], seen), ok, f, line, why)
        for node, ok, why in decoder.cursor_moves(f):
            n += 1
            seen = sum(1 for o in run.obs if o.rule == rule and o.key.startswith(f["qn"].split("::")[-1] + ":cursor"))
            run.ob(rule, "%s:cursor#%d" % (f["qn"].split("::")[-1], seen), ok, f, node.get("l", 0), why)
    run.floor(rule, 8, "reads through m_p, cursor moves and bulk reads in CdnsDecoder")
    run.info["m_p_reads_and_moves"] = n


def check_refill(run, rule):
    facts = run.facts
    f = facts.fn("CDNS::CdnsDecoder::read_to_buffer", rule=rule)
    ok, line, why = decoder.analyse_refill(f)
    run.ob(rule, "read_to_buffer:nonempty-window-on-return", ok, f, line, why)
    # the refill assigns m_p/m_end from the object's own buffer and gcount()
    good = False

    def counts_read_bytes(e, depth=0):
        """gcount() of the object's stream, 0, or a local every store of which is one of these"""
        u = ir.unwrap_all_casts(e)
        if not isinstance(u, dict) or depth > 4:
            return False
        if u.get("k") == "MCall" and callee_name(u) == "gcount" and path(u.get("recv")) == ("this", "m_input"):
            return True
        if ir.const_value(u) == 0:
            return True
        if u.get("k") == "Ref" and u.get("d") == "local":
            defs = []
            for x in ir.walk(f["body"]):
                if x.get("k") == "Decl":
                    defs += [v_["init"] for v_ in x.get("vars", []) if v_.get("id") == u.get("id") and v_.get("n") == u.get("n") and v_.get("init") is not None]
                elif x.get("k") == "Bin" and x.get("op") == "=" and path(x.get("lhs")) == path(u):
                    defs.append(x.get("rhs"))
                elif x.get("k") == "Bin" and (x.get("op") or "").endswith("=") and x.get("op") not in ("==", "!=", "<=", ">=", "=") and path(x.get("lhs")) == path(u):
                    return False
            return bool(defs) and all(counts_read_bytes(d_, depth + 1) for d_ in defs) and any("gcount()" in show(d_) or counts_nonconst(d_, depth) for d_ in defs)
        return False

    def counts_nonconst(e, depth):
        u = ir.unwrap_all_casts(e)
        return isinstance(u, dict) and u.get("k") == "Ref" and u.get("d") == "local" and ir.const_value(u) is None and counts_read_bytes(u, depth + 1)
    for n in ir.walk(f["body"]):
        if n.get("k") == "Bin" and n.get("op") == "=" and path(n["lhs"]) == ("this", "m_end"):
            txt = show(n["rhs"])
            good = "this.m_buffer" in txt and "gcount()" in txt
            r_ = ir.unwrap_all_casts(n["rhs"])
            if not good and isinstance(r_, dict) and r_.get("k") == "Bin" and r_.get("op") == "+":
                for a_, b_ in ((r_["lhs"], r_["rhs"]), (r_["rhs"], r_["lhs"])):
                    if path(ir.unwrap_all_casts(a_)) == ("this", "m_buffer") and counts_read_bytes(b_):
                        good = True
    run.ob(rule, "read_to_buffer:m_end=m_buffer+gcount", good, f, f["line"],
           "window end is the buffer start plus the bytes actually read" if good else "m_end is not m_buffer + m_input.gcount()")
    run.floor(rule, 2, "refill obligations")


def check_transparency(run, rule):
    facts = run.facts
    cg = callgraph.CallGraph(facts)
    rb = facts.fn("CDNS::CdnsReader::read_block", rule=rule)
    ctor = facts.fn("CDNS::CdnsReader::CdnsReader", rule=rule)
    reach = cg.reachable([rb, ctor])
    n = 0
    for k, f in sorted(reach.items()):
        if not f.get("file", "").startswith(facts.repo):
            continue
        n += 1
        # a handler that can only be left by throwing again (cleanup + `throw;`) passes the end-of-input error on
        def transparent(t_):
            return all(ir.always_leaves(h_.get("body")) and
                       not any(x_.get("k") in ("Return", "Break", "Continue") for x_ in ir.walk(h_.get("body")))
                       for h_ in t_.get("handlers", []))
        tries = [x for x in ir.walk(f["body"]) if x.get("k") == "Try" and not transparent(x)]
        run.ob(rule, "no-handler:%s" % f["qn"].replace("CDNS::", ""), not tries, f, tries[0]["l"] if tries else f["line"],
               "no exception handler on the read path" if not tries else
               "a handler inside the read path can turn end-of-input into a normal return (fabricated block)", nontrivial=False)
    # read_block: the block is returned only after read() returned
    body = ir.stmts(rb["body"])
    idx_read = idx_ret = None
    flat = [st for st, g, loops in ir.guarded_statements(rb["body"]) if st.get("k") not in ("IfCond", "LoopHead", "SwitchHead")]
    final_ret = body[-1] if body and body[-1].get("k") == "Return" else None
    for i, st in enumerate(body):
        if any(callee_qn(c) == "CDNS::CdnsBlockRead::read" for c in ir.calls_in(st)):
            idx_read = i
    ok = final_ret is not None and idx_read is not None and idx_read < len(body) - 1 and body[idx_read].get("k") != "If"
    why_ok = "the non-eof return follows the unconditional block.read(...)"
    if not ok and rb.get("params"):
        # the other shape: every path runs into one final return and the read is skipped exactly when the end-of-input flag
        # (the by-reference parameter) was set:  if (!eof) { block.read(..); }  return block;
        flag = ("nz", "p:%s" % rb["params"][0]["n"])
        env5 = ir.Env(rb["body"])
        g_read = [g for st, g, loops in ir.guarded_statements(rb["body"], env5) if st.get("k") not in ("IfCond", "LoopHead", "SwitchHead")
                  and any(callee_qn(c) == "CDNS::CdnsBlockRead::read" for c in ir.calls_in(st))]
        rets5 = [st for st, g, loops in ir.guarded_statements(rb["body"], env5) if st.get("k") == "Return"]
        if len(g_read) == 1 and len(rets5) == 1 and final_ret is not None and ir.conjuncts(g_read[0]) == [("not", flag)]:
            ok = True
            why_ok = "one return; block.read(...) is skipped exactly when the end-of-input flag is set"
    run.ob(rule, "read_block:return-after-read", ok, rb, rb["line"],
           why_ok if ok else
           "read_block must call block.read() before it returns a block with eof == false")
    # nothing that can hit the end of the input runs between the completed block.read() and the return of that block: a
    # look-ahead there throws CdnsDecoderEnd exactly when the prefix ends at a block boundary, and the complete block is lost
    def late_input(fn):
        """(block.read calls, calls after the first of them that can reach the refill)"""
        order = {id(x): i for i, x in enumerate(ir.walk(fn["body"]))}
        rd = [c for c in ir.calls_in(fn["body"]) if callee_qn(c) == "CDNS::CdnsBlockRead::read"]
        refill = "CDNS::CdnsDecoder::read_to_buffer"

        def may_end(c):
            for g in cg.resolve(c, fn):
                if any(h["qn"] == refill for h in cg.reachable([g]).values()):
                    return True
            return False
        return rd, [c for c in ir.calls_in(fn["body"]) if rd and order.get(id(c), -1) > order[id(rd[0])] and may_end(c)]
    if not late_input(facts.control("r05_3_late_lookahead", rule))[1]:
        raise AnalysisBroken(rule, "the look-ahead-after-block detector is silent on its control (tu/rule_controls.cpp)")
    rd, late = late_input(rb)
    if len(rd) != 1:
        run.ob(rule, "read_block:no-input-after-block", None, rb, rb["line"], "expected exactly one block.read(...) call, found %d" % len(rd))
    else:
        run.ob(rule, "read_block:no-input-after-block", not late, rb, late[0].get("l", rb["line"]) if late else rb["line"],
               "once block.read() returned, the block is handed back without touching the input again" if not late else
               "%s() reads from the input after the block was decoded and before it is returned: when the input ends exactly at the "
               "block boundary CdnsDecoderEnd is thrown and the complete block is discarded" % (callee_qn(late[0]) or "?").split("::")[-1])
    run.floor(rule, 20, "functions on the read path")
    run.info["read_path_functions"] = n


def check_input_owner(run, rule):
    """Everything that takes bytes from the input stream sits in read_to_buffer (and the constructor that binds the stream):
    that is where the end of the input is detected.  A read, ignore, get or seek anywhere else consumes input without that
    test - a skip past the end of a truncated file goes unnoticed."""
    facts = run.facts
    n = 0
    for f in decoder.dec_fns(facts):
        nm = f["qn"].split("::")[-1]
        for c in ir.calls_in(f["body"]):
            if c.get("k") == "MCall" and path(c.get("recv")) == ("this", "m_input"):
                n += 1
                ok = bool(nm == "read_to_buffer" or f.get("ctor"))
                run.ob(rule, "%s:m_input.%s" % (nm, callee_name(c)), ok, f, c.get("l", 0),
                       "the input stream is touched by the refill only" if ok else
                       "%s() calls m_input.%s() itself: bytes leave the stream without the refill's end-of-input test, so input that ends "
                       "inside what is consumed here is not reported" % (nm, callee_name(c)), nontrivial=not ok)
    run.floor(rule, 3, "uses of the input stream")


WINDOW_CORE = ("m_p", "m_end", "m_buffer", "m_input")
GUARDED_BY = {}


def window_derived_members(fns):
    """{member: (function, node)}: members other than the window itself that are assigned a position in the window or a value
    read through it (`m_x = m_p`, `m_y = m_p[0] & ..`)."""
    out = {}
    for f in fns:
        for n in ir.walk(f["body"]):
            if n.get("k") == "Bin" and n.get("op") == "=":
                lp = path(n.get("lhs"))
                if not (lp and len(lp) == 2 and lp[0] == "this" and lp[1] not in WINDOW_CORE):
                    continue
                if any(path(x) in (("this", "m_p"), ("this", "m_end")) for x in ir.walk(n.get("rhs")) if x.get("k") == "Member"):
                    out.setdefault(lp[1], (f, n))
    # members assigned together with a window-derived one under a test of it (the cached answer of a position memo)
    changed = True
    while changed:
        changed = False
        for f in fns:
            for i_ in ir.walk(f["body"]):
                if i_.get("k") != "If":
                    continue
                if not any(path(x) and len(path(x)) == 2 and path(x)[0] == "this" and path(x)[1] in out for x in ir.walk(i_.get("cond")) if x.get("k") == "Member"):
                    continue
                keys_ = [path(x)[1] for x in ir.walk(i_.get("cond")) if x.get("k") == "Member" and path(x) and len(path(x)) == 2 and path(x)[1] in out]
                for n in ir.walk(i_.get("then")):
                    if n.get("k") == "Bin" and n.get("op") == "=":
                        lp = path(n.get("lhs"))
                        if lp and len(lp) == 2 and lp[0] == "this" and lp[1] not in WINDOW_CORE and lp[1] not in out:
                            out[lp[1]] = (f, n)
                            GUARDED_BY[lp[1]] = keys_[0]      # only consulted when its key still matches
                            changed = True
    # a member whose every store sits under a test of another window-derived member is only consulted while that key matches
    for m in list(out):
        keys = None
        for f in fns:
            for n, parents in ir.walk_with_parents(f["body"]):
                if n.get("k") == "Bin" and n.get("op") == "=" and path(n.get("lhs")) == ("this", m):
                    ks = set()
                    for p_ in parents:
                        if p_.get("k") == "If" and any(x is n for x in ir.walk(p_.get("then"))):
                            ks |= set(path(x)[1] for x in ir.walk(p_.get("cond")) if x.get("k") == "Member" and path(x) and len(path(x)) == 2 and
                                      path(x)[0] == "this" and path(x)[1] in out and path(x)[1] != m)
                    keys = ks if keys is None else (keys & ks)
        if keys:
            GUARDED_BY[m] = sorted(keys)[0]
    return out


def refill_resets(refill_fn):
    """members assigned in the block of the refill function that re-seats the cursor (`m_p = m_buffer`)"""
    for b in ir.walk(refill_fn["body"]):
        if b.get("k") == "Block" and any(isinstance(st, dict) and any(x.get("k") == "Bin" and x.get("op") == "=" and path(x.get("lhs")) == ("this", "m_p")
                                                                        for x in ir.walk(st)) for st in b.get("s", [])):
            return set(path(x["lhs"])[1] for st in b["s"] for x in ir.walk(st)
                       if x.get("k") == "Bin" and x.get("op") == "=" and path(x.get("lhs")) and len(path(x["lhs"])) == 2 and path(x["lhs"])[0] == "this")
    return set()


def check_window_state(run, rule):
    """Whatever a decoder member remembers about the window (a position in it, a value read through it) is void once the window
    is refilled: the same pointer value then stands for bytes 65535 further on."""
    facts = run.facts
    ctl = [g for q, g in facts.controls.items() if q.startswith("verif_rc::r05_5_decoder::")]
    cref = [g for g in ctl if g["qn"].endswith("::read_to_buffer")]
    if not cref or not (set(window_derived_members(ctl)) - refill_resets(cref[0])):
        raise AnalysisBroken(rule, "the window-derived-state detector is silent on its control (tu/rule_controls.cpp)")
    fns = decoder.dec_fns(facts)
    refill = facts.fn("CDNS::CdnsDecoder::read_to_buffer", rule=rule)
    derived = window_derived_members(fns)
    resets = refill_resets(refill)
    for m, (f, n) in sorted(derived.items()):
        ok = m in resets or GUARDED_BY.get(m) in resets
        run.ob(rule, "CdnsDecoder.%s:dies-with-the-window" % m, ok, f, n.get("l", 0),
               "%s is re-initialised when the buffer is refilled" % m if ok else
               "%s() stores a window position (or what it found there) in %s, and read_to_buffer() leaves %s alone when it refills the buffer: after a "
               "refill the same pointer value denotes other bytes, so the remembered answer is returned for the wrong item" % (f["qn"].split("::")[-1], m, m))
    if not derived:
        run.ob(rule, "CdnsDecoder:no-window-derived-state", True, refill, refill["line"], "no decoder member caches a window position or content", nontrivial=False)
    run.floor(rule, 1, "window-derived members")


def _paths(stmts_, limit=64):
    """paths through a loop-free statement list: each a list of ('stmt', node) / ('cond', node, taken) events ending with a
    Return node or falling off the end; None when a loop / switch / try is met or there are too many paths"""
    out = []

    class TooHard(Exception):
        pass

    def go(lst, acc):
        if not lst:
            return [acc]
        st, rest = lst[0], lst[1:]
        k = st.get("k") if isinstance(st, dict) else None
        if k == "Block":
            return go(list(st.get("s", [])) + rest, acc)
        if k == "If":
            if st.get("condvar") is not None:
                raise TooHard()
            r = []
            r += go(ir.stmts(st.get("then")) + rest, acc + [("cond", st.get("cond"), True)])
            r += go((ir.stmts(st.get("else")) if st.get("else") is not None else []) + rest, acc + [("cond", st.get("cond"), False)])
            if len(r) > limit:
                raise TooHard()
            return r
        if k == "Return":
            return [acc + [("return", st)]]
        if k == "Throw" or (k is not None and ir.always_leaves(st) and not any(x.get("k") == "Return" for x in ir.walk(st))):
            return [acc + [("throw", st)]]
        if k in ("While", "For", "Do", "RangeFor", "Switch", "Try", "Break", "Continue", "Goto", "Label"):
            raise TooHard()
        return go(rest, acc + [("stmt", st)])
    try:
        return go(list(stmts_), [])
    except TooHard:
        return None


def check_block_protocol(run, rule):
    """CdnsReader::read_block(eof): over every path through the function
      * a path that decodes a block (calls CdnsBlockRead::read) leaves `eof` false, every other returning path leaves it true;
      * a path that decodes a block counts it (one member incremented), and that member is what an end path compares with
        the declared count - a definite-length block array ends where an indefinite one would.
    The function is small and loop-free; any other shape is answered `unrecognised`."""
    facts = run.facts
    rb = facts.fn("CDNS::CdnsReader::read_block", rule=rule)
    if not rb.get("params"):
        run.ob(rule, "read_block:protocol", None, rb, rb["line"], "read_block has no end-of-input parameter")
        return
    flag = "p:%s" % rb["params"][0]["n"]
    paths = _paths(ir.stmts(rb["body"]))
    if paths is None:
        run.ob(rule, "read_block:protocol", None, rb, rb["line"], "read_block is not a small loop-free function any more")
        return
    n = 0
    counted = []
    end_guards = []
    for pth in paths:
        if not pth or pth[-1][0] != "return":
            continue
        n += 1
        reads = False
        val = "unset"
        incs = []
        for ev in pth:
            if ev[0] == "cond":
                # a test of the flag itself tells its value on this path
                c_ = ir.unwrap_all_casts(ev[1])
                neg = False
                while isinstance(c_, dict) and c_.get("k") == "Un" and c_.get("op") == "!":
                    neg = not neg
                    c_ = ir.unwrap_all_casts(c_.get("e"))
                if isinstance(c_, dict) and path(c_) == (flag,):
                    val = (ev[2] != neg)
                continue
            if ev[0] not in ("stmt", "return"):
                continue
            node = ev[1]
            for x in ir.walk(node):
                if x.get("k") in ("MCall", "Call") and callee_qn(x) == "CDNS::CdnsBlockRead::read":
                    reads = True
                if x.get("k") in ("MCall", "Call", "Construct") and (x.get("callee") or {}).get("inrepo") and \
                        any(path(a) and path(a)[0] == flag for a in x.get("args", [])):
                    val = "?"
                if x.get("k") == "Bin" and x.get("op") == "=" and path(x.get("lhs")) == (flag,):
                    cv = ir.const_value(x.get("rhs"))
                    val = bool(cv) if cv is not None else "?"
                if x.get("k") == "Un" and x.get("op") in ("pre++", "post++") and path(x.get("e")) and path(x["e"])[0] == "this":
                    incs.append(path_str(path(x["e"])))
                if x.get("k") == "Bin" and x.get("op") == "+=" and ir.const_value(x.get("rhs")) == 1 and path(x.get("lhs")) and path(x["lhs"])[0] == "this":
                    incs.append(path_str(path(x["lhs"])))
        line = pth[-1][1].get("l", rb["line"])
        want = not reads
        ok = None if val == "?" else (val == want) if val != "unset" else False
        run.ob(rule, "read_block:path%d:%s" % (n, "decodes-a-block" if reads else "end-of-blocks"), ok, rb, line,
               "eof is %s on the path that %s" % ("false" if reads else "true", "returns a decoded block" if reads else "finds no further block") if ok else
               ("on the path that %s the end-of-input flag is %s: %s" % (
                   "returns a decoded block" if reads else "finds no further block",
                   "left as the caller passed it" if val == "unset" else str(val).lower(),
                   "the caller takes a real block for the end of the file and stops" if reads else "the caller takes the empty block for a block of the file and goes on reading")))
        if reads:
            counted.append((incs, line))
        else:
            for ev in pth:
                if ev[0] == "cond":
                    for x in ir.walk(ev[1]):
                        if x.get("k") == "Bin" and x.get("op") in ("==", ">=", "<=", "!=", "<", ">"):
                            end_guards.append(show(x))
    for incs, line in counted:
        used = [m for m in incs if any(m.replace("this.", "this->") in g or m in g for g in end_guards)]
        ok = len(incs) >= 1 and len(used) == 1 and incs.count(used[0]) == 1
        run.ob(rule, "read_block:block-counted@%s" % line, ok, rb, line,
               "the decoded block is counted in %s, which an end-of-blocks test compares with the declared count" % used[0] if ok else
               "the path that decodes a block increments %s; the end-of-blocks tests are %s: a definite-length block array (RFC 8949 allows both "
               "forms) is read past its end or cut short" % (incs or "nothing", end_guards or "none"))
    if not counted:
        run.ob(rule, "read_block:protocol", None, rb, rb["line"], "no path through read_block decodes a block")


def check(run):
    # what the decoder remembers about the bytes in its window is dropped when the window is refilled
    from .. import derived as _derived
    _derived.report(run, "R05.6", ["CDNS::CdnsDecoder", "CDNS::CdnsReader"])
    check_window_state(run, "R05.5")
    check_input_owner(run, "R05.4")
    check_refill(run, "R05.1")
    check_typestate(run, "R05.2")
    check_transparency(run, "R05.3")
    check_block_protocol(run, "R05.7")
