"""C15 A named output becomes visible under its final name only when complete (ordering invariant)."""
from .. import ir, writers, consumption
from ..writers import BASE, WSTR, WINT, PLAIN, GZ, XZ, ENC, EXP, short, ordered_calls, names
from ..ir import path, path_str, unwrap, unwrap_all_casts, callee_name, callee_qn, show, show_f, Env, conjuncts, const_value
from ..facts import AnalysisBroken

META = {
    "level": "proof",
    "rule_text": "A crash point is a prefix of the program-order sequence of system calls of one thread, so 'for all crash points' "
                 "reduces to an ordering invariant: R15.1 the only open of an output stream is on <name><ext>.part and rename/open are "
                 "called by Writer<std::string> only; R15.2 Writer<std::string>::close: flush -> close -> rename(<opened path>, "
                 "<same path without .part>), nothing is written between rename and the next open; R15.3 destruction order delivers "
                 "every byte before that close: ~CdnsExporter body (break) -> member m_encoder (~CdnsEncoder flushes) -> its member "
                 "m_cos -> compressed writer's destructor body (close: drain) -> then its member m_writer (~Writer<std::string>); "
                 "R15.4 the same chain on the rotate path. R15.5: close() of the compressing writers drains until the stream-end code (obligation shared with C14). String members caching the composed names are expanded to their defining expression when every assignment to them happens while no output is open, or when they are kept by a refresh-before-use protocol that cdnsverif/caches.py can validate (commit of values composed aside by swap/move, a skip test that implies key == value over the present sources and excludes the never-composed state, every read after a refresh); a protocol it cannot validate makes the two name obligations unrecognised, not failed. R15.1 open target is exactly <name><ext>.part; names kept in members are decided by caches.py (a skip test that compares only a prefix is refuted) or derived.py. R15.6 = R02.3/R02.4 (the published file ends with its break). R15.7: a data member that is always assigned the same function of other members (cdnsverif/derived.py) is recomputed by every member function that changes those members; the lazy form under a validity flag / stored key is refreshed before every read and invalidated after every change. R15.8 = R06.7: write_break and the other one-byte primitives store their byte on every path that returns. R15.9 = R06.4: flush_buffer writes the staged bytes whenever there are any, then resets the cursor, and a byte count it reports is the count it handed over.",
    "explanation": "Ordering / who-may-call rules plus destruction order derived from member declaration order and destructor "
                   "bodies. All obligations enumerated and discharged; with the trusted base this is sufficient for the statement.",
    "trusted_base": ["libstdc++ basic_filebuf::close writes pending data before closing the descriptor", "POSIX rename(2) is atomic",
                     "C++ destroys members in reverse declaration order after the destructor body"],
    "assumptions": ["durability (fsync) is not part of the statement"],
}


def path_expr_parts(e):
    """Flatten a string concatenation a + b + "lit" into a list of parts (paths as tuples, literals as str)."""
    e = unwrap_all_casts(e)
    if not isinstance(e, dict):
        return ["?"]
    if e.get("k") == "MCall" and callee_name(e) in ("c_str", "data") and not e.get("args"):
        return path_expr_parts(e.get("recv"))
    if e.get("k") == "OpCall" and e.get("op") == "+" and len(e.get("args", [])) == 2:
        return path_expr_parts(e["args"][0]) + path_expr_parts(e["args"][1])
    if e.get("k") == "Construct" and len(e.get("args", [])) >= 1:
        return path_expr_parts(e["args"][0])
    if e.get("k") == "Str":
        return [e.get("v")]
    p = path(e)
    if p is not None:
        return [p]
    return ["?" + show(e)]


def cached_path_members(facts, cls):
    """String members of the file writer that cache a composed path: {member: defining expression}.  A member qualifies when
    every assignment to it in the class stores the same expression and happens while no output is open: in a constructor
    before any open(), after a close() on this object, or inside open() before the stream is opened.  (A cache refreshed
    while a file is open would make close() rename a different name than the one that was opened.)"""
    sites = {}
    for f in facts.functions.values():
        if f.get("cls") != cls or f.get("body") is None:
            continue
        order = {id(x): i for i, x in enumerate(ir.walk(f["body"]))}
        calls = [(order[id(c)], c) for c in ir.calls_in(f["body"])]
        for lp, rhs, node in consumption_targets(f["body"]):
            if not (lp and len(lp) == 2 and lp[0] == "this"):
                continue
            here = order[id(node)]
            closed_before = any(i < here and callee_name(c) == "close" and c.get("k") == "MCall" and unwrap(c.get("recv") or {}).get("k") == "This"
                                for i, c in calls)
            opened_before = any(i < here and callee_name(c) == "open" and c.get("k") == "MCall" for i, c in calls)
            in_open = f["qn"].endswith("::open") and not opened_before
            safe = (f.get("ctor") and not opened_before) or closed_before and not any(
                i < here and callee_name(c) == "open" and i > max(j for j, d in calls if callee_name(d) == "close" and j < here) for i, c in calls) or in_open
            sites.setdefault(lp[1], []).append((safe, rhs))
    out = {}
    for m, lst in sites.items():
        if all(sf for sf, _ in lst) and len(set(show(r) for _, r in lst)) == 1:
            out[m] = lst[0][1]
    return out


def consumption_targets(body):
    from .. import consumption
    return consumption.assignment_targets(ir.stmts(body))


def expand_cached(parts, cache, depth=0):
    out = []
    for p_ in parts:
        if isinstance(p_, tuple) and len(p_) == 2 and p_[0] == "this" and p_[1] in cache and depth < 4:
            c_ = cache[p_[1]]
            out += expand_cached(list(c_[1]) if isinstance(c_, tuple) and c_ and c_[0] == "parts" else path_expr_parts(c_), cache, depth + 1)
        else:
            out.append(p_)
    return out


def validated_cache(run, cache):
    """Members kept up to date by a refresh-before-use protocol (cdnsverif/caches.py) join the cache table; returns
    (resolver for path_expr_parts, reason the protocol could not be decided or None)."""
    from .. import caches
    facts = run.facts
    sources = {"m_value", "m_extension"}
    try:
        values, commits, refreshers = caches.validated(facts, WSTR, sources)
        stale = caches.fresh_uses(facts, WSTR, values, commits, refreshers, sources) if values else []
    except caches.Refuted as ex:
        return None, "REFUTED: " + str(ex)
    except caches.Undecided as ex:
        return None, str(ex)
    if stale:
        f, line, why = stale[0]
        return None, "%s (line %s)" % (why, line)
    for m, ps in values.items():
        cache[m] = ("parts", ps)

    def resolver(e, fn):
        """the value of `this->refresher()` and of locals bound once to such a call"""
        u = unwrap_all_casts(e)
        if isinstance(u, dict) and u.get("k") == "MCall" and isinstance(u.get("callee"), dict) and unwrap(u.get("recv") or {}).get("k") == "This":
            key = (u["callee"].get("qn"), tuple(u["callee"].get("sig") or ()))
            if refreshers.get(key):
                return [("this", refreshers[key])]
        return None
    return resolver, None


def final_state_parts(parts, fn):
    """a local that the function stores into a member afterwards (plain assignment, the local not changed in between) names
    that member's value when the function returns"""
    out = []
    for p_ in parts:
        if isinstance(p_, tuple) and len(p_) == 1 and p_[0].startswith("l:"):
            hit = [lp for lp, rhs, node in consumption_targets(fn["body"]) if lp and len(lp) == 2 and lp[0] == "this" and path(unwrap_all_casts(rhs)) == p_]
            stores = [lp for lp, rhs, node in consumption_targets(fn["body"]) if lp == p_]
            if len(hit) == 1 and not stores:
                out.append(hit[0])
                continue
        out.append(p_)
    return out


def resolve_locals(parts, fn, resolver, depth=0):
    """single-assignment locals in a parts list are replaced by the parts of their initialiser"""
    if fn is None or depth > 4:
        return parts
    out = []
    for p_ in parts:
        if isinstance(p_, tuple) and len(p_) == 1 and p_[0].startswith("l:"):
            name, _, vid = p_[0][2:].partition("#")
            init = None
            stores = 0
            for n in ir.walk(fn["body"]):
                if n.get("k") == "Decl":
                    for v in n.get("vars", []):
                        if str(v.get("id")) == vid and v.get("n") == name and v.get("init") is not None:
                            init = v["init"]
                if n.get("k") in ("Bin", "OpCall") and n.get("op") == "=":
                    lhs = n.get("lhs") if n.get("k") == "Bin" else (n.get("args") or [None])[0]
                    if lhs is not None and path(lhs) == p_:
                        stores += 1
            if init is not None and not stores:
                r = resolver(init, fn) if resolver else None
                out += resolve_locals(r if r is not None else path_expr_parts(init), fn, resolver, depth + 1)
                continue
        out.append(p_)
    return out


def check(run):
    check_names(run, "R15.1", "R15.2")
    check_rest(run)
    from .. import derived as _derived
    _derived.report(run, "R15.7", ["CDNS::Writer<std::basic_string<char>>", "CDNS::Writer<int>", "CDNS::CdnsEncoder", "CDNS::CborOutputWriter", "CDNS::GzipCborOutputWriter", "CDNS::XzCborOutputWriter", "CDNS::CdnsExporter"])
    # a file published under its final name ends with the closing break whenever it holds a block (R02.3/R02.4 imported)
    from . import C02 as _C02, C06 as _C06
    _C02.check_framing(_C06._Renamed(run, {"R02.3": "R15.6", "R02.4": "R15.6"}))
    # ... and the encoder's write_break() (like every other primitive) stores its byte on every path that returns (R06.7 imported)
    _C06.check_always_emits(run, "R15.8")
    # ... and what is staged - the closing break included - reaches the writer: flush_buffer hands over exactly the staged bytes,
    # whenever there are any, and reports them truthfully to callers that refuse to store when it says 0 (R06.4 imported)
    _C06.check_buffer_discipline(_C06._Renamed(run, {"R06.4": "R15.9"}))


def check_names(run, R1, R2, only_names=False):
    """Who opens / renames output files, under which names (R15.1, R15.2).  Other properties import the two name obligations:
    the scratch file of an output is <its final name>.part - that is what carries the compression suffix (C14), keeps
    distinct outputs on distinct files while they are written (C20) and makes rotation publish the right file (C13)."""
    facts = run.facts
    cache = cached_path_members(facts, WSTR)
    cache.pop("m_value", None)
    cache.pop("m_extension", None)
    resolver, cache_undecided = validated_cache(run, cache)

    def parts_at(e, fn):
        r = resolver(e, fn) if resolver else None
        u = unwrap_all_casts(e)
        if r is None and isinstance(u, dict) and u.get("k") == "MCall" and callee_name(u) in ("c_str", "data") and not u.get("args"):
            r = resolver(u.get("recv"), fn) if resolver else None
        return expand_cached(resolve_locals(r if r is not None else path_expr_parts(e), fn, resolver), cache)
    # ---------------- R15.1 who may open / rename, and what is opened
    opens, renames = [], []
    for f in facts.functions.values():
        if not f.get("file", "").startswith(facts.repo + "/src/") or "/src/bin/" in f.get("file", ""):
            continue
        for c in ir.calls_in(f["body"]):
            nm = callee_name(c)
            cq = callee_qn(c) or ""
            if nm == "open" and c.get("k") == "MCall" and ("basic_ofstream" in cq or "basic_fstream" in cq or "basic_filebuf" in cq):
                opens.append((f, c))
            if nm in ("fopen", "open", "creat", "openat") and c.get("k") == "Call" and (c.get("callee") or {}).get("externc"):
                opens.append((f, c))
            if nm in ("rename", "renameat", "link", "symlink") and c.get("k") == "Call":
                renames.append((f, c))
            if c.get("k") == "Construct" and ("basic_ofstream" in (c.get("t") or "")) and c.get("args"):
                opens.append((f, c))
    def committed_aside(f_, c_):
        """a local ofstream constructed on a name and then assigned / moved into m_out in Writer<std::string>::rotate_output"""
        if c_.get("k") != "Construct" or f_.get("cls") != WSTR or not f_["qn"].endswith("::rotate_output"):
            return False
        for d_ in ir.walk(f_["body"]):
            if d_.get("k") == "Decl" and len(d_.get("vars", [])) == 1 and any(x is c_ for x in ir.walk(d_["vars"][0].get("init"))):
                key_ = ("l:%s#%s" % (d_["vars"][0]["n"], d_["vars"][0]["id"]),)
                return any(lp_ == ("this", "m_out") and path(unwrap_all_casts(rhs_)) == key_
                           for lp_, rhs_, n_ in consumption_targets(f_["body"]))
        return False
    extra_sites = [(f_, c_) for f_, c_ in opens if committed_aside(f_, c_)]
    opens = [o for o in opens if not any(o[1] is e_[1] for e_ in extra_sites)] + extra_sites
    ok = len(opens) - len(extra_sites) == 1 and opens[0][0].get("cls") == WSTR and opens[0][0]["qn"].endswith("::open")
    if not only_names:
        run.ob(R1, "single-open-site", ok, opens[0][0] if opens else None, opens[0][1].get("l", 0) if opens else 0,
               "output files are opened at exactly one site, Writer<std::string>::open" if ok else
               "output files are opened at %s" % [(short(f["qn"]), c.get("l")) for f, c in opens])
    open_parts = None
    if opens:
        f, c = opens[0]
        open_parts = parts_at(c["args"][0], f)
        okp = open_parts == [("this", "m_value"), ("this", "m_extension"), ".part"]
        refuted = bool(cache_undecided) and cache_undecided.startswith("REFUTED: ")
        if not okp and refuted:
            okp = False
        elif not okp and cache_undecided:
            okp = None
        elif not okp and open_parts[-1:] == [".part"] and ("this", "m_value") in open_parts and \
                any(isinstance(x, tuple) and x not in (("this", "m_value"), ("this", "m_extension")) for x in open_parts):
            # <name> <something kept in another member> .part : what that member holds is not decided here
            okp = None
            cache_undecided = "member %s takes the place of the extension" % [x for x in open_parts if isinstance(x, tuple) and x not in (("this", "m_value"), ("this", "m_extension"))][0][-1]
        for f2_, c2_ in extra_sites:
            # the name a stream opened aside is opened on, over the state the function leaves behind (`m_value = next;`)
            p2 = expand_cached(resolve_locals(final_state_parts(path_expr_parts(c2_["args"][0]), f2_), f2_, resolver), cache)
            ok2 = p2 == [("this", "m_value"), ("this", "m_extension"), ".part"]
            run.ob(R1, "open-target-is-.part@rotate_output", ok2, f2_, c2_.get("l", 0),
                   "the stream opened aside is opened on <new name><ext>.part" if ok2 else "the stream opened aside in rotate_output is opened on %s, not on <new name><ext>.part" % p2)
        run.ob(R1, "open-target-is-.part", okp, f, c.get("l", 0),
               "the stream is opened on <name><ext>.part" if okp else
               (("the name the stream is opened on is kept in members and may belong to another output: %s" % cache_undecided[9:]) if (okp is False and refuted) else
                "the stream is opened on %s, not on the .part name" % open_parts if okp is False else
                "the opened name %s is kept in members whose refresh protocol is not decided: %s" % (open_parts, cache_undecided)))
    ok = len(renames) == 1 and renames[0][0].get("cls") == WSTR and renames[0][0]["qn"].endswith("::close")
    if not only_names:
      run.ob(R1, "single-rename-site", ok, renames[0][0] if renames else None, renames[0][1].get("l", 0) if renames else 0,
           "rename is called at exactly one site, Writer<std::string>::close" if ok else
           "rename/link is called at %s" % [(short(f["qn"]), c.get("l")) for f, c in renames])
    # data goes only to m_out
    wf = facts.fn(WSTR + "::write", rule=R1)
    wcalls = [c for c in ir.calls_in(wf["body"]) if callee_name(c) == "write"]
    ok = len(wcalls) == 1 and path(wcalls[0].get("recv")) == ("this", "m_out")
    if not only_names:
        run.ob(R1, "data-to-the-opened-stream", ok, wf, wf["line"], "write() hands the bytes to the stream opened on the .part file")
    run.floor(R1, 4 if not only_names else 1, "open/rename sites")

    # ---------------- R15.2 close: flush -> close -> rename(part, final)
    cf = facts.fn(WSTR + "::close", rule=R2)
    calls = ordered_calls(cf)
    seq = []
    ren = None
    for c in calls:
        nm = callee_name(c[0])
        if c[0].get("k") == "MCall" and path(c[0].get("recv")) == ("this", "m_out") and nm in ("flush", "close", "write", "put", "open"):
            seq.append(nm)
        if nm == "rename" and c[0].get("k") == "Call":
            seq.append("rename")
            ren = c
    core = [x for x in seq if x in ("flush", "close", "rename", "write", "open")]
    ok = core == ["flush", "close", "rename"]
    if not only_names:
      run.ob(R2, "close:flush-close-rename", ok, cf, cf["line"],
           "pending data flushed, descriptor closed, then the file is renamed" if ok else
           "Writer<std::string>::close performs %s; the file must be given its final name only after flush and close" % core)
    if ren is not None and open_parts is not None:
        src = parts_at(ren[0]["args"][0], cf)
        dst = parts_at(ren[0]["args"][1], cf)
        ok = src == open_parts and dst == open_parts[:-1]
        if not ok and cache_undecided and cache_undecided.startswith("REFUTED: "):
            ok = False
        elif not ok and cache_undecided:
            ok = None
        run.ob(R2, "close:rename(part,final)", ok, cf, ren[0].get("l", 0),
               "rename(<opened .part path>, <same path without .part>)" if ok else
               (("the renamed names are kept in members and may belong to another output: %s" % cache_undecided[9:]) if (ok is False and cache_undecided and cache_undecided.startswith("REFUTED: ")) else
                "rename(%s, %s) does not move the opened path %s to its name without .part" % (src, dst, open_parts) if ok is False else
                "rename(%s, %s): names kept in members whose refresh protocol is not decided: %s" % (src, dst, cache_undecided)))
        # rename only when the stream was open
        okg = any("is_open" in repr(a) for a in conjuncts(ren[1]))
        if not only_names:
            run.ob(R2, "close:rename-only-if-open", okg, cf, ren[0].get("l", 0), "nothing is renamed unless a stream was open")
    run.floor(R2, 3 if not only_names else 1, "close ordering")


def check_rest(run):
    facts = run.facts

    # ---------------- R15.3 destruction order
    def field_order(cls):
        r = facts.record(cls, rule="R15.3")
        return [f["n"] for f in r["fields"]]

    # exporter: body writes the break; m_encoder is a member (destroyed after the body)
    dt = facts.fn(EXP + "::~CdnsExporter", rule="R15.3")
    brk = [c for c in ir.calls_in(dt["body"]) if callee_qn(c) == ENC + "::write_break"]
    run.ob("R15.3", "~CdnsExporter:break-in-body", len(brk) == 1 and "m_encoder" in field_order(EXP), dt, dt["line"],
           "the closing break is staged in the destructor body, before member m_encoder is destroyed")
    de = facts.fn(ENC + "::~CdnsEncoder", rule="R15.3")
    fl = [c for c in ir.calls_in(de["body"]) if callee_qn(c) == ENC + "::flush_buffer"]
    run.ob("R15.3", "~CdnsEncoder:flush-in-body", len(fl) == 1 and "m_cos" in field_order(ENC), de, de["line"],
           "staged bytes are flushed in the destructor body, before member m_cos (the writer) is destroyed" if len(fl) == 1 else
           "~CdnsEncoder does not flush the staging buffer before the writer is destroyed: the last bytes never reach the file")
    # m_cos must not be used by a member declared after it whose destructor writes (none) -- check m_cos type
    enc_rec = facts.record(ENC, rule="R15.3")
    cos = [f for f in enc_rec["fields"] if f["n"] == "m_cos"]
    run.ob("R15.3", "CdnsEncoder:m_cos-owning-pointer", bool(cos) and "unique_ptr" in cos[0]["t"], enc_rec["file"], enc_rec["line"],
           "the writer is owned (unique_ptr): destroying the encoder destroys the writer", nontrivial=False)
    for cls in (GZ, XZ):
        d = facts.fn("%s::~%s" % (cls, cls.split("::")[-1]), rule="R15.3")
        cl = [c for c in ir.calls_in(d["body"]) if callee_name(c) == "close" and unwrap(c.get("recv") or {}).get("k") == "This"]
        fo = field_order(cls)
        ok = len(cl) == 1 and "m_writer" in fo
        run.ob("R15.3", "~%s:drain-in-body-then-m_writer" % short(cls), ok, d, d["line"],
               "the compressor is drained in the destructor body; the inner file writer (member m_writer) is destroyed afterwards and renames last" if ok else
               "the compressed writer's destructor must call close() in its body (members are destroyed after the body)")
        # close() forwards through m_writer->write only (no rename/close of the inner writer before the drain ends)
    pl = facts.record(PLAIN, rule="R15.3")
    run.ob("R15.3", "CborOutputWriter:owns-inner-writer", any(f["n"] == "m_writer" and "unique_ptr" in f["t"] for f in pl["fields"]), pl["file"], pl["line"],
           "plain writer owns the file writer", nontrivial=False)
    dw = facts.fn(WSTR + "::~Writer", rule="R15.3")
    ok = any(callee_name(c) == "close" for c in ir.calls_in(dw["body"]))
    run.ob("R15.3", "~Writer<std::string>:close", ok, dw, dw["line"], "the file writer's destructor closes (flush, close, rename)")
    # virtual destructor in the base so that deleting through BaseCborOutputWriter* runs the chain
    base = facts.record(BASE, rule="R15.3")
    run.ob("R15.3", "BaseCborOutputWriter:virtual-dtor", bool(base["special"].get("dtorVirtual")), base["file"], base["line"],
           "destroying through the base pointer runs the derived destructors")
    run.floor("R15.3", 8, "destruction chain")

    # ---------------- R15.4 rotate path: same chain
    for ef in facts.fns(ENC + "::rotate_output"):
        calls = ordered_calls(ef)
        fl = [i for i, c in enumerate(calls) if callee_qn(c[0]) == ENC + "::flush_buffer" and not c[2]]
        ro = [i for i, c in enumerate(calls) if callee_qn(c[0]) == BASE + "::rotate_output"]
        ok = bool(fl) and bool(ro) and fl[0] < ro[0]
        run.ob("R15.4", "CdnsEncoder::rotate_output%s:flush-first" % ef.get("targs", ""), ok, ef, ef["line"], "staged bytes reach the old .part file before it is closed and renamed")
    for cls in (GZ, XZ):
        ro = facts.fn(cls + "::rotate_output", rule="R15.4")
        calls = ordered_calls(ro)
        seq = []
        for c in calls:
            if c[0].get("k") == "MCall" and unwrap(c[0].get("recv") or {}).get("k") == "This" and callee_name(c[0]) in ("close", "open"):
                seq.append(callee_name(c[0]))
            if callee_qn(c[0]) == BASE + "::rotate_output":
                seq.append("inner")
        run.ob("R15.4", "%s::rotate_output:drain-before-inner-rotate" % short(cls), seq[:2] == ["close", "inner"], ro, ro["line"],
               "the compressed stream is finished before the inner writer closes and renames the file" if seq[:2] == ["close", "inner"] else "sequence %s" % seq)
    ro = facts.fn(WSTR + "::rotate_output", rule="R15.4")
    calls = ordered_calls(ro)
    seq = []
    for c in calls:
        if c[0].get("k") == "MCall" and unwrap(c[0].get("recv") or {}).get("k") == "This" and callee_name(c[0]) in ("close", "open"):
            seq.append(callee_name(c[0]))
        if c[0].get("k") == "Construct" and "basic_ofstream" in (c[0].get("t") or "") and c[0].get("args"):
            seq.append("open")          # the new file opened in a local stream that is committed to m_out afterwards
    run.ob("R15.4", "Writer<std::string>::rotate_output:close-then-open", seq == ["close", "open"], ro, ro["line"],
           "the old file is completed (close+rename) before the new .part file is opened")
    run.floor("R15.4", 5, "rotate chain")

    # ---------------- R15.5 "complete" includes the compressor's tail: close() of the compressing writers drains the stream
    # until its end code before the inner writer closes and renames (obligations of C14, same code, same reason)
    from . import C14
    before = len(run.obs)
    floors_before = dict(run.floors)
    C14.check(run)
    kept = []
    for o in run.obs[before:]:
        if o.rule == "R14.2" and o.key.endswith("::close:drain-until-stream-end"):
            o.rule = "R15.5"
            kept.append(o)
    run.obs = run.obs[:before] + kept
    run.floors = floors_before
    run.floor("R15.5", 2, "compressing writers")
