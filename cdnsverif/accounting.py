"""A3 byte accounting: every emitter result flows additively into the function's return value."""
from . import ir, emission
from .ir import path, unwrap, callee_name, callee_qn, const_value, show, Env

ENC = emission.ENC


def emitter_set(facts):
    """Fixpoint: CdnsEncoder write primitives + every in-repo size_t function that calls an emitter."""
    E = set()
    prim = set()
    for f in facts.functions.values():
        if f.get("cls") == ENC and f.get("ret") == "unsigned long":
            nm = f["qn"].split("::")[-1]
            if nm.startswith("write"):
                prim.add(f["key"])
    # primitives are identified at call sites by class+name (their bodies may be in another TU)
    def is_prim_call(c):
        cal = c.get("callee") or {}
        return cal.get("cls") == ENC and cal.get("ret") == "unsigned long" and (callee_name(c) or "").startswith("write")

    changed = True
    keys_by_sig = {}
    for f in facts.functions.values():
        keys_by_sig[(f["qn"], tuple(f["sig"]))] = f["key"]
    while changed:
        changed = False
        for f in facts.functions.values():
            if f["key"] in E or f.get("ret") != "unsigned long" or f.get("cls") == ENC:
                continue
            for c in ir.calls_in(f["body"]):
                cal = c.get("callee") or {}
                k = keys_by_sig.get((cal.get("qn"), tuple(cal.get("sig", []))))
                if is_prim_call(c) or (k in E):
                    E.add(f["key"])
                    changed = True
                    break
    return E, is_prim_call, keys_by_sig


class Site:
    def __init__(self, fn, call, status, why, acc=None):
        self.fn, self.call, self.status, self.why, self.acc = fn, call, status, why, acc


def analyse(fn, facts, E, is_prim_call, keys_by_sig):
    fn = ir.normal_path(fn)         # byte counts are what a call that returns reports
    """Returns (sites, returns, accs): per emitter call its use classification; per return its verdict."""
    def is_emitter_call(c):
        if c.get("k") not in ("Call", "MCall"):
            return False
        if is_prim_call(c):
            return True
        cal = c.get("callee") or {}
        return keys_by_sig.get((cal.get("qn"), tuple(cal.get("sig", [])))) in E

    order = {}   # id(node) -> preorder index
    for i, n in enumerate(ir.walk(fn["body"])):
        order[id(n)] = i
    sites = []
    accs = {}       # local key -> list of (order, kind)   kind in init0/initcall/+=/=
    # declarations
    for n in ir.walk(fn["body"]):
        if n.get("k") == "Decl":
            for v in n.get("vars", []):
                if "n" not in v:
                    continue
                key = "l:%s#%s" % (v["n"], v["id"])
                init = v.get("init")
                u = unwrap(init) if init is not None else None
                if u is not None and isinstance(u, dict) and is_emitter_call(u):
                    accs.setdefault(key, []).append((order[id(n)], "initcall"))
                elif init is not None and const_value(init) == 0 and v.get("t") == "unsigned long":
                    accs.setdefault(key, []).append((order[id(n)], "init0"))
    for n, parents in ir.walk_with_parents(fn["body"]):
        if not is_emitter_call(n):
            continue
        # climb
        i = len(parents) - 1
        cur = n
        verdict = None
        while i >= 0:
            p = parents[i]
            k = p.get("k")
            if k == "Cast" and p.get("style") == "implicit":
                cur = p
                i -= 1
                continue
            if k == "Bin" and p.get("op") == "+" :
                cur = p
                i -= 1
                continue
            if k == "Cond" and (p.get("a") is cur or p.get("b") is cur):
                # `flag ? emit() : 0` contributes the count on the branch that emits
                other = p.get("b") if p.get("a") is cur else p.get("a")
                if const_value(other) == 0 or (isinstance(unwrap(other), dict) and is_emitter_call(unwrap(other))):
                    cur = p
                    i -= 1
                    continue
            if k == "Bin" and p.get("op") == "+=" and p.get("rhs") is cur:
                lp = path(p["lhs"])
                if lp and len(lp) == 1 and lp[0].startswith("l:"):
                    accs.setdefault(lp[0], []).append((order[id(p)], "+="))
                    verdict = Site(fn, n, True, "added to accumulator %s" % lp[0].split("#")[0][2:], lp[0])
                else:
                    verdict = Site(fn, n, None, "added to something that is not a local accumulator: %s" % show(p["lhs"]))
                break
            if k == "Bin" and p.get("op") == "=" and p.get("rhs") is cur:
                lp = path(p["lhs"])
                # acc = acc + emit(...)  is the same as  acc += emit(...)
                def _plus_terms(e_):
                    u_ = unwrap(e_)
                    if isinstance(u_, dict) and u_.get("k") == "Bin" and u_.get("op") == "+":
                        return _plus_terms(u_["lhs"]) + _plus_terms(u_["rhs"])
                    return [u_]
                if lp and len(lp) == 1 and lp[0].startswith("l:") and any(path(t_) == lp for t_ in _plus_terms(cur) if isinstance(t_, dict)):
                    accs.setdefault(lp[0], []).append((order[id(p)], "+="))
                    verdict = Site(fn, n, True, "added to accumulator %s" % lp[0].split("#")[0][2:], lp[0])
                    break
                if lp and len(lp) == 1 and lp[0].startswith("l:"):
                    prior = [x for x in accs.get(lp[0], []) if x[0] < order[id(p)] and x[1] in ("+=", "initcall", "=")]
                    accs.setdefault(lp[0], []).append((order[id(p)], "="))
                    if prior:
                        verdict = Site(fn, n, False, "plain assignment overwrites accumulator %s which already holds emitted byte counts" % lp[0].split("#")[0][2:], lp[0])
                    else:
                        verdict = Site(fn, n, True, "assigned to accumulator %s that still holds its initial 0" % lp[0].split("#")[0][2:], lp[0])
                else:
                    verdict = Site(fn, n, None, "assigned to a non-local: %s" % show(p["lhs"]))
                break
            if k == "Return":
                verdict = Site(fn, n, True, "returned directly")
                break
            if k is None and "init" in p and "n" in p:
                verdict = Site(fn, n, True, "initialises accumulator %s" % p["n"], "l:%s#%s" % (p["n"], p["id"]))
                break
            if k == "Decl":
                for v in p.get("vars", []):
                    if v.get("init") is not None and unwrap(v["init"]) is n or v.get("init") is cur:
                        verdict = Site(fn, n, True, "initialises accumulator %s" % v["n"], "l:%s#%s" % (v["n"], v["id"]))
                if verdict is None:
                    verdict = Site(fn, n, None, "used inside a declaration in an unknown way")
                break
            if k in ("Block", "If", "While", "For", "RangeFor", "Do", "Switch", "Case", "Default", "Try") or k is None:
                verdict = Site(fn, n, False, "result of %s discarded: the bytes it appended are not counted" % (callee_name(n)))
                break
            # any other expression context
            verdict = Site(fn, n, None, "emitter result used in %s expression" % k)
            break
        if verdict is None:
            verdict = Site(fn, n, False, "result of %s discarded" % callee_name(n))
        if verdict.acc and verdict.status is True and not any(x[1] in ("+=", "initcall", "=") for x in accs.get(verdict.acc, [])):
            accs.setdefault(verdict.acc, []).append((order[id(n)], "initcall"))
        sites.append(verdict)

    # ---- carriers: locals that hold emitted byte counts; drains: a carrier added into another one
    def _terms(e_):
        u_ = unwrap(e_)
        if isinstance(u_, dict) and u_.get("k") == "Bin" and u_.get("op") == "+":
            return _terms(u_["lhs"]) + _terms(u_["rhs"])
        return [u_]

    def is_carrier(k_):
        return k_ in accs and any(x[1] in ("+=", "initcall", "=") for x in accs[k_])
    env_g = Env(fn["body"])
    guard_of = {}
    for st, g, loops in ir.guarded_statements(fn["body"], env_g):
        if st.get("k") in ("IfCond", "LoopHead", "SwitchHead"):
            continue
        for x in ir.walk(st):
            guard_of[id(x)] = g
    drains = []          # (order, source carrier, target local)
    overwritten = set()
    changed = True
    while changed:
        changed = False
        for n in ir.walk(fn["body"]):
            tgt = None
            srcs = []
            if n.get("k") == "Bin" and n.get("op") in ("+=", "="):
                lp = path(n["lhs"])
                if lp and len(lp) == 1 and lp[0].startswith("l:"):
                    ts = _terms(n["rhs"])
                    if n["op"] == "+=" or any(isinstance(t_, dict) and path(t_) == lp for t_ in ts):
                        tgt = lp[0]
                        srcs = [path(t_) for t_ in ts if isinstance(t_, dict)]
                    elif all(isinstance(t_, dict) and ((path(t_) and len(path(t_)) == 1 and is_carrier(path(t_)[0])) or const_value(t_) == 0)
                             for t_ in ts) and any(path(t_) for t_ in ts if isinstance(t_, dict)):
                        # plain assignment of a sum of carriers: the target takes them over - and loses what it held
                        tgt = lp[0]
                        srcs = [path(t_) for t_ in ts if isinstance(t_, dict)]
                        prior = [x for x in accs.get(tgt, []) if x[0] < order[id(n)] and x[1] in ("+=", "initcall", "=")]
                        # `sum = total; ..sum grows..; total = sum;` hands the old total through the carrier (std::accumulate with
                        # the running total as its initial value): nothing is lost
                        carried = False
                        for sp_ in srcs:
                            if not (sp_ and len(sp_) == 1):
                                continue
                            for d_ in ir.walk(fn["body"]):
                                if d_.get("k") == "Decl":
                                    for v_ in d_.get("vars", []):
                                        if "n" in v_ and "l:%s#%s" % (v_["n"], v_["id"]) == sp_[0] and v_.get("init") is not None and \
                                                any(isinstance(t2, dict) and path(t2) == lp for t2 in _terms(v_["init"])) and order[id(d_)] < order[id(n)]:
                                            carried = True
                        if carried:
                            prior = []
                        if prior and id(n) not in overwritten:
                            overwritten.add(id(n))
                            sites.append(Site(fn, n, False, "plain assignment overwrites accumulator %s which already holds emitted byte counts "
                                              "(`=` where `+=` is meant)" % tgt.split("#")[0][2:], tgt))
            elif n.get("k") == "Decl":
                for v in n.get("vars", []):
                    if "n" in v and v.get("init") is not None:
                        ts = _terms(v["init"])
                        ps = [path(t_) for t_ in ts if isinstance(t_, dict)]
                        if any(p_ and len(p_) == 1 and is_carrier(p_[0]) for p_ in ps):
                            tgt = "l:%s#%s" % (v["n"], v["id"])
                            srcs = ps
            if tgt is None:
                continue
            for sp in srcs:
                if sp and len(sp) == 1 and sp[0] != tgt and is_carrier(sp[0]):
                    ev_ = (order[id(n)], sp[0], tgt)
                    if ev_ not in drains:
                        drains.append(ev_)
                        accs.setdefault(tgt, []).append((order[id(n)], "+="))
                        changed = True
    drained = {}
    for (o_, src_, tgt_) in drains:
        later = [x for x in accs[src_] if x[0] > o_ and x[1] in ("+=", "=", "initcall")]
        if not later:
            drained[src_] = tgt_

    # returns
    rets = []
    first_emit = min([order[id(s.call)] for s in sites], default=None)
    real_accs = set(k for k, v in accs.items() if any(x[1] in ("+=", "initcall", "=") for x in v))

    def contradict(g1, g2):
        a1, a2 = ir.conjuncts(g1), ir.conjuncts(g2)
        return any(ir.f_not(x) in a2 for x in a1) or any(ir.f_not(x) in a1 for x in a2)

    def covered_by(term_keys, upto):
        """carriers whose content is part of the value formed from term_keys at position upto"""
        reach = set(term_keys)
        grew = True
        while grew:
            grew = False
            for (o_, src_, tgt_) in drains:
                if tgt_ in reach and src_ not in reach and o_ <= upto:
                    reach.add(src_)
                    grew = True
        return reach

    def ret_ok(e):
        u = unwrap(e)
        if not isinstance(u, dict):
            return None, "?"
        if is_emitter_call(u):
            return True, "returns the emitter's own count"
        p = path(u)
        if p and len(p) == 1 and p[0] in real_accs and p[0] not in drained:
            return True, "returns accumulator %s" % p[0].split("#")[0][2:]
        if p and len(p) == 1 and p[0] in drained:
            return False, "partial sum %s (already added into %s)" % (p[0].split("#")[0][2:], drained[p[0]].split("#")[0][2:])
        if u.get("k") == "Bin" and u.get("op") == "+":
            a, wa_ = ret_ok(u["lhs"])
            b, wb_ = ret_ok(u["rhs"])
            if a and b:
                return True, "returns a sum of counted parts"
            # accumulator + payload size (write_bytestring) is handled in C06, not here
            return (False if (a is False or b is False) else None), "sum with an uncounted part: %s" % show(u)
        return False, show(u)

    upd_guard = {}
    for n_ in ir.walk(fn["body"]):
        if id(n_) in guard_of and id(n_) in order:
            for k_, evs_ in accs.items():
                for x in evs_:
                    if x[0] == order[id(n_)]:
                        upd_guard[(k_, x[0])] = guard_of[id(n_)]
    ret_guards = {}
    env_r = Env(fn["body"])
    for st, g, loops in ir.guarded_statements(fn["body"], env_r):
        if st.get("k") == "Return":
            ret_guards[id(st)] = g
    in_lambda = set(id(x) for l_ in ir.walk(fn["body"]) if l_.get("k") == "Lambda" for x in ir.walk(l_))
    for n in ir.walk(fn["body"]):
        if n.get("k") != "Return" or id(n) in in_lambda:
            continue            # (a return inside a lambda is the lambda's own)
        e = n.get("e")
        if e is None:
            continue
        ok, why = ret_ok(e)
        if ok is True:
            tkeys = [path(t_)[0] for t_ in _terms(e) if isinstance(t_, dict) and path(t_) and len(path(t_)) == 1]
            reach = covered_by(tkeys, order[id(n)])
            g_ret = ret_guards.get(id(n), ("T",))
            lost = []
            for k_ in sorted(real_accs):
                if k_ in reach:
                    continue
                ups = [x for x in accs[k_] if x[1] in ("+=", "initcall", "=") and x[0] < order[id(n)]]
                ups = [x for x in ups if not contradict(upd_guard.get((k_, x[0]), ("T",)), g_ret)]
                if ups:
                    lost.append(k_.split("#")[0][2:])
            if lost:
                rets.append((n, False, "the byte counts held in %s are not part of the value returned here" % ", ".join(sorted(set(lost)))))
            else:
                rets.append((n, True, why))
            continue
        cv = const_value(e)
        before = first_emit is None or order[id(n)] < first_emit
        g_here = ret_guards.get(id(n), ("T",))
        acc_zero = any(a[0] == "not" and a[1][0] == "nz" and ("%s" % a[1][1]) in real_accs for a in ir.conjuncts(g_here))
        exclusive = all(contradict(guard_of.get(id(s_.call), ("T",)), g_here) for s_ in sites) if sites else True
        if cv == 0 and before:
            rets.append((n, True, "returns 0 before any emission"))
        elif cv == 0 and exclusive:
            rets.append((n, True, "returns 0 on a path that excludes every emission"))
        elif cv == 0 and acc_zero:
            rets.append((n, True, "returns 0 on the path where the accumulator is 0"))
        elif cv is not None:
            rets.append((n, False, "returns constant %s on a path that has already emitted bytes" % cv))
        else:
            rets.append((n, False, "returns %s, which is not the byte accumulator" % why))
    return sites, rets, set()
