"""Rule engine glue: obligations, floors, known findings, evidence, exit codes."""
import hashlib
import importlib
import json
import os
import sys
import time
import traceback

from . import facts as factsmod
from .facts import AnalysisBroken, VERIF

import re
_LOCAL_ID = re.compile(r"(l:\w+)#\d+")
LEVELS = {}   # property id -> (level, trusted base, assumptions) filled by rules modules


class Obligation:
    __slots__ = ("rule", "key", "status", "file", "line", "why", "nontrivial", "detail")

    def __init__(self, rule, key, status, file, line, why, nontrivial=True, detail=None):
        self.rule = rule
        self.key = key
        self.status = status      # holds | fails | unrecognised
        self.file = file
        self.line = line
        self.why = why
        self.nontrivial = nontrivial
        self.detail = detail

    def ident(self):
        return "%s|%s" % (self.rule, self.key)

    def to_json(self):
        d = {"rule": self.rule, "instance": self.key, "status": self.status,
             "where": "%s:%s" % (self.file, self.line), "reason": self.why}
        if self.detail:
            d["detail"] = self.detail
        return d


class Run:
    def __init__(self, prop, facts, tier):
        self.prop = prop
        self.facts = facts
        self.tier = tier
        self.obs = []
        self.floors = {}      # rule -> (min instances, description)
        self.notes = []
        self.broken = []      # (rule, reason)
        self.info = {}

    def ob(self, rule, key, ok, fn_or_file=None, line=0, why="", nontrivial=True, detail=None):
        """Record one obligation.  ok: True (holds) / False (fails) / None (unrecognised)."""
        status = "holds" if ok is True else ("fails" if ok is False else "unrecognised")
        key = _LOCAL_ID.sub(r"\1", key)
        f = fn_or_file
        if isinstance(f, dict):
            file = self.facts.rel(f.get("file", "?"))
            if not line:
                line = f.get("line", 0)
        else:
            file = self.facts.rel(f) if f else "?"
        o = Obligation(rule, key, status, file, line, why, nontrivial, detail)
        self.obs.append(o)
        return o

    def floor(self, rule, n, what=""):
        self.floors[rule] = (n, what)

    def broken_rule(self, rule, reason):
        self.broken.append((rule, reason))

    def note(self, text):
        self.notes.append(text)


def load_known():
    p = os.path.join(VERIF, "known_findings.json")
    if not os.path.exists(p):
        return []
    return json.load(open(p)).get("findings", [])


def run_property(prop, tier="quick", replay=None, repo=None, quiet=False, facts=None, write_evidence=True,
                 extra=None):
    """Runs all rules of one property. Returns exit code."""
    t0 = time.time()
    seed = int(os.environ.get("VERIF_SEED", "0") or 0)
    mod = importlib.import_module("cdnsverif.rules.%s" % prop)
    meta = mod.META
    out = []

    def emit(s):
        out.append(s)
        if not quiet:
            print(s)

    run = None
    broken = []
    try:
        if facts is None:
            facts = factsmod.load(repo)
        run = Run(prop, facts, tier)
        mod.check(run)
        if tier == "thorough" and hasattr(mod, "check_thorough"):
            mod.check_thorough(run)
    except AnalysisBroken as e:
        broken.append((e.rule, e.reason))
    except Exception as e:  # an engine bug must never look like a verdict
        broken.append(("engine", "internal error: %s\n%s" % (e, traceback.format_exc(limit=6))))
    if run is not None:
        broken += run.broken
        # floors: a rule that matched fewer instances than confirmed by hand is broken, not passing
        counts = {}
        for o in run.obs:
            counts[o.rule] = counts.get(o.rule, 0) + 1
        for rule, (n, what) in run.floors.items():
            if counts.get(rule, 0) < n:
                broken.append((rule, "matched %d instances, floor is %d (%s)" % (counts.get(rule, 0), n, what)))
        for o in run.obs:
            if o.status == "unrecognised":
                broken.append((o.rule, "unrecognised construct at %s:%s instance=%s: %s" % (o.file, o.line, o.key, o.why)))

    known = [k for k in load_known() if k.get("property") == prop]
    known_open = {("%s|%s" % (k["rule"], k["instance"])): k for k in known if k.get("status") == "known"}
    violations = []
    known_hits = []
    if run is not None:
        for o in run.obs:
            if o.status != "fails":
                continue
            if o.ident() in known_open:
                known_hits.append((o, known_open[o.ident()]))
            else:
                violations.append(o)

    if replay:
        try:
            want = json.load(open(replay))
            violations = [v for v in violations if v.ident() == "%s|%s" % (want.get("rule"), want.get("instance"))]
        except Exception as e:
            broken.append(("replay", "cannot read replay file %s: %s" % (replay, e)))

    wall = time.time() - t0
    # ---- report
    if run is not None:
        emit("[%s] tier=%s TUs=%d functions=%d records=%d extract=%.1fs%s obligations=%d" % (
            prop, tier, len(facts.tus), len(facts.functions), len(facts.records), facts.extract_s,
            " (content-hash cache)" if facts.cache_hit else "", len(run.obs)))
        per_rule = {}
        for o in run.obs:
            d = per_rule.setdefault(o.rule, {"holds": 0, "fails": 0, "unrecognised": 0})
            d[o.status] += 1
        for r in sorted(per_rule):
            d = per_rule[r]
            fl = run.floors.get(r)
            emit("  %-8s instances=%-4d holds=%-4d fails=%-3d unrecognised=%-3d%s" % (
                r, sum(d.values()), d["holds"], d["fails"], d["unrecognised"],
                (" floor=%d" % fl[0]) if fl else ""))
        for n in run.notes:
            emit("  note: %s" % n)
    for o, k in known_hits:
        emit("KNOWN-FINDING: property=%s rule=%s instance=%s at %s:%s — %s" % (
            prop, o.rule, o.key, o.file, o.line, k.get("what", o.why)))
    rc = 0
    if broken:
        for rule, reason in broken:
            emit("ANALYSIS-BROKEN property=%s rule=%s reason=%s" % (prop, rule, reason))
        rc = 2
    # a failing obligation is only ever emitted for a construct its rule fully understood, so it stands on its own
    # even when another instance/rule could not be analysed: violations take precedence over exit 2
    if violations:
        os.makedirs(os.path.join(VERIF, "findings", prop), exist_ok=True)
        for v in violations:
            h = hashlib.sha1(v.ident().encode()).hexdigest()[:12]
            rp = os.path.join("findings", prop, "%s.json" % h)
            with open(os.path.join(VERIF, rp), "w") as fh:
                json.dump({"property": prop, "rule": v.rule, "instance": v.key, "file": v.file,
                           "line": v.line, "reason": v.why, "detail": v.detail}, fh, indent=1)
            emit("VIOLATION property=%s replay=%s" % (prop, rp))
            emit("  %s:%s rule=%s instance=%s: %s" % (v.file, v.line, v.rule, v.key, v.why))
        rc = 1

    # ---- evidence
    if write_evidence and not replay and not os.environ.get("VERIF_SEEDRUN"):
        write_evidence_file(prop, meta, run, facts, tier, seed, wall, violations, known_hits, broken, extra)
    if rc == 0:
        emit("[%s] OK: %d obligations hold%s" % (prop, len([o for o in (run.obs if run else []) if o.status == "holds"]),
                                               (", %d known finding(s)" % len(known_hits)) if known_hits else ""))
    return rc


def write_evidence_file(prop, meta, run, facts, tier, seed, wall, violations, known_hits, broken, extra=None):
    obs = run.obs if run else []
    nontrivial = set(o.ident() for o in obs if o.nontrivial)
    samples = []
    seen_rules = {}
    for o in obs:
        if seen_rules.get(o.rule, 0) < 3:
            seen_rules[o.rule] = seen_rules.get(o.rule, 0) + 1
            samples.append(o.to_json())
    for o in obs:
        if o.status != "holds" and o.to_json() not in samples:
            samples.append(o.to_json())
    per_rule = {}
    for o in obs:
        d = per_rule.setdefault(o.rule, {"instances": 0, "holds": 0, "fails": 0, "unrecognised": 0})
        d["instances"] += 1
        d[o.status] += 1
    for r, (n, what) in (run.floors.items() if run else []):
        per_rule.setdefault(r, {"instances": 0, "holds": 0, "fails": 0, "unrecognised": 0})["floor"] = n
    discharged = len([o for o in obs if o.status == "holds"]) + len(known_hits)
    cov = {
        "evaluations": len(obs),
        "distinct_nontrivial": len(nontrivial),
        "rule": meta.get("rule_text", "") + " An obligation is non-trivial when deciding it needed a guard, path, "
                "summary or table argument (not a mere existence check); distinct = distinct (rule, instance key).",
        "samples": samples[:60],
        "obligations": len(obs),
        "discharged": len([o for o in obs if o.status == "holds"]),
        "checker_cmd": "./check %s --tier %s" % (prop, tier),
        "trusted_base": meta.get("trusted_base", []),
        "explanation": meta.get("explanation", ""),
        "exhaustive": True,
        "per_rule": per_rule,
        "analysed": {
            "translation_units": [facts.rel(t) for t in facts.tus] if facts else [],
            "functions_extracted": len(facts.functions) if facts else 0,
            "records": len(facts.records) if facts else 0,
            "enums": len(facts.enums) if facts else 0,
            "extract_seconds": round(facts.extract_s, 2) if facts else 0,
            "facts_from_content_hash_cache": bool(facts.cache_hit) if facts else False,
            "normalisation": {
                "rule": "N1 inlining of local lambdas, non-public/internal helpers that are not analysis units and pure getters; "
                        "N2 forward substitution of pure never-written locals; constant folding (cdnsverif/normalize.py)",
                "calls_inlined": (facts.norm_stats or {}).get("inlined_calls", 0),
                "calls_left_as_calls": (facts.norm_stats or {}).get("kept_calls", 0),
                "local_uses_substituted": (facts.norm_stats or {}).get("propagated_uses", 0),
                "helpers_analysed_only_in_callers": sorted((facts.norm_stats or {}).get("helpers_absorbed", [])),
            } if facts else {},
        },
        "known_findings_reported": [{"rule": o.rule, "instance": o.key, "what": k.get("what")} for o, k in known_hits],
        "analysis_broken": [{"rule": r, "reason": x} for r, x in broken],
        "notes": run.notes if run else [],
    }
    if extra:
        cov.update(extra)
    if run and run.info:
        cov.update(run.info)
    ev = {
        "property_id": prop,
        "tier": tier,
        "seed": seed,
        "level": meta.get("level", "other"),
        "coverage": cov,
        "assumptions": meta.get("assumptions", []),
        "wall_s": round(wall, 3),
        "violations": len(violations),
    }
    os.makedirs(os.path.join(VERIF, "evidence"), exist_ok=True)
    with open(os.path.join(VERIF, "evidence", "%s.json" % prop), "w") as fh:
        json.dump(ev, fh, indent=1, sort_keys=False)
        fh.write("\n")
