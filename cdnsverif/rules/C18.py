"""C18 cdns-merge preserves every block and record; cdns-itemcount counts are true (necessary conditions)."""
from .. import ir, consumption
from ..ir import path, path_str, unwrap, unwrap_all_casts, callee_name, callee_qn, show, show_f, Env, conjuncts, const_value, cond
from ..facts import AnalysisBroken
from . import C01

META = {
    "level": "other",
    "rule_text": "R18.1 every read through std::unordered_map::operator[] (which default-inserts) of the index remapping is dominated "
                 "by a membership test, so an input rejected in pass 1 cannot be merged in pass 2 with index 0; R18.2 the remapped "
                 "block_parameters_index is assigned before write_block(block); R18.7 a member-wise comparison of two values of one record type in the tools compares every data member (zero instances on the pinned tree; positive and negative control in tu/rule_controls.cpp); R18.3 each input is processed in its own try inside "
                 "the loop body in both passes, and the version check compares all three version members; R18.4 cdns-itemcount's "
                 "totals are sums of get_qr/aec/mm_count of each block returned before `end`, the per-block lines print those same "
                 "calls; R18.5 a block is rewritten relative to its own earliest time and parameters (time preservation). R18.2 remap-unconditional: the index rewrite sits only under the lookup test. R18.3 reference-from-first-readable: the reference preamble is assigned under a flag lowered in the same place, not under the position in the input list. R18.3 version check decided by truth table over the three equalities; the reference preamble may be taken member by member when all three version members are taken. R18.2 also: remap-takes-mapped-value (the block gets ->second of the looked-up pair, ->first is the key = its old index) and write-only-before-end (the guard of write_block(block), evaluated three-valued with the flag handed to read_block() set, is false when the flag is true). R18.3 version-check is decided by the truth table over the three version equalities only (no textual shortcut). R18.4 after-end-test uses the same guard evaluation. R18.8 = R05.7 (read_block's end-of-blocks protocol). R18.1 also: a counted loop of pass 1 that writes the remapping starts at index 0. R18.4 also: every local that takes a total is declared with the constant 0.",
    "explanation": "Structural necessary conditions over the two tool mains; equality of merged content with the inputs and the "
                   "text layout of the tools are not decided.",
    "trusted_base": ["clang 14 AST", "std::unordered_map::operator[] value-initialises a missing key"],
    "assumptions": [],
}


def tool_main(facts, name, rule):
    c = [f for f in facts.functions.values() if f["qn"] == "main" and f.get("file", "").endswith("/src/bin/%s" % name)]
    if len(c) != 1:
        raise AnalysisBroken(rule, "main of %s not found" % name)
    return c[0]


def assoc_subscripts(fn):
    """[(node, is_write, guard, parents)] for operator[] on unordered_map/map."""
    env = Env(fn["body"])
    out = []
    for st, g, loops in ir.guarded_statements_lc(fn["body"], env):
        if st.get("k") in ("LoopHead", "SwitchHead"):
            continue
        root = st["cond"] if st.get("k") == "IfCond" else st
        for n, parents in ir.walk_with_parents(root):
            if n.get("k") == "OpCall" and n.get("op") == "[]":
                cls = (n.get("callee") or {}).get("cls") or ""
                if cls.startswith("std::unordered_map<") or cls.startswith("std::map<"):
                    # write if it is the (transitive) left operand of an assignment
                    is_write = False
                    child = n
                    for p in reversed(parents):
                        if p.get("k") in ("Bin", "OpCall") and p.get("op") == "=":
                            lhs = p.get("lhs") if p.get("k") == "Bin" else (p.get("args") or [None])[0]
                            if lhs is child or any(x is n for x in ir.walk(lhs)):
                                is_write = lhs is child or unwrap(lhs) is child
                        child = p
                    # `auto& slot = m[k]; slot = v;` : the entry is bound to a reference local that is assigned as a whole
                    par = parents[-1] if parents else None
                    if not is_write and st.get("k") == "Decl" and len(st.get("vars", [])) == 1 and st["vars"][0].get("ref") and \
                            unwrap_all_casts(st["vars"][0].get("init")) is n and not (st["vars"][0].get("t") or "").startswith("const "):
                        rid = st["vars"][0].get("id")
                        for lp_, rhs_, node_ in consumption.assignment_targets(ir.stmts(fn["body"])):
                            if lp_ and len(lp_) == 1 and lp_[0].endswith("#%s" % rid):
                                is_write = True
                        for c_ in ir.calls_in(fn["body"]):
                            if c_.get("k") == "MCall" and callee_name(c_) in ("swap", "assign", "clear", "insert", "emplace") and path(c_.get("recv")) and \
                                    len(path(c_["recv"])) == 1 and path(c_["recv"])[0].endswith("#%s" % rid):
                                is_write = True
                            # slot[k] = v through the reference
                            if c_.get("k") == "OpCall" and c_.get("op") == "[]" and c_.get("args") and path(c_["args"][0]) and \
                                    len(path(c_["args"][0])) == 1 and path(c_["args"][0])[0].endswith("#%s" % rid):
                                for lp_, rhs_, node_ in consumption.assignment_targets(ir.stmts(fn["body"])):
                                    lhs_ = node_.get("lhs") if node_.get("k") == "Bin" else (node_.get("args") or [None])[0]
                                    if lhs_ is not None and unwrap(lhs_) is c_:
                                        is_write = True
                    out.append((n, is_write, g, parents, loops))
    return out


def rejects_any_difference(f):
    """The formula is true exactly when one of the three version members differs (for some setting of the atoms that do not
    speak about versions - `!first` - and never true otherwise): decided by its truth table over the three equalities."""
    import itertools
    vers = {}
    others = set()

    def atoms(x):
        if not isinstance(x, tuple) or not x:
            return
        if x[0] in ("and", "or"):
            for y in x[1:]:
                atoms(y)
        elif x[0] == "not":
            atoms(x[1])
        elif x[0] == "cmp" and x[1] in ("==", "!=") and any(m in str(x[2]) + str(x[3]) for m in ("m_major_format_version", "m_minor_format_version", "m_private_version")):
            m = [m for m in ("m_major_format_version", "m_minor_format_version", "m_private_version") if m in str(x[2]) and m in str(x[3])]
            if len(m) == 1:
                vers[(x[2], x[3])] = m[0]
            else:
                others.add(x)
        elif x[0] not in ("T", "F"):
            others.add(x)
    atoms(f)
    if sorted(set(vers.values())) != ["m_major_format_version", "m_minor_format_version", "m_private_version"]:
        return False

    def ev(x, eq, oth):
        if x[0] == "T":
            return True
        if x[0] == "F":
            return False
        if x[0] == "and":
            return all(ev(y, eq, oth) for y in x[1:])
        if x[0] == "or":
            return any(ev(y, eq, oth) for y in x[1:])
        if x[0] == "not":
            return not ev(x[1], eq, oth)
        if x[0] == "cmp" and (x[2], x[3]) in vers:
            same = eq[vers[(x[2], x[3])]]
            return same if x[1] == "==" else not same
        return oth[x]
    names = ["m_major_format_version", "m_minor_format_version", "m_private_version"]
    others = sorted(others, key=repr)
    exact = False
    for ovals in itertools.product([False, True], repeat=len(others)):
        oth = dict(zip(others, ovals))
        table = {}
        for evals in itertools.product([False, True], repeat=3):
            table[evals] = ev(f, dict(zip(names, evals)), oth)
        want = {evals: not all(evals) for evals in table}
        if table == want:
            exact = True
        elif any(table.values()):
            return False
    return exact


def reached_when_flag(g, flag, value):
    """three-valued value of the guard formula g with the end-of-input flag set to `value`: False = the guarded statement is
    never reached then, True = always, None = depends on other atoms"""
    def ev(x):
        if not isinstance(x, tuple) or not x:
            return None
        if x[0] == "T":
            return True
        if x[0] == "F":
            return False
        if x[0] == "and":
            vs = [ev(y) for y in x[1:]]
            return False if any(v is False for v in vs) else True if all(v is True for v in vs) else None
        if x[0] == "or":
            vs = [ev(y) for y in x[1:]]
            return True if any(v is True for v in vs) else False if all(v is False for v in vs) else None
        if x[0] == "not":
            v = ev(x[1])
            return None if v is None else not v
        if x[0] == "nz" and x[1] == flag:
            return value
        if x[0] == "cmp" and x[1] in ("==", "!=") and flag in (x[2], x[3]):
            other = x[3] if x[2] == flag else x[2]
            lit = {"true": True, "True": True, "1": True, "false": False, "False": False, "0": False}.get(str(other))
            if lit is None:
                return None
            return (value == lit) if x[1] == "==" else (value != lit)
        return None
    return ev(g)


def end_protocol(fn, env, loop, use):
    """(verdict, text): `use` (a node inside `loop`) is reached only for blocks that read_block() returned with its
    end-of-input flag false"""
    flags = set()
    for c_ in ir.calls_in(loop):
        if callee_name(c_) == "read_block" and c_.get("args"):
            fp = path(c_["args"][0])
            if fp:
                flags.add(ir.path_str(fp))
    if len(flags) != 1:
        return None, "no single end-of-input flag handed to read_block() in the loop"
    flag = list(flags)[0]
    g_use = None
    for st, g, loops_ in ir.guarded_statements(fn["body"], env):
        if st.get("k") in ("IfCond", "LoopHead", "SwitchHead"):
            continue
        if any(x is use for x in ir.walk(st)):
            g_use = g
    if g_use is None:
        return None, "statement not found"
    at_end = reached_when_flag(g_use, flag, True)
    before = reached_when_flag(g_use, flag, False)
    name = flag.split("#")[0][2:]
    if at_end is False and before is not False:
        return True, "reached only while `%s` is false" % name
    if flag not in repr(g_use):
        return False, "reached without a test of `%s`: the empty block that read_block() returns together with %s=true is handled like a block of the file" % (name, name)
    if before is False:
        return False, "reached only when `%s` is TRUE: every block of the file is dropped and only the empty block returned at the end of the input is handled" % name
    return None, "the test of `%s` in front of it is not understood: %s" % (name, show_f(g_use))


def check(run):
    from . import C08 as _C08
    _C08.check_tables_append(run, "R18.6")      # merged blocks keep their tables entry for entry
    from . import C05 as _C05
    _C05.check_block_protocol(run, "R18.8")     # every block of an input reaches the tools: read_block's end-of-blocks protocol
    facts = run.facts
    mg = tool_main(facts, "cdns_merge.cpp", "R18.1")
    env = Env(mg["body"])
    # ---------------- R18.1
    subs = assoc_subscripts(mg)
    n = 0
    for node, is_write, g, parents, loops in subs:
        # outermost subscript chain: block_indexes[input][idx]: consider the inner map access (args[0] is the map path)
        mp = path(node["args"][0])
        key = show(node["args"][1])
        inner_of_write = False
        # an inner [] that is the container operand of an outer [] which is written: block_indexes[input][i] = ...
        for p in reversed(parents):
            if p.get("k") == "OpCall" and p.get("op") == "[]" and p.get("args") and any(x is node for x in ir.walk(p["args"][0])):
                # find whether p is written
                for n2, w2, g2, par2, l2 in subs:
                    if n2 is p and w2:
                        inner_of_write = True
        if is_write or inner_of_write:
            continue
        n += 1
        mname = path_str(mp) if mp else show(node["args"][0])
        # membership test: a dominating guard that mentions find(key)/count(key)/contains on the same map, or an
        # iterator obtained by find() being compared with end()
        atoms = conjuncts(g)
        member = False
        for a in atoms:
            t = repr(a)
            if (".find(" in t or ".count(" in t or ".contains(" in t) and mname.split("#")[0].split(":")[-1] in t:
                member = True
        run.ob("R18.1", "cdns_merge:%s[%s]:read" % (mname, key), member, mg, node.get("l", 0),
               "read of the remapping is dominated by a membership test" if member else
               "%s[%s] is read through operator[], which silently inserts a default entry: an input that pass 1 rejected (version mismatch, "
               "unreadable preamble) is still merged in pass 2, its blocks remapped to parameter index 0" % (mname, key))
    # the remap lookup itself: every lookup on the right-hand side of the remap assignment is membership-safe
    for lp, rhs, node in consumption.assignment_targets(ir.stmts(mg["body"])):
        if not (lp and lp[-1] == "block_parameters_index"):
            continue
        g_here = ("T",)
        for st, g, loops in ir.guarded_statements_lc(mg["body"], env):
            if st.get("k") not in ("IfCond", "LoopHead", "SwitchHead") and any(x is node for x in ir.walk(st)):
                g_here = g
        # a local that only names the looked-up value (`index_t n = found->second; .. = n;`) is that value
        for _ in range(3):
            u_ = unwrap_all_casts(rhs)
            if isinstance(u_, dict) and u_.get("k") == "Ref" and u_.get("d") == "local" and env.defs.get(path(u_)[0]) is not None:
                rhs = env.defs[path(u_)[0]]
            else:
                break
        safe = None
        why = ""
        has_sub = any(x.get("k") == "OpCall" and x.get("op") == "[]" and ((x.get("callee") or {}).get("cls") or "").startswith(("std::unordered_map<", "std::map<")) for x in ir.walk(rhs))
        ats = [c for c in ir.calls_in(rhs) if callee_name(c) == "at"]
        iters = [x for x in ir.walk(rhs) if x.get("k") == "OpCall" and x.get("op") == "->" and x.get("args") and path(x["args"][0]) and path(x["args"][0])[0].startswith("l:")]
        if has_sub:
            safe = None     # judged by the operator[] obligations above
        elif ats:
            safe, why = True, "lookup through .at() throws for a missing key"
        elif iters:
            it = path(iters[0]["args"][0])[0]
            d = env.defs.get(it)
            from_find = d is not None and any(callee_name(c) == "find" for c in ir.calls_in(d))
            tested = any(a[0] == "cmp" and a[1] == "!=" and (it in a[2] or it in a[3]) and "end()" in (a[2] + a[3]) for a in conjuncts(g_here))
            safe = from_find and tested
            why = "lookup through find(); the iterator is compared with end() before it is used" if safe else \
                "iterator %s is dereferenced without a dominating comparison with end()" % it.split("#")[0][2:]
        else:
            safe, why = None, "remap right-hand side %s not understood" % show(rhs)
        if not has_sub:
            run.ob("R18.1", "cdns_merge:remap-lookup", safe, mg, node.get("l", 0), why)
        # which half of the looked-up pair the block gets: `it->second` is the index in the output, `it->first` the key the
        # lookup was made with (the block's old index: the "remap" would leave every block as it was)
        halves = set()
        for x in ir.walk(rhs):
            if x.get("k") == "Member" and x.get("n") in ("first", "second"):
                b_ = unwrap_all_casts(x.get("base"))
                if isinstance(b_, dict) and ((b_.get("k") == "OpCall" and b_.get("op") in ("->", "*") and any(b_ is y for y in iters + [z for z in ir.walk(rhs) if z.get("k") == "OpCall" and z.get("op") == "*"]))):
                    halves.add(x["n"])
        if halves:
            okh = halves == {"second"}
            run.ob("R18.2", "cdns_merge:remap-takes-mapped-value", okh, mg, node.get("l", 0),
                   "the block gets the mapped value (->second) of the looked-up pair" if okh else
                   "the block's parameter index is set from ->first of the looked-up pair, which is the key the lookup was made with - the "
                   "index the block had in its source file: no block is remapped and blocks of later inputs refer to parameters of the first")
    run.floor("R18.1", 1, "remapping reads in pass 2")
    # pass 1 registers every parameter set of an input: a counted loop that writes the remapping starts at index 0
    for lp_ in ir.walk(mg["body"]):
        if lp_.get("k") != "For" or not isinstance(lp_.get("init"), dict):
            continue
        writes_map = any(w2 and "block_parameters" in show(lp_.get("cond") if lp_.get("cond") is not None else lp_.get("c") or {}) for n2, w2, g2, par2, l2 in subs if any(n2 is y for y in ir.walk(lp_.get("body"))))
        if not writes_map:
            continue
        iv_ = [v_ for d_ in ir.walk(lp_["init"]) if d_.get("k") == "Decl" for v_ in d_.get("vars", []) if v_.get("init") is not None]
        if len(iv_) == 1 and const_value(iv_[0]["init"]) is not None:
            z_ = const_value(iv_[0]["init"]) == 0
            run.ob("R18.1", "cdns_merge:registration-from-index-0@%s" % lp_.get("l", 0), z_, mg, lp_.get("l", 0),
                   "every parameter set of the input, from index 0 on, gets an entry in the remapping" if z_ else
                   "the loop over the input's parameter sets starts at %s: blocks that use the sets before that have no entry in the remapping and "
                   "the whole input is dropped with \"Unknown block parameters index\"" % const_value(iv_[0]["init"]))

    # ---------------- R18.2 remap before write
    order = {id(x): i for i, x in enumerate(ir.walk(mg["body"]))}
    wcalls = [c for c in ir.calls_in(mg["body"]) if callee_qn(c) == "CDNS::CdnsExporter::write_block" and c.get("args")]
    remaps = [(lp, rhs, node) for lp, rhs, node in consumption.assignment_targets(ir.stmts(mg["body"]))
              if lp and lp[-1] == "block_parameters_index"]
    ok = len(wcalls) == 1 and len(remaps) == 1 and order[id(remaps[0][2])] < order[id(wcalls[0])] and \
        path(wcalls[0]["args"][0]) == remaps[0][0][:1]
    run.ob("R18.2", "cdns_merge:remap-before-write", ok, mg, (remaps[0][2] if remaps else mg).get("l", mg["line"]) if remaps else mg["line"],
           "the block's parameter index is rewritten before the block is written" if ok else
           "block_parameters_index must be remapped on the same block object before writer.write_block(block)")
    if wcalls:
        wl = [l_ for l_ in ir.walk(mg["body"]) if l_.get("k") in ("While", "For", "Do") and any(x is wcalls[0] for x in ir.walk(l_))
              and any(callee_name(c_) == "read_block" for c_ in ir.calls_in(l_))]
        if wl:
            v_, t_ = end_protocol(mg, env, wl[-1], wcalls[0])
            run.ob("R18.2", "cdns_merge:write-only-before-end", v_, mg, wcalls[0].get("l", 0), "write_block(block) is " + t_)
    if remaps:
        # the rewrite happens for every block that is written: the only condition it may sit under is the success of the
        # lookup (a block that omits its index means index 0 and needs the new value as much as any other)
        g_remap = None
        for st, g, loops_ in ir.guarded_statements(mg["body"], env):
            if st.get("k") in ("IfCond", "LoopHead", "SwitchHead"):
                continue
            if any(x is remaps[0][2] for x in ir.walk(st)):
                g_remap = g
        g_write = None
        for st, g, loops_ in ir.guarded_statements(mg["body"], env):
            if st.get("k") in ("IfCond", "LoopHead", "SwitchHead"):
                continue
            if wcalls and any(x is wcalls[0] for x in ir.walk(st)):
                g_write = g
        extra = [a for a in conjuncts(g_remap or ("T",)) if a not in conjuncts(g_write or ("T",)) and "end()" not in repr(a)]
        run.ob("R18.2", "cdns_merge:remap-unconditional", not extra, mg, remaps[0][2].get("l", 0),
               "every block that is written gets its new parameter index" if not extra else
               "the index is rewritten only when %s, but the block is written regardless: a block for which that does not hold (e.g. one "
               "that omits the optional index, meaning 0) keeps an index of its source file" % " && ".join(show_f(a) for a in extra))
        txt = show(remaps[0][1])
        seen_ = set()
        work_ = [remaps[0][1]]
        while work_ and len(seen_) < 8:
            e_ = work_.pop(0)
            for x in ir.walk(e_):
                if x.get("k") == "Ref" and x.get("d") == "local" and path(x)[0] not in seen_:
                    seen_.add(path(x)[0])
                    d = env.defs.get(path(x)[0])
                    if d is not None:
                        txt += " <- " + show(d)
                        work_.append(d)
        ok = "get_block_parameters_index()" in txt
        if not ok:
            # a local that some call receives as an argument may be an output parameter of that call: where its value comes
            # from is then inside the callee
            outs = set()
            for x in ir.walk(remaps[0][1]):
                if x.get("k") == "Ref" and x.get("d") == "local":
                    for c in ir.calls_in(mg["body"]):
                        if any(isinstance(unwrap(a), dict) and unwrap(a).get("k") == "Ref" and unwrap(a).get("id") == x.get("id") for a in c.get("args", [])) \
                                and (c.get("callee") or {}).get("inrepo"):
                            outs.add(callee_name(c))
            if outs:
                ok = None
                txt += " (filled in by %s, which is not expanded)" % "/".join(sorted(outs))
            # a local with several stores: which one reaches the remap is a question of paths, not decided here
            multi = [lp_ for lp_, r_, n_ in consumption.assignment_targets(ir.stmts(mg["body"])) if lp_ and len(lp_) == 1 and lp_[0] in seen_]
            if multi and ok is False:
                ok = None
                txt += " (%s is assigned in several places)" % multi[0][0].split("#")[0][2:]
        run.ob("R18.2", "cdns_merge:remap-keyed-by-old-index", ok, mg, remaps[0][2].get("l", 0),
               "the new index is looked up by the block's own old index" if ok else "remapping is keyed by %s" % txt)
    run.floor("R18.2", 3, "remap obligations")

    # ---------------- R18.3 error isolation and version check
    loops = []
    from .. import emission as _em
    for n_, parents in ir.walk_with_parents(mg["body"]):
        if n_.get("k") in ("RangeFor", "For"):
            rp_ = _em.loop_range_path(n_, env)          # range-for, or `for (i = 0; i < c.size(); ++i)`
            if rp_ and rp_[0].startswith("l:input_files"):
                loops.append((n_, [p for p in parents if p.get("k") == "Try"]))
    ok = len(loops) == 2
    for i, (lp, outer_try) in enumerate(loops):
        body = ir.stmts(lp.get("body"))
        if outer_try:
            run.ob("R18.3", "cdns_merge:pass%d:per-input-try" % (i + 1), False, mg, lp.get("l", 0),
                   "the loop over the inputs of pass %d sits inside a try block: the first failing input ends the pass for all following inputs" % (i + 1))
            continue
        tries = [s for s in body if s.get("k") == "Try"]
        reader_in_try = bool(tries) and any(callee_qn(c) == "CDNS::CdnsReader::CdnsReader" for c in ir.calls_in(tries[0].get("body")))
        handler_ok = bool(tries) and any(h.get("t") in ("std::exception &", "const std::exception &", "...") and
                                          not any(x.get("k") in ("Throw", "Return", "Break") for x in ir.walk(h.get("body"))) and
                                          not any(callee_name(c) in ("exit", "abort") for c in ir.calls_in(h.get("body")))
                                          for h in tries[0].get("handlers", []))
        outside = [c for s in body if s.get("k") != "Try" for c in ir.calls_in(s) if (callee_qn(c) or "").startswith("CDNS::CdnsReader")]
        good = len(tries) == 1 and reader_in_try and handler_ok and not outside
        run.ob("R18.3", "cdns_merge:pass%d:per-input-try" % (i + 1), good, mg, lp.get("l", 0),
               "each input is opened and processed inside its own try; the handler reports and continues with the next input" if good else
               "pass %d does not isolate inputs: a failing input must not disturb the others (try inside the loop body, handler must not leave the loop)" % (i + 1))
    if not ok:
        run.ob("R18.3", "cdns_merge:two-passes", None, mg, mg["line"], "expected two passes over the inputs, found %d" % len(loops))
    # the reference preamble (and with it the version every other input is compared with) comes from the first input that
    # could be *read*: the assignment sits under a flag that is lowered right there, not under the position in the list
    if loops:
        p1 = loops[0][0]
        ref_assign = None
        for st, g, loops_ in ir.guarded_statements(p1.get("body"), env):
            if st.get("k") in ("IfCond", "LoopHead", "SwitchHead"):
                continue
            for lp_, rhs_, node_ in consumption.assignment_targets([st]):
                rp_ = path(rhs_)
                if lp_ and len(lp_) == 1 and lp_[0].startswith("l:") and rp_ and rp_[-1] == "m_file_preamble":
                    ref_assign = (lp_, node_, g)
        if ref_assign is None:
            # built aside: `FilePreamble merged = first ? reader.m_file_preamble : file_preamble;` committed later
            for st, g, loops_ in ir.guarded_statements(p1.get("body"), env):
                if st.get("k") == "Decl" and len(st.get("vars", [])) == 1 and st["vars"][0].get("init") is not None:
                    iu = unwrap_all_casts(st["vars"][0]["init"])
                    while isinstance(iu, dict) and iu.get("k") == "Construct" and len(iu.get("args", [])) == 1:
                        iu = unwrap_all_casts(iu["args"][0])
                    if isinstance(iu, dict) and iu.get("k") == "Cond":
                        for br, neg in ((iu.get("a"), False), (iu.get("b"), True)):
                            rp_ = path(unwrap_all_casts(br)) if isinstance(br, dict) else None
                            if rp_ and rp_[-1] == "m_file_preamble":
                                cc = cond(iu["c"], env)
                                ref_assign = (("l:%s#%s" % (st["vars"][0]["n"], st["vars"][0]["id"]),), st, ir.f_and(g, ir.f_not(cc) if neg else cc))
        if ref_assign is None:
            # member by member: the three version members of a local preamble from reader.m_file_preamble, under one guard
            mw = {}
            for st, g, loops_ in ir.guarded_statements(p1.get("body"), env):
                if st.get("k") in ("IfCond", "LoopHead", "SwitchHead"):
                    continue
                for lp_, rhs_, node_ in consumption.assignment_targets([st]):
                    rp_ = path(unwrap_all_casts(rhs_))
                    if lp_ and len(lp_) == 2 and lp_[0].startswith("l:") and rp_ and len(rp_) >= 2 and rp_[-2] == "m_file_preamble" and rp_[-1] == lp_[1] and \
                            lp_[1] in ("m_major_format_version", "m_minor_format_version", "m_private_version"):
                        mw[lp_[1]] = (lp_[:1], node_, g)
            if len(mw) == 3 and len(set(repr(v[2]) for v in mw.values())) == 1 and len(set(v[0] for v in mw.values())) == 1:
                ref_assign = mw["m_private_version"]
            elif mw:
                run.ob("R18.3", "cdns_merge:reference-from-first-readable", False, mg, list(mw.values())[0][1].get("l", 0),
                       "the reference preamble is taken member by member from the first readable input, but only %s: the members left out keep "
                       "the library defaults, and later inputs are compared with (and the output announces) those" % ", ".join(sorted(mw)))
                ref_assign = "reported"
        if ref_assign == "reported":
            pass
        elif ref_assign is None:
            run.ob("R18.3", "cdns_merge:reference-from-first-readable", None, mg, p1.get("l", 0), "no `preamble = reader.m_file_preamble` found in the first pass")
        else:
            lp_, node_, g = ref_assign
            order_ = {id(x): i for i, x in enumerate(ir.walk(mg["body"]))}
            flags = [a for a in conjuncts(g) if a[0] == "nz" and str(a[1]).startswith("l:")]
            positional = [a for a in conjuncts(g) if a[0] == "cmp" or (a[0] == "not" and a[1][0] == "nz" and not str(a[1][1]).startswith("l:"))]
            lowered = False
            for st, g2, loops_ in ir.guarded_statements(p1.get("body"), env):
                if st.get("k") in ("IfCond", "LoopHead", "SwitchHead"):
                    continue
                for lp2, rhs2, node2 in consumption.assignment_targets([st]):
                    if flags and lp2 == (str(flags[0][1]),) and const_value(rhs2) in (0, False) and \
                            (g2 == g or (order_[id(node2)] > order_[id(node_)] and all(a in conjuncts(g) for a in conjuncts(g2) if a != ("T",)))):
                        # in the same place, or later on every path that took the reference (its guard is implied)
                        lowered = True
            okf = len(flags) == 1 and lowered and not [a for a in conjuncts(g) if a[0] == "cmp"]
            run.ob("R18.3", "cdns_merge:reference-from-first-readable", okf, mg, node_.get("l", 0),
                   "the reference preamble is taken from the first input that opens, under a flag lowered in the same place" if okf else
                   "the reference preamble is taken when %s: if that input cannot be read, every later input is compared with a default "
                   "preamble (and rejected or mis-versioned) instead of with the first readable input" % show_f(g))
    # version check: all three members compared, mismatch throws
    ver = None
    for n_ in ir.walk(mg["body"]):
        if n_.get("k") == "If" and any(x.get("k") == "Throw" for x in ir.walk(n_.get("then"))):
            txt = show(n_["cond"])
            if "m_major_format_version" in txt:
                ver = (n_, txt)
    ok = ver is not None and rejects_any_difference(ir.cond(ver[0]["cond"], env))
    run.ob("R18.3", "cdns_merge:version-check", ok, mg, ver[0].get("l", 0) if ver else mg["line"],
           "major, minor and private version are all compared; any mismatch rejects the input" if ok else
           "the version check must reject an input when any of major/minor/private version differs")
    # registration happens only after the version check (in the else branch / after the throw)
    run.floor("R18.3", 4, "isolation obligations")

    # ---------------- R18.4 itemcount
    ic = tool_main(facts, "cdns_itemcount.cpp", "R18.4")
    env = Env(ic["body"])
    # after normalisation the block's getters are their container sizes: a count is identified by its container
    want = {"qr_count": "m_query_responses", "aec_count": "m_address_event_counts", "mm_count": "m_malformed_messages"}
    getter_of = {"m_query_responses": "get_qr_count", "m_address_event_counts": "get_aec_count", "m_malformed_messages": "get_mm_count"}

    def counted(e):
        """container whose size the expression is (directly or through the block's getter), else None"""
        u = unwrap_all_casts(e)
        sp = ir.size_call_path(u)
        if sp is not None and sp[-1] in getter_of:
            return sp[-1]
        for cont, g_ in getter_of.items():
            if isinstance(u, dict) and callee_name(u) == g_:
                return cont
        return None
    loopw = [n_ for n_ in ir.walk(ic["body"]) if n_.get("k") == "While"]
    # the total of a container is the local that accumulates (+=) that container's size; names are the tool's business
    acc_of = {}
    all_adds = []
    for n_ in ir.walk(ic["body"]):
        if n_.get("k") == "Bin" and n_.get("op") == "+=" and counted(n_["rhs"]) is not None:
            p = path(n_["lhs"])
            if p and len(p) == 1 and p[0].startswith("l:"):
                all_adds.append((p[0], counted(n_["rhs"]), n_))
    # a total starts at zero: the declaration of every local that takes such a sum is initialised with the constant 0
    for tv_ in sorted(set(a[0] for a in all_adds)):
        for d_ in ir.walk(ic["body"]):
            if d_.get("k") == "Decl":
                for v_ in d_.get("vars", []):
                    if "l:%s#%s" % (v_.get("n"), v_.get("id")) == tv_ and v_.get("init") is not None and const_value(v_["init"]) is not None:
                        z_ = const_value(v_["init"]) == 0
                        run.ob("R18.4", "cdns_itemcount:%s:starts-at-zero" % tv_.split("#")[0][2:], z_, ic, d_.get("l", 0),
                               "the total starts at 0" if z_ else "the total starts at %s: the reported count is off by that for every file" % const_value(v_["init"]))
    total_var = {}
    if not all_adds:
        # totals kept some other way (a struct with its own operator+=, std::accumulate, ...): not understood, no verdict
        run.ob("R18.4", "cdns_itemcount:totals", None, ic, ic["line"],
               "no `total += <size of an item container>` statement found: the way the totals are accumulated is not understood")
    for var, cont in (want.items() if all_adds else []):
        getter = getter_of[cont]
        mine = [a for a in all_adds if a[1] == cont]
        adds = [a[2] for a in mine]
        # exactly one total takes this container's size, and that total takes nothing else
        ok = len(mine) == 1 and len([a for a in all_adds if a[0] == mine[0][0]]) == 1
        if ok:
            total_var[mine[0][0]] = var
        run.ob("R18.4", "cdns_itemcount:%s+=%s" % (var, getter), ok, ic, adds[0].get("l", 0) if adds else ic["line"],
               "one total accumulates the size of %s of every block" % cont if ok else
               "the size of %s is accumulated into %s; each total must accumulate exactly its own container" % (
                   cont, [a[0].split("#")[0][2:] for a in mine] or "nothing"))
        # accumulation happens after the `if (end) break;`
        lw = [l_ for l_ in loopw if adds and any(x is adds[0] for x in ir.walk(l_))]
        if adds and lw:
            body = ir.stmts(lw[0].get("body"))
            # the end-of-input flag is whatever local is handed (by reference) to read_block()
            flags = set()
            for c_ in ir.calls_in(lw[0]):
                if callee_name(c_) == "read_block" and c_.get("args"):
                    fp = path(c_["args"][0])
                    if fp:
                        flags.add(ir.path_str(fp))
            idx_end = [i for i, s in enumerate(body) if s.get("k") == "If" and any(ir.path_str(path(x) or ()) in flags for x in ir.walk(s["cond"]) if x.get("k") == "Ref")
                       and any(x.get("k") == "Break" for x in ir.walk(s))]
            idx_add = [i for i, s in enumerate(body) if any(x is adds[0] for x in ir.walk(s))]
            ok2 = bool(idx_end) and bool(idx_add) and idx_end[0] < idx_add[0]
            v_, t_ = end_protocol(ic, env, lw[0], adds[0])
            if v_ is not None:
                ok2 = v_ and ok2 if v_ else False
            run.ob("R18.4", "cdns_itemcount:%s:after-end-test" % var, ok2, ic, adds[0].get("l", 0),
                   "only blocks returned before end-of-file are counted" if ok2 else "the count is " + t_ if v_ is False else "the empty block returned with end=true is counted too")
    # the printed totals are those variables; per-block lines print the three counts in the order qr, aec, mm
    prints = []
    for st, g, loops_ in ir.guarded_statements(ic["body"], env):
        if st.get("k") in ("IfCond", "LoopHead", "SwitchHead"):
            continue
        txt = show(st)
        if "std::cout" in txt:
            refs = [ir.path_str(path(x) or ()) for x in ir.walk(st) if x.get("k") == "Ref" and x.get("d") == "local"]
            for var, cont in want.items():
                if (cont + ".size()") in txt or getter_of[cont] in txt:
                    prints.append((var, g, st.get("l", 0), txt))
                elif any(total_var.get(r_) == var for r_ in refs):
                    prints.append((var, g, st.get("l", 0), txt))
    labels_ok = True
    bad = []
    for name, g, line, txt in prints:
        for lab, name_ in (("Query/Response", "qr_count"), ("Address Event", "aec_count"), ("Malformed", "mm_count")):
            if lab in txt and name != name_:
                labels_ok = False
                bad.append((line, lab, name))
    run.ob("R18.4", "cdns_itemcount:labels-match-values", (labels_ok and len(prints) >= 12) if (all_adds and prints) or bad else None, ic, bad[0][0] if bad else ic["line"],
           "every printed line shows the counter it is labelled with (%d print sites)" % len(prints) if labels_ok else
           "line labelled '%s' prints %s" % (bad[0][1], bad[0][2]))
    # plain (non-pretty) output order: qr, aec, mm
    seqs = {}
    for name, g, line, txt in prints:
        seqs.setdefault(show_f(g), []).append(name)
    order_ok = all(list(v) == ["qr_count", "aec_count", "mm_count"] for v in seqs.values())
    run.ob("R18.4", "cdns_itemcount:order-qr-aec-mm", order_ok, ic, ic["line"],
           "each output mode prints Q/R, address events, malformed messages in this order" if order_ok else "print order per mode: %s" % list(seqs.values()))
    run.floor("R18.4", 8, "itemcount obligations")

    # ---------------- R18.5 time preservation
    C01.check_time_reference(run, "R18.5")
    # the merge re-derives every offset from what CdnsBlockRead::read reconstructed: that reconstruction must not depend
    # on the order of the block map's members or on an omitted (defaulted) parameters index
    from . import C08
    br = facts.fn("CDNS::CdnsBlockRead::read", rule="R18.5")
    C08.check_order_independence(run, "R18.5", {br["key"]: consumption.analyse_full(br, facts)})
    run.floors.pop("R18.5", None)
    run.floor("R18.5", 8, "time-preservation obligations")
    check_memberwise_equality(run, "R18.7")


def memberwise_equality(facts, f):
    """None if f is not a member-wise comparison of two objects of one record type; else (record name, missing members, compared)"""
    ps = f.get("params") or []
    if len(ps) != 2 or f.get("ret") != "bool" or f.get("body") is None:
        return None
    ts = [(p_.get("t") or "").replace("const ", "").replace("&", "").strip() for p_ in ps]
    if ts[0] != ts[1] or ts[0] not in facts.records or not all((p_.get("t") or "").rstrip().endswith("&") for p_ in ps):
        return None
    rec = facts.records[ts[0]]
    fields = [x["n"] for x in rec.get("fields", [])]
    if len(fields) < 2:
        return None
    # only comparisons, conjunction / disjunction / negation, returns, and calls of other comparisons of this kind
    for n in ir.walk(f["body"]):
        k = n.get("k")
        if k in ("While", "For", "Do", "RangeFor", "Throw", "New", "Lambda", "Try"):
            return None
        if k == "Bin" and (n.get("op") or "").endswith("=") and n.get("op") not in ("==", "!=", "<=", ">="):
            return None
    roots = [("p:%s" % p_["n"],) for p_ in ps]
    used = []
    for r_ in roots:
        out = set()
        for n in ir.walk(f["body"]):
            if n.get("k") == "Member" and n.get("field"):
                q_ = path(n)
                if q_ and q_[:1] == r_ and len(q_) > 1:
                    out.add(q_[1])
        used.append(out)
    if not used[0] or not used[1]:
        return None
    if not any(n.get("k") in ("Bin", "OpCall") and n.get("op") in ("==", "!=") for n in ir.walk(f["body"])) and \
            not any(n.get("k") in ("Call", "MCall") for n in ir.walk(f["body"])):
        return None
    missing = [m for m in fields if m not in used[0] or m not in used[1]]
    return ts[0], missing, sorted(used[0] & used[1])


def check_memberwise_equality(run, rule):
    """R18.7: where the tools decide that two values read from different inputs are "the same" (to share one entry of the output)
    by comparing them member by member, every data member takes part - else inputs that differ only in the member left out are
    merged into one and the output states for one of them what only the other said."""
    facts = run.facts
    bad = memberwise_equality(facts, facts.control("r18_6_same_params", rule))
    good = memberwise_equality(facts, facts.control("r18_6_same_params_all", rule))
    if not bad or bad[1] != ["c"] or not good or good[1]:
        raise AnalysisBroken(rule, "positive control verif_rc::r18_6_same_params: expected member c reported missing and the full comparison accepted, found %s / %s" % (bad, good))
    n = 0
    everything = list(facts.functions.values()) + list(getattr(facts, "absorbed", {}).values())
    tool_fns = [f for f in everything if "/src/bin/" in (f.get("file") or "") and f.get("body_raw") is not None]
    # Which comparisons *identify* values: those whose answer makes a loop over existing entries return the entry found, in a
    # function that adds the value otherwise (find-or-add) - and the comparisons these are built from.  A predicate that looks at
    # a few members for another purpose (`same_format_version`) is not one of them.
    def calls_of(fn):
        return [c for c in ir.walk(fn.get("body_raw") or {}) if c.get("k") in ("Call", "MCall") and isinstance(c.get("callee"), dict)]
    roots = set()
    for g in tool_fns:
        for lp in ir.walk(g["body_raw"]):
            if lp.get("k") not in ("For", "While", "RangeFor"):
                continue
            for ifn in ir.walk(lp.get("body") or {}):
                if ifn.get("k") == "If" and any(x.get("k") == "Return" and x.get("e") is not None for x in ir.walk(ifn.get("then") or {})):
                    for c in ir.walk(ifn.get("cond") or {}):
                        if c.get("k") in ("Call", "MCall") and isinstance(c.get("callee"), dict):
                            if any(callee_name(a_).startswith("add") for a_ in calls_of(g) if callee_name(a_)):
                                roots.add(callee_qn(c))
    closure = set(roots)
    changed = True
    while changed:
        changed = False
        for g in tool_fns:
            if g["qn"] in closure:
                for c in calls_of(g):
                    q_ = callee_qn(c)
                    if q_ and q_ not in closure and any(h_["qn"] == q_ for h_ in tool_fns):
                        closure.add(q_)
                        changed = True
    for f in sorted(everything, key=lambda x: x["key"]):
        if "/src/bin/" not in (f.get("file") or "") or f["qn"] not in closure:
            continue
        r = memberwise_equality(facts, f)
        if r is None:
            continue
        n += 1
        recn, missing, compared = r
        run.ob(rule, "%s:compares-every-member" % f["qn"].split("::")[-1], not missing, f, f["line"],
               "compares all %d members of %s" % (len(compared), recn.split("::")[-1]) if not missing else
               "%s treats two %s as the same without comparing member(s) %s: values that differ only there are merged into one entry, and the "
               "output states for one input what only the other said" % (f["qn"].split("::")[-1], recn.split("::")[-1], missing))
    run.info["memberwise_equalities_in_tools"] = n
