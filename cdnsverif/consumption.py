"""A4 consumption discipline of map/array readers and reader-side table extraction (for A5)."""
from . import ir
from .ir import (cond, f_and, f_not, f_or, conjuncts, path, path_str, unwrap, unwrap_all_casts, callee_name,
                 callee_qn, const_value, show, show_f, Env)

DEC = "CDNS::CdnsDecoder"
DEC_REF = "CDNS::CdnsDecoder &"

READ_KIND = {"read_unsigned": "UINT", "read_negative": "NEG", "read_integer": "INT", "read_bool": "BOOL",
             "read_bytestring": "BYTES", "read_textstring": "TEXT", "skip_item": "SKIP"}


def is_deserialiser_sig(f):
    return DEC_REF in f.get("sig", []) and f.get("cls") != DEC


def decoder_call(c):
    cal = c.get("callee") or {}
    if cal.get("cls") == DEC and c.get("k") == "MCall":
        return callee_name(c)
    return None


class Consume:
    """One item-consuming action inside a reader."""

    def __init__(self, kind, call, detail=None):
        self.kind = kind      # UINT/INT/BOOL/BYTES/TEXT/SKIP/STRUCT/ARRAY/NESTED
        self.call = call
        self.detail = detail  # struct class / lambda node / callee fn
        self.line = call.get("l", 0)


def open_coded_array_loops(node):
    """The body of CdnsDecoder::read_array written out by hand:

        bool indef; uint64_t length = dec.read_array_start(indef);  ...
        while (length > 0 || indef) { if (indef && dec.peek_type() == BREAK) { dec.read_break(); break; }  BODY;  length--; }

    -> [(while node, start call, [nodes of the loop's own bookkeeping], synthetic element callback {k: Lambda, body: BODY})]"""
    found = []
    starts = {}
    for n in ir.walk(node):
        if n.get("k") == "Decl":
            for v in n.get("vars", []):
                init = unwrap(v.get("init")) if v.get("init") is not None else None
                if isinstance(init, dict) and init.get("k") == "MCall" and decoder_call(init) == "read_array_start" and init.get("args") and "id" in v:
                    starts[v["id"]] = (init, ir.path(init["args"][0]))
    if not starts:
        return found
    for w in ir.walk(node):
        if w.get("k") != "While":
            continue
        c = unwrap(w.get("cond"))
        if not (isinstance(c, dict) and c.get("k") == "Bin" and c.get("op") == "||"):
            continue
        L = I = None
        for side in (c["lhs"], c["rhs"]):
            u = unwrap(side)
            if isinstance(u, dict) and u.get("k") == "Bin" and u.get("op") in (">", "!=") and const_value(u.get("rhs")) == 0 and \
                    unwrap(u["lhs"]).get("k") == "Ref" and unwrap(u["lhs"]).get("id") in starts:
                L = unwrap(u["lhs"]).get("id")
            elif isinstance(u, dict) and u.get("k") == "Ref":
                I = ir.path(u)
        if L is None or I is None or starts[L][1] != I:
            continue
        body = ir.stmts(w.get("body"))
        if len(body) < 3:
            continue
        first, last = unwrap(body[0]), unwrap(body[-1])
        ok_first = isinstance(first, dict) and first.get("k") == "If" and first.get("else") is None and \
            any(decoder_call(x) == "peek_type" for x in ir.walk(first.get("cond")) if x.get("k") == "MCall") and \
            any(ir.path(x) == I for x in ir.walk(first.get("cond")) if x.get("k") == "Ref") and \
            [decoder_call(x) for x in ir.walk(first.get("then")) if x.get("k") == "MCall"] == ["read_break"] and \
            any(x.get("k") == "Break" for x in ir.walk(first.get("then")))
        ok_last = isinstance(last, dict) and ((last.get("k") == "Un" and last.get("op") in ("post--", "pre--") and unwrap(last.get("e")).get("id") == L) or
                                              (last.get("k") == "Bin" and last.get("op") == "-=" and const_value(last.get("rhs")) == 1 and unwrap(last.get("lhs")).get("id") == L))
        if not (ok_first and ok_last):
            continue
        own = [x for x in ir.walk(first)] + [starts[L][0]]
        lam = {"k": "Lambda", "l": w.get("l"), "params": [], "body": {"k": "Block", "l": w.get("l"), "s": body[1:-1]}, "synthetic": True}
        found.append((w, starts[L][0], own, lam))
    return found


def consumes_in(node, facts, skip_lambdas=True):
    """Item-consuming calls inside node (not descending into lambda bodies)."""
    out = []
    loops = {}
    skip = set()
    for w, start, own, lam in (open_coded_array_loops(node) if isinstance(node, dict) else []):
        loops[id(w)] = lam
        skip |= set(id(x) for x in own)

    def rec(n):
        if not isinstance(n, dict):
            return
        k = n.get("k")
        if k == "Lambda" and skip_lambdas:
            return
        if id(n) in loops:
            # the element callback is the rest of the loop body: it is analysed like the lambda handed to read_array()
            out.append(Consume("ARRAY", n, loops[id(n)]))
            return
        if id(n) in skip:
            return
        if k == "MCall":
            dn = decoder_call(n)
            if dn in READ_KIND:
                out.append(Consume(READ_KIND[dn], n))
            elif dn == "read_array":
                lam = None
                for a in n.get("args", []):
                    for x in ir.walk(a):
                        if x.get("k") == "Lambda":
                            lam = x
                            break
                    if lam:
                        break
                out.append(Consume("ARRAY", n, lam))
            elif dn in ("read_map_start", "read_array_start", "read_break", "peek_type"):
                out.append(Consume("RAW:" + dn, n))
            else:
                cal = n.get("callee") or {}
                if cal.get("inrepo") and DEC_REF in cal.get("sig", []) and cal.get("cls") != DEC:
                    out.append(Consume("STRUCT", n, cal))
        elif k == "Call":
            cal = n.get("callee") or {}
            if cal.get("inrepo") and DEC_REF in cal.get("sig", []):
                out.append(Consume("STRUCT", n, cal))
        for c in ir.children(n):
            rec(c)

    rec(node)
    return out


def case_groups(switch):
    """[(labels, stmts, falls_through, line)] ; label = ('case', value, expr) or ('default',)"""
    body = ir.stmts(switch.get("body"))
    groups = []
    cur = None
    for s in body:
        n = s
        labels = []
        while isinstance(n, dict) and n.get("k") in ("Case", "Default"):
            if n["k"] == "Case":
                labels.append(("case", const_value(n.get("val")), n.get("val")))
            else:
                labels.append(("default",))
            line = n.get("l")
            n = n.get("sub")
        if labels:
            if cur is not None and not cur["stmts"]:
                # labels stacked through separate statements
                cur["labels"] += labels
                cur["stmts"].append(n)
            else:
                cur = {"labels": labels, "stmts": [n] if n is not None else [], "line": s.get("l")}
                groups.append(cur)
        else:
            if cur is None:
                cur = {"labels": [], "stmts": [], "line": s.get("l")}
                groups.append(cur)
            cur["stmts"].append(s)
    out = []
    for g in groups:
        falls = not any(ir.always_leaves(x) for x in g["stmts"])
        out.append((g["labels"], g["stmts"], falls, g["line"]))
    return out


class MapReader:
    def __init__(self, fn):
        self.fn = fn
        self.problems = []       # (code, line, text)
        self.unrecognised = []   # (line, text)
        self.rows = []           # dict(enum,name,keyval,kind,member,elem,flag,line,consume)
        self.has_default_skip = False
        self.loop = None
        self.flags_required = set()
        self.reset_first = None
        self.negative_labels = []
        self.ncases = 0


def _decl_of(fn, pathkey):
    for n in ir.walk(fn["body"]):
        if n.get("k") == "Decl":
            for v in n.get("vars", []):
                if "n" in v and "l:%s#%s" % (v["n"], v["id"]) == pathkey:
                    return v
    return None


def _split_container_loops(fn, top, length_key, indef_key, env, mr):
    """The two length forms handled by a loop each:

        if (!indef) { for (; length > 0; length--) BODY  [return;] }
        for (;;) { if (peek_type() == BREAK) { read_break(); break; }  BODY }          (or in the else branch)

    -> the statement list [break test] + BODY of the indefinite loop (problems recorded in mr) when the shape is recognised and
    both bodies are the same statements; None otherwise."""
    def shape(n):
        if isinstance(n, list):
            return [shape(x) for x in n]
        if not isinstance(n, dict):
            return n
        if n.get("k") == "Cast":
            return shape(n.get("e"))
        return {k: shape(v) for k, v in sorted(n.items()) if k not in ("l", "t", "tw", "cv", "from", "ck", "id")}
    sel = None
    for i, s_ in enumerate(top):
        if isinstance(s_, dict) and s_.get("k") == "If" and s_.get("condvar") is None:
            c = cond(s_["cond"], env)
            if c == ("not", ("nz", indef_key)):
                sel = (i, s_, s_.get("then"), s_.get("else"))
            elif c == ("nz", indef_key):
                sel = (i, s_, s_.get("else"), s_.get("then"))
            if sel:
                break
    if sel is None:
        return None
    i, ifn, definite, indefinite = sel
    dsts = [x for x in ir.stmts(definite) if isinstance(x, dict) and x.get("k") != "Null"] if definite is not None else []
    leaves = bool(dsts) and dsts[-1].get("k") == "Return" and dsts[-1].get("e") is None
    if leaves:
        dsts = dsts[:-1]
    if len(dsts) != 1 or dsts[0].get("k") not in ("For", "While"):
        return None
    L1 = dsts[0]
    if L1.get("cond") is None or cond(L1["cond"], env) != ("nz", length_key):
        return None
    if indefinite is not None:
        ists = [x for x in ir.stmts(indefinite) if isinstance(x, dict) and x.get("k") != "Null"]
    elif leaves:
        ists = [x for x in top[i + 1:] if isinstance(x, dict) and x.get("k") not in ("Null",) and not (x.get("k") == "Return" and x.get("e") is None)]
    else:
        return None
    if len(ists) == 2 and ists[0].get("k") == "While" and ists[0].get("cond") is not None:
        # `while (peek_type() != BREAK) BODY;  read_break();` - the stop code is looked for before every element and consumed
        # after the loop: the same thing as the test-first loop
        u2 = unwrap(ists[1])
        cw = unwrap_all_casts(ists[0]["cond"])
        if isinstance(u2, dict) and u2.get("k") == "MCall" and decoder_call(u2) == "read_break" and isinstance(cw, dict) and \
                cw.get("k") == "Bin" and cw.get("op") == "!=":
            sides = [unwrap_all_casts(cw["lhs"]), unwrap_all_casts(cw["rhs"])]
            if any(isinstance(x, dict) and decoder_call(x) == "peek_type" for x in sides) and \
                    any(isinstance(x, dict) and x.get("d") == "enumconst" and x.get("enum") == "CDNS::CborType" for x in sides):
                test = {"k": "If", "l": ists[0].get("l"), "synthetic": True,
                        "cond": {"k": "Bin", "op": "==", "t": "bool", "l": cw.get("l"), "lhs": cw["lhs"], "rhs": cw["rhs"]},
                        "then": {"k": "Block", "l": ists[1].get("l"), "s": [ists[1], {"k": "Break", "l": ists[1].get("l")}]}}
                b1w = [x for x in ir.stmts(L1.get("body")) if isinstance(x, dict) and x.get("k") != "Null"]
                hdr_w = L1.get("k") == "For" and L1.get("inc") is not None
                b2w = [x for x in ir.stmts(ists[0].get("body")) if isinstance(x, dict) and x.get("k") != "Null"]

                def is_dec_w(n):
                    u = unwrap(n)
                    return isinstance(u, dict) and ((u.get("k") == "Un" and u.get("op") in ("post--", "pre--") and path_str(path(u["e"]) or ()) == length_key))
                if not hdr_w and len([x for x in b1w if is_dec_w(x)]) != 1:
                    mr.problems.append(("length", L1.get("l", 0), "length must be decremented exactly once per iteration of the counted loop"))
                b1w = [x for x in b1w if not is_dec_w(x)]
                if hdr_w and not is_dec_w(L1["inc"]):
                    return None
                if shape(b2w) != shape(b1w) or not b2w:
                    return None
                mr.loop = ists[0]
                mr.split = (ifn, L1, ists[0])
                return [test] + b2w
        return None
    if len(ists) != 1 or ists[0].get("k") not in ("For", "While"):
        return None
    L2 = ists[0]
    c2 = cond(L2["cond"], env) if L2.get("cond") is not None else ("T",)
    if c2 not in (("T",), ("nz", indef_key)) or (L2.get("k") == "For" and (L2.get("init") is not None or L2.get("inc") is not None)):
        return None
    # the counted loop: one decrement per iteration
    b1 = [x for x in ir.stmts(L1.get("body")) if isinstance(x, dict) and x.get("k") != "Null"]

    def is_dec(n):
        u = unwrap(n)
        return isinstance(u, dict) and ((u.get("k") == "Un" and u.get("op") in ("post--", "pre--") and path_str(path(u["e"]) or ()) == length_key) or
                                        (u.get("k") == "Bin" and u.get("op") == "-=" and path_str(path(u["lhs"]) or ()) == length_key and const_value(u.get("rhs")) == 1))
    hdr = L1.get("k") == "For" and L1.get("inc") is not None and is_dec(L1["inc"])
    body_decs = [x for x in b1 if is_dec(x)]
    nested_decs = [n for x in b1 if not is_dec(x) for n in ir.walk(x) if is_dec(n)]
    if (hdr and (body_decs or nested_decs)) or (not hdr and (len(body_decs) != 1 or nested_decs)):
        mr.problems.append(("length", L1.get("l", 0), "length must be decremented exactly once per iteration of the counted loop"))
    if any(n.get("k") == "Continue" for x in b1 for n in ir.walk(x)) and not hdr:
        mr.problems.append(("length", L1.get("l", 0), "`continue` skips the length decrement"))
    b1 = [x for x in b1 if not is_dec(x)]
    b2 = [x for x in ir.stmts(L2.get("body")) if isinstance(x, dict) and x.get("k") != "Null"]
    if not b2:
        return None
    # the stop code is looked for before an element is read
    def is_break_test(st):
        if st.get("k") != "If" or st.get("else") is not None:
            return False
        cmps = []
        for n in ir.walk(st["cond"]):
            if n.get("k") == "Bin" and n.get("op") == "==":
                sides = [unwrap_all_casts(n["lhs"]), unwrap_all_casts(n["rhs"])]
                if any(isinstance(x, dict) and decoder_call(x) == "peek_type" for x in sides) and \
                        any(isinstance(x, dict) and x.get("d") == "enumconst" and x.get("enum") == "CDNS::CborType" for x in sides):
                    cmps.append(n)
        cj = [a for a in conjuncts(cond(st["cond"], env)) if a != ("nz", indef_key)]
        tb = ir.stmts(st["then"])
        calls = [decoder_call(x) for s_ in tb for x in ir.walk(s_) if x.get("k") == "MCall"]
        return len(cmps) == 1 and len(cj) == 1 and calls == ["read_break"] and bool(tb) and tb[-1].get("k") == "Break"
    tests = [x for x in b2 if is_break_test(x)]
    if len(tests) != 1:
        return None
    rest = [x for x in b2 if x is not tests[0]]
    if b2[0] is not tests[0]:
        mr.problems.append(("break", tests[0].get("l", 0), "in the indefinite-length loop the stop code is tested after an element was read: "
                            "an empty indefinite-length container has its break read as an element"))
    if shape(rest) != shape(b1):
        return None
    mr.loop = L2
    mr.split = (ifn, L1, L2)
    return [tests[0]] + rest


def loop_condition_ok(c, length_key, indef_key):
    """cond == (length != 0 || indef)"""
    want = f_or(("nz", length_key), ("nz", indef_key))
    return c == want


def break_check_ok(st, indef_key, env):
    """if (indef && peek_type()==BREAK) { read_break(); break; }"""
    if st.get("k") != "If" or st.get("else") is not None:
        return False, "first statement of the loop is not the break test"
    c = cond(st["cond"], env)
    cj = conjuncts(c)
    has_indef = ("nz", indef_key) in cj
    # the other conjunct compares peek_type() with a CborType enumerator (which one is decided by the
    # stop-code agreement rule R07.2 / R08.3 against peek_type's own contract)
    cmps = []
    for n in ir.walk(st["cond"]):
        if n.get("k") == "Bin" and n.get("op") == "==":
            sides = [unwrap_all_casts(n["lhs"]), unwrap_all_casts(n["rhs"])]
            pk = [x for x in sides if isinstance(x, dict) and decoder_call(x) == "peek_type"]
            en = [x for x in sides if isinstance(x, dict) and x.get("d") == "enumconst" and x.get("enum") == "CDNS::CborType"]
            if len(pk) == 1 and len(en) == 1:
                cmps.append(n)
    if not has_indef or len(cmps) != 1 or len(cj) != 2:
        return False, "break test is %s, expected `indef && peek_type() == CborType::BREAK`" % show_f(c)
    body = ir.stmts(st["then"])
    calls = [decoder_call(x) for s in body for x in ir.walk(s) if x.get("k") == "MCall"]
    if calls != ["read_break"] or not body or body[-1].get("k") != "Break":
        return False, "break branch must consume the stop code with read_break() and leave the loop"
    return True, ""


def analyse_map_reader(fn, facts, start_name="read_map_start"):
    mr = MapReader(fn)
    env = Env(fn["body"])
    top = ir.stmts(fn["body"])
    # reset / clear first
    for s in top[:3]:
        u = unwrap(s)
        if isinstance(u, dict) and u.get("k") == "MCall" and callee_name(u) in ("reset", "clear") and \
                isinstance(unwrap(u.get("recv")), dict) and unwrap(u.get("recv")).get("k") == "This":
            mr.reset_first = callee_name(u)
            break
    if mr.reset_first is None and fn.get("cls") and facts is not None and fn["cls"] in facts.records:
        # the same thing member by member: before the loop every data member receives a value that does not come from the input
        fields = [f_["n"] for f_ in facts.records[fn["cls"]].get("fields", [])]
        done = set()
        for s in top:
            if isinstance(s, dict) and s.get("k") in ("While", "For", "Do", "RangeFor"):
                break
            u = unwrap(s)
            if not isinstance(u, dict):
                continue
            tgt = rhs = None
            if u.get("k") == "Bin" and u.get("op") == "=":
                tgt, rhs = path(u.get("lhs")), u.get("rhs")
            elif u.get("k") == "OpCall" and u.get("op") == "=" and len(u.get("args", [])) == 2:
                tgt, rhs = path(u["args"][0]), u["args"][1]
            elif u.get("k") == "MCall" and callee_name(u) in ("clear", "reset") and not u.get("args"):
                tgt = path(u.get("recv"))
            if tgt and len(tgt) == 2 and tgt[0] == "this" and tgt[1] in fields and \
                    (rhs is None or not any(x.get("k") in ("MCall", "Call") and decoder_call(x) for x in ir.walk(rhs))):
                done.add(tgt[1])
        if fields and all(f_ in done for f_ in fields):
            mr.reset_first = "member-wise"
    # the start call and its variables
    starts = [c for c in ir.calls_in(fn["body"]) if decoder_call(c) == start_name]
    if len(starts) != 1:
        mr.unrecognised.append((fn["line"], "expected exactly one %s call, found %d" % (start_name, len(starts))))
        return mr
    sc = starts[0]
    indef_p = path(sc["args"][0]) if sc.get("args") else None
    length_key = None
    for n in ir.walk(fn["body"]):
        if n.get("k") == "Decl":
            for v in n.get("vars", []):
                if v.get("init") is not None and unwrap(v["init"]) is sc:
                    length_key = "l:%s#%s" % (v["n"], v["id"])
    if indef_p is None or length_key is None:
        mr.unrecognised.append((sc.get("l", 0), "length/indef variables of %s not found" % start_name))
        return mr
    indef_key = path_str(indef_p)
    # the loop
    loops = [s for s in top if s.get("k") in ("While", "For", "Do")]
    cand = []
    for l in loops:
        if l.get("cond") is None:
            continue
        c = cond(l["cond"], env)
        if ("nz", indef_key) in (c[1:] if c[0] == "or" else [c]) or length_key in repr(c):
            cand.append((l, c))
    if len(cand) != 1:
        sp = _split_container_loops(fn, top, length_key, indef_key, env, mr)
        if sp is not None:
            mr.length_key, mr.indef_key, mr.env = length_key, indef_key, env
            return mr, sp
        mr.unrecognised.append((fn["line"], "expected one loop over the container, found %d" % len(cand)))
        return mr
    loop, c = cand[0]
    mr.loop = loop
    if loop.get("k") == "Do":
        mr.problems.append(("loop", loop["l"], "do-while reads a member before testing the length (empty container mis-read)"))
    if not loop_condition_ok(c, length_key, indef_key):
        mr.problems.append(("loop", loop["l"], "loop condition is %s; both length forms need `length > 0 || indef`" % show_f(c)))
    body = ir.stmts(loop["body"])
    if not body:
        mr.unrecognised.append((loop["l"], "empty loop body"))
        return mr
    ok, why = break_check_ok(body[0], indef_key, env)
    if not ok:
        mr.problems.append(("break", body[0].get("l", loop["l"]), why))
    # decrement of length: exactly once per iteration, at loop-body level (or in the for header)
    decs = []
    for s in body:
        for n in ir.walk(s):
            if (n.get("k") == "Un" and n.get("op") in ("post--", "pre--") and path_str(path(n["e"]) or ()) == length_key) or \
               (n.get("k") == "Bin" and n.get("op") == "-=" and path_str(path(n["lhs"]) or ()) == length_key):
                decs.append((n, s))
    hdr_dec = False
    if loop.get("k") == "For" and loop.get("inc") is not None:
        for n in ir.walk(loop["inc"]):
            if n.get("k") == "Un" and n.get("op") in ("post--", "pre--") and path_str(path(n["e"]) or ()) == length_key:
                hdr_dec = True
    toplevel_decs = [d for d in decs if unwrap(d[1]) is d[0]]
    if hdr_dec:
        if decs:
            mr.problems.append(("length", decs[0][0]["l"], "length decremented both in the for header and in the body"))
    else:
        if len(decs) != 1 or len(toplevel_decs) != 1:
            mr.problems.append(("length", decs[0][0]["l"] if decs else loop["l"],
                                "length must be decremented exactly once per iteration at loop level (found %d decrement(s), %d at loop level)" % (len(decs), len(toplevel_decs))))
        for s in body:
            for n in ir.walk(s):
                if n.get("k") == "Continue":
                    mr.problems.append(("length", n["l"], "`continue` skips the length decrement"))
    mr.length_key, mr.indef_key, mr.env = length_key, indef_key, env
    return mr, body


def member_of(p):
    """First struct member named by a this-rooted path ('this','a','$','b') -> 'a'."""
    if p and p[0] == "this" and len(p) > 1:
        return p[1]
    return None


def assignment_targets(stmts_):
    """[(lhs path, rhs expr, node)] for `x = rhs` (built-in and operator= forms)."""
    out = []
    for s in stmts_:
        for n in ir.walk(s):
            if n.get("k") == "Lambda":
                continue
            if n.get("k") == "Bin" and n.get("op") == "=":
                out.append((path(n["lhs"]), n["rhs"], n))
            elif n.get("k") == "OpCall" and n.get("op") == "=" and len(n.get("args", [])) == 2:
                out.append((path(n["args"][0]), n["args"][1], n))
    return out


def contains(node, target):
    return any(x is target for x in ir.walk(node))


def lambda_element(lam, facts):
    """Element reader of a read_array lambda: (kind, member it is stored into, struct class) or None."""
    if lam is None:
        return None
    cons = consumes_in(lam.get("body"), facts)
    cons = [c for c in cons if not c.kind.startswith("RAW:")]
    if len(cons) != 1:
        return ("?", None, None, "element callback consumes %d items per call" % len(cons))
    c = cons[0]
    member = None
    cls = None
    # store target: vec.push_back(..) / table.add_value(..) / map[tmp] = ..
    for n in ir.walk(lam.get("body")):
        if n.get("k") == "MCall" and callee_name(n) in ("push_back", "emplace_back", "add_value", "add", "insert"):
            p = path(n.get("recv"))
            if p and p[0] == "this":
                member = member_of(p)
        if n.get("k") == "OpCall" and n.get("op") == "[]":
            p = path(n["args"][0]) if n.get("args") else None
            if p and p[0] == "this":
                member = member_of(p)
    if c.kind == "STRUCT":
        cls = (c.detail or {}).get("cls")
    return (c.kind, member, cls, None)


def list_fill(c, stmts_, env, row):
    """{'mode': 'in-place'|'via-local', 'cleared': bool, 'transfer_guard': formula} for an array-valued case arm."""
    lam = c.detail or {}
    local = None
    for n in ir.walk(lam.get("body") or {}):
        if n.get("k") == "MCall" and callee_name(n) in ("push_back", "emplace_back", "insert"):
            p = path(n.get("recv"))
            if p and len(p) == 1 and p[0].startswith("l:"):
                local = p[0]
    info = {"mode": "in-place", "cleared": False, "transfer_guard": None}
    order = {id(x): i for i, x in enumerate(ir.walk({"k": "Block", "s": stmts_}))}
    gs = list(ir.guarded_statements({"k": "Block", "s": list(stmts_)}, env))
    if local is None:
        member = row.get("member")
        for st, g, loops in gs:
            if st.get("k") in ("IfCond", "LoopHead", "SwitchHead"):
                continue
            for n in ir.walk(st):
                if n.get("k") == "MCall" and callee_name(n) == "clear" and not n.get("args"):
                    p = path(n.get("recv"))
                    if p and p[0] == "this" and member_of(p) == member and g == ("T",) and order.get(id(n), 0) < order.get(id(c.call), 1 << 30):
                        info["cleared"] = True
        return info
    info["mode"] = "via-local"
    info["local"] = local
    for st, g, loops in gs:
        if st.get("k") in ("IfCond", "LoopHead", "SwitchHead"):
            continue
        for n in ir.walk(st):
            tgt = None
            if n.get("k") == "MCall" and callee_name(n) == "swap" and n.get("args"):
                a, b = path(n.get("recv")), path(ir.unwrap_all_casts(n["args"][0]))
                if a and b and (b == (local,) or a == (local,)):
                    tgt = a if b == (local,) else b
            elif n.get("k") == "OpCall" and n.get("op") == "=" and len(n.get("args", [])) == 2:
                src = ir.unwrap_all_casts(n["args"][1])
                while isinstance(src, dict) and src.get("k") in ("Call", "Construct") and len(src.get("args", [])) == 1:
                    src = ir.unwrap_all_casts(src["args"][0])        # std::move(x), copy construction
                if path(src) == (local,):
                    tgt = path(n["args"][0])
            if tgt and tgt[0] == "this" and len(tgt) > 1:
                row["member"] = member_of(tgt)
                info["transfer_guard"] = g
                info["line"] = n.get("l", 0)
    return info


def analyse_full(fn, facts):
    """Full map-reader analysis incl. case rows. Returns MapReader."""
    r = analyse_map_reader(fn, facts)
    if isinstance(r, MapReader):
        return r
    mr, body = r
    env = mr.env
    switches = [s for s in body if s.get("k") == "Switch"]
    if len(switches) != 1:
        mr.unrecognised.append((mr.loop["l"], "expected one switch on the key per iteration, found %d" % len(switches)))
        return mr
    sw = switches[0]
    on = unwrap(sw["cond"])
    narrowed = None
    while isinstance(on, dict) and on.get("k") == "Cast":
        # a cast of the key is harmless only if it keeps all 64 bits
        t = on.get("t") or ""
        bits = {"long": 64, "unsigned long": 64, "long long": 64, "unsigned long long": 64}.get(t)
        if bits is None:
            en = facts.enums.get(t)
            bits = {"long": 64, "unsigned long": 64}.get(en["underlying"]) if en else None
        if bits != 64:
            narrowed = t
        on = unwrap(on.get("e"))
    key_decl = None
    if isinstance(on, dict) and on.get("k") == "Ref" and on.get("d") == "local":
        # `const int64_t key = dec.read_integer(); switch (key)`: a loop-level local, written nowhere else, read just
        # before the dispatch, is the key
        kkey = "l:%s#%s" % (on.get("n"), on.get("id"))
        for s_ in body:
            if s_.get("k") == "Decl" and len(s_.get("vars", [])) == 1 and s_["vars"][0].get("id") == on.get("id") and \
                    s_["vars"][0].get("init") is not None and kkey not in env.assigned and body.index(s_) < body.index(sw):
                ini = unwrap(s_["vars"][0]["init"])
                tv = (s_["vars"][0].get("t") or "").replace("const ", "")
                if tv not in ("long", "unsigned long", "long long", "unsigned long long"):
                    narrowed = tv
                while isinstance(ini, dict) and ini.get("k") == "Cast":
                    ini = unwrap(ini.get("e"))
                if isinstance(ini, dict) and decoder_call(ini) == "read_integer":
                    key_decl = s_
                    on = ini
    if not (isinstance(on, dict) and decoder_call(on) == "read_integer"):
        mr.problems.append(("key", sw["l"], "switch operand is %s; the key must be read with read_integer() exactly once per iteration" % show(sw["cond"])))
    elif narrowed:
        mr.problems.append(("key", sw["l"], "the 64-bit map key is converted to %s before the dispatch: an unknown key that equals a known key modulo the "
                            "narrower type is taken for that member instead of being skipped" % narrowed))
    # other item consumption at loop level outside the switch and the break test
    for s in body[1:]:
        if s is sw or s is key_decl:
            continue
        for c in consumes_in(s, facts):
            mr.problems.append(("extra", c.line, "item consumed outside the switch (%s)" % show(c.call)))
    flags_set = {}
    for labels, stmts_, falls, line in case_groups(sw):
        is_default = any(l[0] == "default" for l in labels)
        # the arm as a whole (an array loop written out by hand spans several statements: the start call and the loop)
        cons = consumes_in({"k": "Block", "s": list(stmts_)}, facts)
        real = [c for c in cons if not c.kind.startswith("RAW:")]
        raw = [c for c in cons if c.kind.startswith("RAW:")]
        lname = "default" if is_default else ",".join(str(l[1]) for l in labels if l[0] == "case")
        if falls:
            mr.problems.append(("fallthrough", line, "case %s does not end in break: control falls into the next case and a second item is consumed" % lname))
        if raw:
            mr.problems.append(("raw", raw[0].line, "case %s uses %s directly" % (lname, raw[0].kind[4:])))
        # exactly one consumption, unconditional
        if len(real) != 1:
            mr.problems.append(("consume", line, "case %s consumes %d items (must consume exactly one value per key)" % (lname, len(real))))
        else:
            c = real[0]
            # must not be under an if / loop inside the case
            cond_nested = False
            for s in stmts_:
                for n, parents in ir.walk_with_parents(s):
                    if n is c.call:
                        for p in parents:
                            if p.get("k") in ("If", "While", "For", "Do", "RangeFor", "Cond", "Switch"):
                                if p.get("k") == "If" and contains(p.get("cond"), c.call):
                                    continue
                                cond_nested = True
                            if p.get("k") == "Bin" and p.get("op") in ("&&", "||") and contains(p.get("rhs"), c.call):
                                cond_nested = True
            if cond_nested:
                mr.problems.append(("consume", c.line, "case %s consumes its value only conditionally" % lname))
        for s in stmts_:
            for n in ir.walk(s):
                if (n.get("k") == "Un" and n.get("op") in ("post--", "pre--") and path_str(path(n["e"]) or ()) == mr.length_key):
                    mr.problems.append(("length", n["l"], "case %s decrements the length itself" % lname))
        if is_default:
            mr.has_default_skip = len(real) == 1 and real[0].kind == "SKIP"
            if not mr.has_default_skip:
                mr.problems.append(("default", line, "default: must skip exactly one item with skip_item()"))
            continue
        mr.ncases += 1
        for l in labels:
            if l[0] != "case":
                continue
            er = ir.enum_ref(l[2])
            if l[1] is not None and l[1] < 0:
                mr.negative_labels.append((l[1], er[1] if er else "?", line))
            row = {"enum": er[0] if er else None, "name": er[1] if er else None, "keyval": l[1], "line": line,
                   "kind": None, "member": None, "elem": None, "cls": None, "flag": None, "consume": real[0] if len(real) == 1 else None,
                   "reads": set(), "writes": set()}
            if er is None:
                mr.unrecognised.append((line, "case label %s is not get_map_index(<enumerator>)" % show(l[2])))
            if len(real) == 1:
                c = real[0]
                row["kind"] = c.kind
                if c.kind == "STRUCT":
                    row["cls"] = (c.detail or {}).get("cls")
                    rp = path(c.call.get("recv")) if c.call.get("k") == "MCall" else None
                    if rp and rp[0] == "this" and len(rp) > 1:
                        row["member"] = member_of(rp)
                    elif rp and rp == ("this",):
                        row["member"] = "-"
                elif c.kind == "ARRAY":
                    el = lambda_element(c.detail, facts)
                    if el:
                        row["elem"], row["member"], row["cls"] = el[0], el[1], el[2]
                        if el[3]:
                            mr.problems.append(("consume", c.line, "case %s: %s" % (lname, el[3])))
                    # how the decoded list reaches the member: appended in place (after a clear?) or collected in a local
                    # and handed over afterwards (always, or only under a condition?)
                    row["list_fill"] = list_fill(c, stmts_, env, row)
                else:
                    for lp, rhs, node in assignment_targets(stmts_):
                        if contains(rhs, c.call) and lp:
                            row["member"] = member_of(lp)
                            row["lhs_path"] = lp
                            row["rhs"] = rhs
            # flags and member reads/writes
            for lp, rhs, node in assignment_targets(stmts_):
                if lp and len(lp) == 1 and lp[0].startswith("l:") and const_value(rhs) in (1, True):
                    row["flag"] = lp[0]
                    flags_set[lp[0]] = row
                if lp and lp[0] == "this" and len(lp) > 1:
                    row["writes"].add(lp[1])
            # reads that only size a capacity request (`v.reserve(min(n, limit))`) cannot change what is decoded
            hint_only = set()
            for s in stmts_:
                for n in ir.walk(s):
                    if n.get("k") == "MCall" and callee_name(n) == "reserve" and ((n.get("callee") or {}).get("cls") or "").startswith("std::"):
                        for a_ in n.get("args", []):
                            hint_only |= set(id(x) for x in ir.walk(a_))
            for s in stmts_:
                for n in ir.walk(s):
                    if id(n) in hint_only:
                        continue
                    if n.get("k") == "MCall" and callee_name(n) in ("clear", "read", "reset", "push_back"):
                        p = path(n.get("recv"))
                        if p and p[0] == "this" and len(p) > 1:
                            row["writes"].add(p[1])
                    if n.get("k") == "Member" and n.get("field"):
                        p = path(n)
                        if p and p[0] == "this" and len(p) > 1:
                            row["reads"].add(p[1])
            if row["member"] and row["member"] != "-":
                row["writes"].add(row["member"])
            mr.rows.append(row)
    # mandatory flags tested after the loop: if (!a || !b) throw
    top = ir.stmts(fn["body"])
    after = top[top.index(mr.loop) + 1:] if mr.loop in top else []
    for s in after:
        if s.get("k") == "If" and ir.leaves_function(s.get("then")):
            c = cond(s["cond"], None)
            parts = c[1:] if c[0] == "or" else [c]
            for p_ in parts:
                if p_[0] == "not" and p_[1][0] == "nz" and str(p_[1][1]) in flags_set:
                    mr.flags_required.add(str(p_[1][1]))
    mr.flags_set = flags_set
    return mr


def positional_reader(fn, facts):
    """Array reader that treats element p by position (Timestamp = [secs, ticks]).  Tabulates positions 0..3 of its loop:
    returns (info, rows) with rows[p] = ('member', name, reader call) | ('throw',) | ('other', text) and info =
    {'loop', 'counter', 'cond', 'break_ok'}; or (None, reason)."""
    from . import minieval
    env0 = Env(fn["body"])
    top = ir.stmts(fn["body"])
    loops = [s for s in top if s.get("k") in ("For", "While")]
    cb_form = None
    if not loops:
        # the array walked by CdnsDecoder::read_array with a callback that keeps the position in a captured counter
        for s_ in top:
            u_ = unwrap(s_)
            if isinstance(u_, dict) and u_.get("k") == "MCall" and decoder_call(u_) == "read_array":
                lam = None
                for a_ in u_.get("args", []):
                    for x_ in ir.walk(a_):
                        if x_.get("k") == "Lambda":
                            lam = x_
                            break
                if lam is not None:
                    cb_form = (u_, lam)
    if cb_form is not None:
        call, lam = cb_form
        body = ir.stmts(lam.get("body"))
        # the counter: a local declared before the call with initial value 0 that the callback increments
        cands = []
        for d_ in top:
            if d_.get("k") == "Decl":
                for v_ in d_.get("vars", []):
                    if "n" in v_ and v_.get("init") is not None and const_value(v_["init"]) == 0:
                        cands.append("l:%s#%s" % (v_["n"], v_["id"]))
        steps = 0
        counter = None
        for x_ in ir.walk(lam.get("body")):
            key_ = None
            if x_.get("k") == "Un" and x_.get("op") in ("post++", "pre++"):
                key_ = path_str(path(x_.get("e")) or ())
            elif x_.get("k") == "Bin" and x_.get("op") == "+=" and const_value(x_.get("rhs")) == 1:
                key_ = path_str(path(x_.get("lhs")) or ())
            if key_ in cands:
                counter = counter or key_
                if key_ == counter:
                    steps += 1
        if counter is None:
            return None, "read_array callback keeps no position counter"
        rows = {}
        ctx = {"counter": counter, "body": body}
        info = {"loop": call, "counter": counter, "cond": ("T",), "break_ok": True, "break_why": "read_array() looks for the stop code itself", "steps": steps}
        return _positional_rows(ctx, info, facts, env0)
    if len(loops) != 1:
        return None, "expected one loop over the array elements (found %d)" % len(loops)
    lp = loops[0]
    c = cond(lp["cond"], env0) if lp.get("cond") is not None else ("T",)
    parts = c[1:] if c[0] == "or" else [c]
    indef_keys = [str(p[1]) for p in parts if p[0] == "nz"]
    lens = [p for p in parts if p[0] == "cmp" and p[1] == "<"]
    if not indef_keys or not lens:
        return None, "loop condition %s is not `position < length || indef`" % show_f(c)
    counter = lens[0][2]
    body = ir.stmts(lp.get("body"))
    bok, bwhy = break_check_ok(body[0], indef_keys[0], env0) if body else (False, "empty body")
    # the position advances exactly once per iteration (for-header or a loop-level ++)
    steps = 0
    if lp["k"] == "For" and lp.get("inc") is not None:
        steps += len([x for x in ir.walk(lp["inc"]) if x.get("k") == "Un" and x.get("op") in ("post++", "pre++") and path_str(path(x.get("e")) or ()) == counter])
    for s_ in body:
        u_ = unwrap(s_)
        if u_.get("k") == "Un" and u_.get("op") in ("post++", "pre++") and path_str(path(u_.get("e")) or ()) == counter:
            steps += 1
        elif u_.get("k") == "Bin" and u_.get("op") == "+=" and path_str(path(u_.get("lhs")) or ()) == counter and const_value(u_.get("rhs")) == 1:
            steps += 1
    ctx = {"counter": counter, "indef": indef_keys[0], "body": body[1:] if bok else body}
    return _positional_rows(ctx, {"loop": lp, "counter": counter, "cond": c, "break_ok": bok, "break_why": bwhy, "steps": steps}, facts, env0)


def _positional_rows(ctx, info, facts, env0):
    from . import minieval
    rows = {}

    def walk_pos(stmts_, env, out):
        for s_ in stmts_:
            u_ = unwrap(s_)
            k_ = u_.get("k")
            if k_ == "Block":
                r = walk_pos(u_.get("s", []), env, out)
                if r:
                    return r
            elif k_ == "If":
                try:
                    t_ = minieval.ev(unwrap(u_["cond"]), env, facts.enums)
                except minieval.Unknown:
                    out.append(("other", "condition %s not decided by the position" % show(u_["cond"])[:50]))
                    return "stop"
                br = u_.get("then") if t_ else u_.get("else")
                if br is not None:
                    r = walk_pos(ir.stmts(br), env, out)
                    if r:
                        return r
            elif k_ == "Switch":
                try:
                    on = minieval.ev(unwrap(u_["cond"]), env, facts.enums)
                except minieval.Unknown:
                    out.append(("other", "switch operand not decided by the position"))
                    return "stop"
                hit = None
                dflt = None
                for labels, sts_, falls, line in case_groups(u_):
                    if any(l[0] == "case" and l[1] == on for l in labels):
                        hit = (sts_, falls)
                    if any(l[0] == "default" for l in labels):
                        dflt = (sts_, falls)
                sel = hit or dflt
                if sel is not None:
                    if sel[1]:
                        out.append(("other", "case falls through"))
                    r = walk_pos([x for x in sel[0] if x.get("k") != "Break"], env, out)
                    if r:
                        return r
            elif k_ == "Throw":
                out.append(("throw",))
                return "stop"
            elif k_ in ("Break", "Continue", "Return"):
                return "stop"
            else:
                for lp_, rhs, node in assignment_targets([s_]):
                    calls = [x for x in ir.walk(rhs) if decoder_call(x)]
                    if lp_ and lp_[0] == "this" and len(lp_) > 1 and calls:
                        out.append(("member", lp_[1], decoder_call(calls[0])))
                for cns in consumes_in(s_, facts):
                    if not any(o[0] == "member" for o in out) and not cns.kind.startswith("RAW:"):
                        out.append(("other", "element consumed without being stored (%s)" % show(cns.call)[:40]))
        return None
    for p in range(4):
        env = {ctx["counter"]: p}
        if ctx.get("indef"):
            env[ctx["indef"]] = 0
        out = []
        walk_pos(ctx["body"], env, out)
        rows[p] = out
    return info, rows

