"""Flattening of intermediate base classes (run once after extraction, before the normalisation).

A class B that sits between a root base and its leaves (it has an in-repo base itself) usually exists because code shared by
the leaves was moved up: a method body, a member, the member's initialisation.  The rules are phrased over the leaves
(`GzipCborOutputWriter::rotate_output`, the members of the writer, what its constructor installs), so every leaf C gets

  * the data members of B in front of its own (`inherited` = B),
  * a copy of every method of B it does not override, as `C::m` - virtual calls on `this` inside the copy are bound to C's
    final overriders (that is what runs when the object is a C),
  * the member initialisers of the B constructor its own constructors call, with B's constructor parameters replaced by the
    arguments written in C's initialiser list.

B's own functions stay in the program (marked `flattened`), the copies are marked `inherited_from`.  Root classes are not
flattened: their methods are analysed where they are."""
import copy
from . import ir


def _in_repo(facts, q):
    r = facts.records.get(q)
    return r is not None and (r.get("file") or "").startswith(facts.repo + "/src/")


def _bases(facts, q):
    r = facts.records.get(q) or {}
    return [b["t"] for b in r.get("bases", []) if _in_repo(facts, b["t"])]


def _is_intermediate(facts, q):
    return _in_repo(facts, q) and bool(_bases(facts, q))


def _own(facts, cls):
    return [f for f in facts.functions.values() if f.get("cls") == cls]


def _final_overrider(facts, cls, name, sig):
    """qualified name of the function `name(sig)` an object of class cls runs (own, else nearest base)."""
    seen = set()
    work = [cls]
    while work:
        c = work.pop(0)
        if c in seen:
            continue
        seen.add(c)
        for f in _own(facts, c):
            if f["qn"].split("::")[-1] == name and f["sig"] == sig and not f.get("inherited_from"):
                return c, f
        work.extend(_bases(facts, c))
    return None, None


def _subst_params(e, pmap):
    if isinstance(e, list):
        return [_subst_params(x, pmap) for x in e]
    if not isinstance(e, dict):
        return e
    if e.get("k") == "Ref" and e.get("d") == "param" and e.get("id") in pmap:
        return copy.deepcopy(pmap[e["id"]])
    return {k: (_subst_params(v, pmap) if isinstance(v, (dict, list)) else v) for k, v in e.items()}


def flatten(facts):
    done = 0
    leaves = [q for q in list(facts.records) if _in_repo(facts, q) and any(_is_intermediate(facts, b) for b in _bases(facts, q))]
    # bases before derived classes, so that a chain of intermediates accumulates
    leaves.sort(key=lambda q: len(_chain(facts, q)))
    for C in leaves:
        rec = facts.records[C]
        for B in _bases(facts, C):
            if not _is_intermediate(facts, B):
                continue
            brec = facts.records[B]
            # 1. members
            have = set(f["n"] for f in rec.get("fields", []))
            inh = []
            for fl in brec.get("fields", []):
                if fl["n"] not in have:
                    g = dict(fl)
                    g["inherited"] = B
                    inh.append(g)
            rec["fields"] = inh + rec.get("fields", [])
            # 2. methods
            own = set((f["qn"].split("::")[-1], tuple(f["sig"])) for f in _own(facts, C))
            for g in _own(facts, B):
                if g.get("ctor") or g.get("dtor") or g.get("body") is None or g.get("inherited_from"):
                    continue
                nm = g["qn"].split("::")[-1]
                if nm.startswith("operator=") or (nm, tuple(g["sig"])) in own:
                    continue
                g["flattened"] = True
                h = copy.deepcopy(g)
                h.pop("flattened", None)
                h["cls"] = C
                h["qn"] = "%s::%s" % (C, nm)
                h["key"] = g["key"].replace(B + "::", C + "::", 1) + "@inherited"
                h["inherited_from"] = B
                for n in ir.walk(h["body"]):
                    if n.get("k") == "MCall" and ir.unwrap(n.get("recv") or {}).get("k") == "This":
                        cal = n.get("callee") or {}
                        if cal.get("virtual") or cal.get("cls") in (B,) + tuple(_chain(facts, B)):
                            oc, of = _final_overrider(facts, C, (cal.get("qn") or "").split("::")[-1], cal.get("sig", []))
                            if of is not None and oc != cal.get("cls"):
                                cal2 = dict(cal)
                                cal2["cls"] = oc
                                cal2["qn"] = of["qn"]
                                cal2.pop("virtual", None)
                                n["callee"] = cal2
                                n.pop("virt", None)
                if h["key"] not in facts.functions:
                    facts.functions[h["key"]] = h
                    facts.by_qn.setdefault(h["qn"], []).append(h)
                    done += 1
            # 3. constructor initialisers
            for cf in _own(facts, C):
                if not cf.get("ctor"):
                    continue
                new_inits = []
                for i in cf.get("inits", []) or []:
                    new_inits.append(i)
                    if i.get("base") != B or not isinstance(i.get("init"), dict):
                        continue
                    init = ir.unwrap(i["init"])
                    cal = init.get("callee") or {}
                    cands = [g for g in _own(facts, B) if g.get("ctor") and g["sig"] == cal.get("sig", [])]
                    if len(cands) != 1:
                        continue
                    bc = cands[0]
                    pmap = {p["id"]: a for p, a in zip(bc.get("params", []), init.get("args", []))}
                    for bi in bc.get("inits", []) or []:
                        if bi.get("member") and bi.get("init") is not None:
                            new_inits.append({"member": bi["member"], "written": bi.get("written", True), "inherited_from": B,
                                              "init": _subst_params(bi["init"], pmap)})
                            done += 1
                    # the body of the base constructor runs before the leaf's own body
                    bbody = bc.get("body")
                    if isinstance(bbody, dict) and ir.stmts(bbody) and isinstance(cf.get("body"), dict) and not cf.get("base_body_from"):
                        pre = _subst_params(copy.deepcopy(bbody), pmap)
                        for n in ir.walk(pre):
                            # locals of the base constructor get ids of their own in the leaf
                            if n.get("k") == "Ref" and n.get("d") == "local" and isinstance(n.get("id"), int):
                                n["id"] += 700000
                            if n.get("k") == "Decl":
                                for v in n.get("vars", []):
                                    if isinstance(v.get("id"), int):
                                        v["id"] += 700000
                        if not any(x.get("k") == "Return" for x in ir.walk(pre)):
                            cf["body"] = {"k": "Block", "l": cf["body"].get("l"), "s": ir.stmts(pre) + ir.stmts(cf["body"])}
                            cf["base_body_from"] = B
                            done += 1
                cf["inits"] = new_inits
    return done


def _chain(facts, q, depth=0):
    out = []
    for b in _bases(facts, q):
        out.append(b)
        if depth < 6:
            out.extend(_chain(facts, b, depth + 1))
    return out
