"""A11 interval check for signed arithmetic, shifts and division.

Operand ranges come from source types under value-preserving casts, constants, A1 guards on the same
variable (comparisons with constants) and for-loop headers.  An operation whose result interval leaves its
(signed) type, a shift by an amount outside [0,width), or a division whose divisor interval contains 0
without a dominating non-zero guard is reported.  Unsigned arithmetic wraps (defined) and is not flagged."""
from . import ir
from .ir import path, path_str, unwrap, const_value, show, show_f, conjuncts, Env, int_key

BITS = {"bool": (1, False), "unsigned char": (8, False), "signed char": (8, True), "char": (8, True),
        "unsigned short": (16, False), "short": (16, True), "unsigned int": (32, False), "int": (32, True),
        "unsigned long": (64, False), "long": (64, True), "unsigned long long": (64, False), "long long": (64, True)}


def type_range(t, enums=None):
    t = (t or "").replace("const ", "")
    if t in BITS:
        b, s = BITS[t]
        if t == "bool":
            return (0, 1)
        return (-(1 << (b - 1)), (1 << (b - 1)) - 1) if s else (0, (1 << b) - 1)
    if enums and t in enums:
        return type_range(enums[t]["underlying"])
    return None


def is_signed(t):
    t = (t or "").replace("const ", "")
    return t in BITS and BITS[t][1]


def unwrap_keep_conversions(e, enums=None):
    """Like ir.unwrap, but an implicit conversion between integer types of different range is kept: its result is
    the converted value, not the operand."""
    while isinstance(e, dict):
        k = e.get("k")
        if k == "Cast" and e.get("style") == "implicit":
            a, b = type_range(e.get("from"), enums), type_range(e.get("t"), enums)
            if a is not None and b is not None and a != b:
                break
            e = e.get("e")
        elif k in ("DefaultArg", "DefaultInit", "StdInitList"):
            e = e.get("e")
        elif k == "Construct" and e.get("copymove") and len(e.get("args", [])) == 1:
            e = e["args"][0]
        else:
            break
    return e


def _num(s):
    try:
        return int(s)
    except (TypeError, ValueError):
        return None


class Ctx:
    def __init__(self, guard, env, enums, loops, assume=None):
        self.atoms = conjuncts(guard)
        self.guard = guard
        self.env = env
        self.enums = enums
        self.loops = loops
        self.assume = assume or {}    # key -> (lo, hi) stated preconditions

    def refine(self, key, lo, hi):
        lo0, hi0 = lo, hi
        if key in self.assume:
            a = self.assume[key]
            lo, hi = max(lo, a[0]), min(hi, a[1])
        for a in self.atoms:
            if a[0] == "cmp":
                op, l, r = a[1], a[2], a[3]
                if l == key and _num(r) is not None:
                    c = _num(r)
                    if op == "<":
                        hi = min(hi, c - 1)
                    elif op == "<=":
                        hi = min(hi, c)
                    elif op == "==":
                        lo, hi = max(lo, c), min(hi, c)
                if l == key and _num(r) is None and op == "<":
                    hi = min(hi, hi0 - 1)      # strictly below another value of a comparable type
                if r == key and _num(l) is None and op == "<":
                    lo = max(lo, lo0 + 1)
                if r == key and _num(l) is not None:
                    c = _num(l)
                    if op == "<":
                        lo = max(lo, c + 1)
                    elif op == "<=":
                        lo = max(lo, c)
                    elif op == "==":
                        lo, hi = max(lo, c), min(hi, c)
            elif a[0] == "nz" and a[1] == key:
                if lo == 0:
                    lo = 1
            elif a[0] == "not" and a[1][0] == "nz" and a[1][1] == key:
                lo, hi = 0, 0
        # for-loop variables
        for lp in self.loops:
            if lp.get("k") != "For" or lp.get("init") is None or lp["init"].get("k") != "Decl":
                continue
            for v in lp["init"].get("vars", []):
                if "n" not in v or ("l:%s#%s" % (v["n"], v["id"])) != key or v.get("init") is None:
                    continue
                inc = unwrap(lp.get("inc")) if lp.get("inc") is not None else None
                ir_ = rng(v["init"], Ctx(self.guard, self.env, self.enums, [l for l in self.loops if l is not lp], self.assume))
                if inc is not None and inc.get("k") == "Un" and path_str(path(inc.get("e")) or ()) == key and ir_ is not None:
                    if inc["op"] in ("post--", "pre--"):
                        hi = min(hi, ir_[1])
                    elif inc["op"] in ("post++", "pre++"):
                        lo = max(lo, ir_[0])
        return lo, hi


def rng(e, ctx):
    """Interval of an integer expression or None when its type is not an integer type."""
    e0 = e
    e = unwrap_keep_conversions(e, ctx.enums)
    if not isinstance(e, dict):
        return None
    cv = const_value(e0)
    if cv is not None and not isinstance(cv, str):
        return (int(cv), int(cv))
    k = e.get("k")
    tr = type_range(e.get("t"), ctx.enums)
    if k == "Cast":
        inner = rng(e.get("e"), ctx)
        if tr is None:
            return inner
        if inner is None:
            return tr
        if inner[0] >= tr[0] and inner[1] <= tr[1]:
            return inner
        # a conversion that does not preserve every value: the whole target type, unless a stated precondition
        # bounds this kind of conversion
        a = ctx.assume.get("cast:%s->%s" % ((e.get("from") or "").replace("const ", ""), (e.get("t") or "").replace("const ", "")))
        if a is not None:
            return (max(tr[0], a[0]), min(tr[1], a[1]))
        return tr
    if k == "Bin":
        op = e["op"]
        if op in ("==", "!=", "<", ">", "<=", ">=", "&&", "||"):
            return (0, 1)
        a, b = rng(e["lhs"], ctx), rng(e["rhs"], ctx)
        if a is None or b is None or tr is None:
            return tr
        r = None
        if op in ("+", "+="):
            r = (a[0] + b[0], a[1] + b[1])
        elif op in ("-", "-="):
            r = (a[0] - b[1], a[1] - b[0])
        elif op in ("*", "*="):
            c = [a[0] * b[0], a[0] * b[1], a[1] * b[0], a[1] * b[1]]
            r = (min(c), max(c))
        elif op == "<<" and b[0] >= 0 and b[1] < 128:
            r = (min(a[0] << b[0], a[0] << b[1]), max(a[1] << b[0], a[1] << b[1]))
        elif op == ">>" and b[0] >= 0 and a[0] >= 0:
            r = (a[0] >> min(b[1], 127), a[1] >> b[0])
        elif op == "&" and a[0] >= 0 and b[0] >= 0:
            r = (0, min(a[1], b[1]))
        elif op in ("/", "/=") and b[0] > 0 and a[0] >= 0:
            r = (a[0] // b[1], a[1] // b[0])
        elif op in ("%", "%=") and b[0] > 0 and a[0] >= 0:
            r = (0, b[1] - 1)
        if r is None:
            return tr
        if r[0] >= tr[0] and r[1] <= tr[1]:
            return r
        return tr
    if k == "Un":
        a = rng(e.get("e"), ctx)
        if e["op"] == "-" and a is not None and tr is not None:
            r = (-a[1], -a[0])
            return r if (r[0] >= tr[0] and r[1] <= tr[1]) else tr
        if e["op"] == "!":
            return (0, 1)
        return tr
    if k == "Cond":
        a, b = rng(e.get("a"), ctx), rng(e.get("b"), ctx)
        if a and b:
            return (min(a[0], b[0]), max(a[1], b[1]))
        return tr
    if k == "Call" and (e.get("callee") or {}).get("builtin") and (ir.callee_name(e) or "").startswith(("__builtin_clz", "__builtin_ctz", "__builtin_popcount", "__builtin_ffs")):
        return (0, 64)              # bit counts of an operand of at most 64 bits
    if tr is None:
        return None
    # variables / members / calls: type range refined by guards
    key = int_key(e, ctx.env)
    lo, hi = ctx.refine(key, tr[0], tr[1])
    # single-definition locals: range of the initialiser
    p = path(e)
    if p and len(p) == 1 and ctx.env is not None:
        d = ctx.env.definition(p)
        if d is not None:
            dg = getattr(ctx.env, "def_guard", {}).get(p[0], ("T",))
            dr = rng(d, Ctx(dg, ctx.env, ctx.enums, (), ctx.assume))
            if dr is not None:
                lo, hi = max(lo, dr[0]), min(hi, dr[1])
        elif hasattr(ctx.env, "monotone") and ctx.env.monotone(p[0]) is not None:
            # a counter that only ever steps one way stays on its initial value's side
            kind, d = ctx.env.monotone(p[0])
            dg = getattr(ctx.env, "def_guard", {}).get(p[0], ("T",))
            dr = rng(d, Ctx(dg, ctx.env, ctx.enums, (), ctx.assume))
            if dr is not None:
                if kind == "dec":
                    hi = min(hi, dr[1])
                else:
                    lo = max(lo, dr[0])
    return (lo, hi)


def check_function(fn, enums, assume=None):
    """Yield (node, ok, text) for every signed arithmetic / shift / division in fn."""
    env = Env(fn["body"])
    out = []
    seen = set()
    # the guard in force where each local is defined (a definition is evaluated under it)
    env.def_guard = {}
    for st, g, loops in ir.guarded_statements_lc(fn["body"], env):
        if st.get("k") == "Decl":
            for v in st.get("vars", []):
                if "n" in v:
                    env.def_guard["l:%s#%s" % (v["n"], v["id"])] = g
    for st, g, loops in ir.guarded_statements_lc(fn["body"], env):
        nodes = []
        if st.get("k") == "IfCond":
            nodes = list(ir.walk(st["cond"]))
        elif st.get("k") in ("LoopHead", "SwitchHead"):
            n = st["node"]
            nodes = list(ir.walk(n.get("cond"))) if n.get("cond") is not None else []
        else:
            nodes = list(ir.walk(st))
        ctx = Ctx(g, env, enums, loops, assume)
        for n in nodes:
            if id(n) in seen:
                continue
            k = n.get("k")
            if k == "Lambda":
                continue
            if k == "Bin" and n.get("op") in ("+", "-", "*", "+=", "-=", "*=", "<<", "/", "%", "/=", "%="):
                seen.add(id(n))
                t = n.get("comptype") or n.get("t")
                lt = (unwrap(n["lhs"]) or {}).get("t", "")
                if "*" in (t or "") or "*" in lt:
                    continue   # pointer arithmetic
                op = n["op"]
                a, b = rng(n["lhs"], ctx), rng(n["rhs"], ctx)
                tr = type_range(t, enums)
                if op in ("/", "%", "/=", "%="):
                    if b is None:
                        continue
                    ok = not (b[0] <= 0 <= b[1])
                    txt = "divisor %s is never zero here" % show(n["rhs"]) if ok else \
                        "division by %s whose range %s includes 0 without a dominating zero test" % (show(n["rhs"]), list(b))
                    if ok and is_signed(t) and a is not None and tr is not None and a[0] == tr[0] and b[0] <= -1 <= b[1]:
                        ok, txt = False, "signed division can overflow (minimum / -1)"
                    out.append((n, ok, txt))
                    continue
                if not is_signed(t) or tr is None:
                    continue
                if a is None or b is None:
                    continue
                if op == "<<":
                    w = BITS[(t or "").replace("const ", "")][0]
                    ok = b[0] >= 0 and b[1] < w and a[0] >= 0 and (a[1] << b[1]) <= tr[1]
                    out.append((n, ok, "shift of %s by %s stays inside %s" % (list(a), list(b), t) if ok else
                                "shift %s: left operand range %s, shift amount range %s — undefined when the amount is negative/too large or the result leaves %s" % (show(n), list(a), list(b), t)))
                    continue
                if op in ("+", "+="):
                    r = (a[0] + b[0], a[1] + b[1])
                elif op in ("-", "-="):
                    r = (a[0] - b[1], a[1] - b[0])
                else:
                    c = [a[0] * b[0], a[0] * b[1], a[1] * b[0], a[1] * b[1]]
                    r = (min(c), max(c))
                ok = r[0] >= tr[0] and r[1] <= tr[1]
                out.append((n, ok, "%s: result range %s fits %s" % (show(n)[:60], "[%d, %d]" % r, t) if ok else
                            "signed %s can overflow: operands %s %s %s give [%d, %d], outside %s — undefined behaviour" % (
                                show(n)[:70], "[%d, %d]" % a, op, "[%d, %d]" % b, r[0], r[1], t)))
            elif k == "Un" and n.get("op") in ("-", "pre++", "post++", "pre--", "post--") and is_signed(n.get("t")):
                seen.add(id(n))
                a = rng(n.get("e"), ctx)
                tr = type_range(n.get("t"), enums)
                if a is None or tr is None:
                    continue
                if const_value(n) is not None:
                    continue
                if n["op"] == "-":
                    ok = -a[1] >= tr[0] and -a[0] <= tr[1]
                elif n["op"] in ("pre++", "post++"):
                    ok = a[1] + 1 <= tr[1]
                else:
                    ok = a[0] - 1 >= tr[0]
                out.append((n, ok, "%s stays inside %s (operand %s)" % (show(n), n.get("t"), list(a)) if ok else
                            "signed %s can overflow: operand range [%d, %d] — undefined behaviour" % (show(n), a[0], a[1])))
    return out


def narrowing_conversions(fn, enums, assume=None):
    """Implicit integer conversions whose operand range does not fit the target type (value-changing, silent).
    Yields (node, from range, target type)."""
    env = Env(fn["body"])
    env.def_guard = {}
    out = []
    for st, g, loops in ir.guarded_statements_lc(fn["body"], env):
        nodes = list(ir.walk(st["cond"])) if st.get("k") == "IfCond" else ([] if st.get("k") in ("LoopHead", "SwitchHead") else list(ir.walk(st)))
        ctx = Ctx(g, env, enums, loops, assume)
        for n in nodes:
            if n.get("k") == "Cast" and n.get("style") == "implicit" and n.get("ck") == "IntegralCast":
                tr = type_range(n.get("t"), enums)
                inner = rng(n.get("e"), ctx)
                if tr is None or inner is None:
                    continue
                if inner[0] < tr[0] or inner[1] > tr[1]:
                    out.append((n, inner, (n.get("t") or "").replace("const ", "")))
        # the value of a return statement is converted to the function's return type
    return out
