#!/bin/sh
# usage: tool/scratch.sh <dir> <patch>   fresh copy of /repo's sources (no build output, no .git) with one patch applied
rm -rf "$1"; mkdir -p "$1"; (cd /repo && tar cf - --exclude=_build --exclude=.git .) | (cd "$1" && tar xf -); (cd "$1" && patch -s -p1 < "$2")
