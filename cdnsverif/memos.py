"""Validity-guarded memo members of a class.

A class may remember an earlier answer in a few private members next to a bool `valid` member (`bool m_memo_valid = false`):
every read of the remembered values happens only where the flag is known to be true.  Such members carry no content: with the
flag false the object behaves like one that was just built.  Rules that quantify over "every data member" (copying, clearing)
ask here which members are of this kind.

  flags(facts, cls)  ->  {flag member: set of members read only under that flag}

A member is a flag when it is a bool whose in-class initialiser is false and which is only ever tested (a conjunct of a
condition, possibly negated in an early-exit test) and assigned constants.  A member belongs to a flag when every read of it in
every function of the repository happens (a) in a later conjunct of an `&&` chain that tests the flag, (b) in the then-branch
of an `if` whose condition has the flag as a conjunct, or (c) after an `if (!flag ..) <leave>` in the same block.  The copy
operations of the class itself are not looked at (they transfer members one by one and are checked by their own rules)."""
from . import ir
from .ir import unwrap, unwrap_all_casts, walk


def _member_of_this(e, cls_fields):
    e = unwrap_all_casts(e)
    if isinstance(e, dict) and e.get("k") == "Member" and e.get("field") and e.get("n") in cls_fields:
        b = unwrap_all_casts(e.get("base"))
        if isinstance(b, dict) and b.get("k") == "This":
            return e["n"]
    return None


def _conj(e):
    """operands of a `&&` tree, left to right"""
    e0 = unwrap_all_casts(e)
    if isinstance(e0, dict) and e0.get("k") == "Bin" and e0.get("op") == "&&":
        return _conj(e0["lhs"]) + _conj(e0["rhs"])
    return [e]


def _disj(e):
    e0 = unwrap_all_casts(e)
    if isinstance(e0, dict) and e0.get("k") == "Bin" and e0.get("op") == "||":
        return _disj(e0["lhs"]) + _disj(e0["rhs"])
    return [e]


def flags(facts, cls):
    rec = facts.records.get(cls)
    if rec is None:
        return {}
    names = {f["n"] for f in rec.get("fields", [])}
    cand = set()
    for f in rec.get("fields", []):
        if (f.get("t") or "") == "bool" and f.get("init") is not None and ir.const_value(f["init"]) == 0:
            cand.add(f["n"])
    if not cand:
        return {}
    reads = {}          # member -> [set of flags known true at the read]
    bad_flag = set()

    def expr(e, known):
        """visit an expression; `known` = flags true here"""
        if isinstance(e, list):
            for x in e:
                expr(x, known)
            return
        if not isinstance(e, dict):
            return
        k = e.get("k")
        if k == "Lambda":
            expr(e.get("body"), set())
            return
        u = unwrap_all_casts(e)
        if isinstance(u, dict) and u.get("k") == "Bin" and u.get("op") == "&&":
            kn = set(known)
            for c in _conj(u):
                m = _member_of_this(c, cand)
                if m is not None:
                    kn.add(m)
                else:
                    expr(c, kn)
            return
        if isinstance(u, dict) and u.get("k") == "Bin" and u.get("op") == "||":
            kn = set(known)
            for c in _disj(u):
                c0 = unwrap_all_casts(c)
                if isinstance(c0, dict) and c0.get("k") == "Un" and c0.get("op") == "!" and _member_of_this(c0.get("e"), cand):
                    kn.add(_member_of_this(c0.get("e"), cand))      # the later operands are evaluated only when the flag is true
                else:
                    expr(c, kn)
            return
        if isinstance(u, dict) and u.get("k") == "Un" and u.get("op") == "!" and _member_of_this(u.get("e"), cand):
            return          # a test of the flag
        if isinstance(u, dict) and u.get("k") == "Bin" and u.get("op") == "=":
            m = _member_of_this(u.get("lhs"), names)
            if m is not None:
                if m in cand and ir.const_value(u.get("rhs")) is None:
                    bad_flag.add(m)
                expr(u.get("rhs"), known)
                return
        if isinstance(u, dict) and u.get("k") == "OpCall" and u.get("op") == "=" and len(u.get("args", [])) == 2:
            m = _member_of_this(u["args"][0], names)
            if m is not None and m not in cand:
                expr(u["args"][1], known)       # a class-type member assigned as a whole: a store, not a read
                return
        m = _member_of_this(u, names) if isinstance(u, dict) else None
        if m is not None:
            if m in cand:
                bad_flag.add(m)         # read outside a test
            else:
                reads.setdefault(m, []).append(frozenset(known))
            return
        if isinstance(u, dict) and u.get("k") == "Member" and u.get("field") and u.get("n") in names and u.get("cls") == cls:
            # the member of another object of the class
            if u["n"] in cand:
                bad_flag.add(u["n"])
            else:
                reads.setdefault(u["n"], []).append(frozenset())
        for c in ir.children(e):
            expr(c, known)

    def cond_flags(c):
        """(flags true when c holds, flags true when c fails)"""
        t, f = set(), set()
        for x in _conj(c):
            m = _member_of_this(x, cand)
            if m:
                t.add(m)
        for x in _disj(c):
            x0 = unwrap_all_casts(x)
            if isinstance(x0, dict) and x0.get("k") == "Un" and x0.get("op") == "!" and _member_of_this(x0.get("e"), cand):
                f.add(_member_of_this(x0.get("e"), cand))
        return t, f

    def stores_flag(n, m):
        for x in walk(n):
            if x.get("k") == "Bin" and x.get("op") == "=" and _member_of_this(x.get("lhs"), cand) == m:
                return True
            if x.get("k") in ("Call", "MCall"):
                cal = x.get("callee") or {}
                if cal.get("cls") == cls and not cal.get("const"):
                    return True
        return False

    def block(sts, known):
        known = set(known)
        for st in sts:
            known = stmt(st, known)
        return known

    def stmt(st, known):
        if not isinstance(st, dict):
            return known
        k = st.get("k")
        if k == "Block":
            return block(st.get("s", []), known)
        if k == "If":
            if st.get("init") is not None:
                stmt(st["init"], known) if isinstance(st["init"], dict) and st["init"].get("k") == "Decl" else expr(st["init"], known)
            c = st.get("cond")
            if _member_of_this(c, cand) is None:
                expr(c, known)
            t, f = cond_flags(c)
            kt = stmt(st.get("then"), known | t) if st.get("then") is not None else known | t
            ke = stmt(st.get("else"), known | f) if st.get("else") is not None else known | f
            if st.get("then") is not None and ir.always_leaves(st["then"]):
                return ke
            if st.get("else") is not None and ir.always_leaves(st["else"]):
                return kt
            return kt & ke
        if k in ("While", "For", "Do", "RangeFor", "Switch", "Try"):
            inner = {m for m in known if not stores_flag(st, m)}
            for key, v in st.items():
                if key in ("k", "l"):
                    continue
                if key == "handlers":
                    for h in v:
                        stmt(h.get("body"), set())
                elif key == "cases":
                    for c_ in v or []:
                        for key2, v2 in c_.items():
                            if isinstance(v2, dict) and v2.get("k") in ("Block",):
                                stmt(v2, inner)
                            elif isinstance(v2, list):
                                block([x for x in v2 if isinstance(x, dict)], inner)
                elif isinstance(v, dict) and v.get("k") in ("Block", "If", "Decl", "Return", "While", "For", "Do", "RangeFor", "Switch", "Try"):
                    stmt(v, inner)
                elif isinstance(v, (dict, list)):
                    expr(v, inner)
            return inner
        if k == "Decl":
            for v in st.get("vars", []):
                if v.get("init") is not None:
                    expr(v["init"], known)
            return {m for m in known if not stores_flag(st, m)}
        expr(st, known)
        return {m for m in known if not stores_flag(st, m)}

    for f in facts.functions.values():
        if f.get("body") is None or f["qn"].startswith("verif_"):
            continue
        if f.get("cls") == cls and (f.get("ctor") or f["qn"].endswith("::operator=")):
            continue
        touches = f.get("cls") == cls or any(x.get("k") == "Member" and x.get("cls") == cls and x.get("n") in names for x in walk(f["body"]))
        if not touches:
            continue
        if f.get("cls") == cls:
            block(ir.stmts(f["body"]), set())
        else:
            expr(f["body"], set())
    out = {}
    for v in cand - bad_flag:
        group = {m for m, rs in reads.items() if rs and all(v in r for r in rs)}
        if group:
            out[v] = group
    return out
