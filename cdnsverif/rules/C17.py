"""C17 Timestamp offsets are exact, invertible and never negative within a block (necessary conditions)."""
from .. import ir, ranges, minieval, consumption
from ..ir import (path, path_str, unwrap, unwrap_all_casts, callee_name, callee_qn, const_value, show, show_f, Env, conjuncts,
                  cond, f_and, f_or, f_not)
from ..facts import AnalysisBroken
from . import C01

META = {
    "level": "other",
    "rule_text": "R17.1 interval check of every signed operation / division in timestamp.cpp (under the property's own range "
                 "precondition for tick counts); R17.2 in add_time_offset every throw precedes every member write; R17.3 "
                 "operator< / operator<= evaluated over the 3x3 order abstraction of (secs, ticks) equal the lexicographic "
                 "order / its reflexive closure; R17.4 in the four add_* overloads that store a time the earliest-time update "
                 "(first record or ts < earliest) precedes the store, clear() resets it and the writer subtracts that member. R17.3 also requires that no helper on the way to a comparison converts a 64-bit quantity to a narrower type implicitly. R17.7: add_time_offset explored path by path in linear arithmetic (affine.py; T = the tick count computed first, comparisons split the cases): on every path that does not throw the tick local holds T + offset, and m_secs / m_ticks are set to that local / rate and % rate.",
    "explanation": "Range analysis, a finite order-abstraction table and ordering rules. Exactness of the tick difference and of "
                   "carry/borrow for all rates is numeric residue and is not decided.",
    "trusted_base": ["clang 14 AST and constant evaluation"],
    "assumptions": ["precondition of the property: secs*ticks_per_second+ticks < 2^63 for the operands of get_time_offset"],
}

TS = "CDNS::Timestamp"


def short(q):
    return q.replace("CDNS::", "")


def check_arith(run, rule):
    facts = run.facts
    fns = [f for f in facts.functions.values() if f.get("file", "").endswith("/src/timestamp.cpp") or
           (f.get("cls") == TS and f.get("file", "").endswith("/src/timestamp.h"))]
    if len(fns) < 6:
        raise AnalysisBroken(rule, "timestamp functions not found")
    n = 0
    INT64_MAX = (1 << 63) - 1
    for f in sorted(fns, key=lambda f: f["line"]):
        assume = {}
        notes = []
        if f["qn"].endswith("get_time_offset"):
            # an unsigned tick total converted to int64_t is in [0, 2^63) by the property's stated range
            assume["cast:unsigned long->long"] = (0, INT64_MAX)
            notes.append("tick totals")
        seen = {}
        for node, ok, txt in ranges.check_function(f, facts.enums, assume):
            n += 1
            base = "%s:%s" % (short(f["qn"]), show(node)[:50])
            seen[base] = seen.get(base, 0) + 1
            run.ob(rule, base if seen[base] == 1 else "%s#%d" % (base, seen[base]), ok, f, node.get("l", 0),
                   txt + ((" [precondition: %s in [0, 2^63)]" % ", ".join(notes)) if notes else ""))
        if f["qn"].endswith("add_time_offset") or f["qn"].endswith("get_time_offset"):
            # rate 0 is refused before any division
            env = Env(f["body"])
            divs = []
            for st, g, loops in ir.guarded_statements(f["body"], env):
                if st.get("k") in ("IfCond", "LoopHead", "SwitchHead"):
                    continue
                for x in ir.walk(st):
                    if x.get("k") == "Bin" and x.get("op") in ("/", "%", "/=", "%="):
                        divs.append((x, g))
            rate = "p:%s" % f["params"][1]["n"]
            refuse = ("not", ("nz", rate))
            refused = False
            late = []
            for st, g, loops in ir.guarded_statements(f["body"], env):
                if st.get("k") in ("IfCond", "LoopHead", "SwitchHead", "Decl"):
                    continue
                atoms = ir.conjuncts(g)
                if unwrap(st).get("k") == "Throw" and refuse in atoms:
                    refused = True
                    continue
                # everything else (member updates, the returned difference) happens with a non-zero rate only
                if ("nz", rate) not in atoms:
                    late.append(st.get("l", 0))
            ok = refused and not late
            run.ob(rule, "%s:rate-0-refused-first" % short(f["qn"]), ok, f, f["line"],
                   "tick rate 0 is refused by a throw and nothing else runs with rate 0" if ok else
                   ("no throw under ticks_per_second == 0" if not refused else
                    "statements at line(s) %s run before/without the ticks_per_second == 0 refusal" % sorted(set(late))))
    run.floor(rule, 5, "arithmetic obligations in timestamp.cpp")


def check_refusal_order(run, rule):
    facts = run.facts
    f = facts.fn("CDNS::Timestamp::add_time_offset", rule=rule)
    order = {}
    for i, n in enumerate(ir.walk(f["body"])):
        order[id(n)] = i
    throws = [n for n in ir.walk(f["body"]) if n.get("k") == "Throw"]
    writes = []
    for n in ir.walk(f["body"]):
        if n.get("k") == "Bin" and n.get("op", "").endswith("=") and n["op"] not in ("==", "!=", "<=", ">="):
            p = path(n["lhs"])
            if p and p[0] == "this" and len(p) == 2:
                writes.append(n)
    # a write followed (in source order) by a throw is harmless when it sits in a branch that leaves the function before the
    # throw can be reached (a fast path: `if (fits) { m_ticks += offset; return; }`)
    def leaves_before(w, t):
        for n_, parents in ir.walk_with_parents(f["body"]):
            if n_ is w:
                for a in reversed(parents):
                    if a.get("k") == "If":
                        for br in (a.get("then"), a.get("else")):
                            if br is not None and any(x is w for x in ir.walk(br)) and not any(x is t for x in ir.walk(br)) and \
                                    ir.always_leaves(br) and not any(x.get("k") == "Throw" and order[id(x)] > order[id(w)] for x in ir.walk(br)):
                                return True
                return False
        return False
    ok = bool(throws) and bool(writes) and all(order[id(t)] < order[id(w)] or leaves_before(w, t) for t in throws for w in writes)
    run.ob(rule, "add_time_offset:throws-before-writes", ok, f, (writes or [f])[0].get("l", f["line"]) if writes else f["line"],
           "every refusal (%d throw sites) precedes the first member write: a refused offset leaves the timestamp unchanged" % len(throws) if ok else
           "a member of the timestamp is written before a later throw: a refused offset leaves a half-updated timestamp")
    # the member writes are the last statements and compute secs = ticks / rate, ticks = ticks % rate
    assigned = {}
    for w in writes:
        assigned[path(w["lhs"])[1]] = unwrap(w["rhs"])
    ok = set(assigned) == {"m_secs", "m_ticks"} and \
        isinstance(unwrap_all_casts(assigned["m_secs"]), dict) and unwrap_all_casts(assigned["m_secs"]).get("op") == "/" and \
        isinstance(unwrap_all_casts(assigned["m_ticks"]), dict) and unwrap_all_casts(assigned["m_ticks"]).get("op") == "%"
    run.ob(rule, "add_time_offset:normalised-result", ok, f, f["line"],
           "result is re-normalised: secs = total / rate, ticks = total % rate" if ok else "m_secs/m_ticks are not written as total / rate and total % rate")
    run.floor(rule, 2, "refusal ordering")


def check_order_ops(run, rule):
    facts = run.facts
    cells = [(0, 1, "<"), (1, 1, "="), (1, 0, ">")]
    for opname, want in (("operator<", lambda s, t: s == "<" or (s == "=" and t == "<")),
                         ("operator<=", lambda s, t: s == "<" or (s == "=" and t in ("<", "=")))):
        f = facts.fn("CDNS::Timestamp::" + opname, rule=rule)
        rhs = "p:%s" % f["params"][0]["n"]
        # the function may touch the four values only through comparisons
        arith = [n for n in ir.walk(f["body"]) if n.get("k") == "Bin" and n.get("op") in ("+", "-", "*", "/", "%", "<<", ">>")]
        # helpers the operator goes through (a three-way compare(), ...): same restriction, and no silent narrowing of a
        # 64-bit quantity on the way to the comparison (a difference cut to int changes sign 2^31 seconds apart)
        from .. import callgraph as _cg
        cg_ = _cg.CallGraph(facts)
        helpers = [h_ for h_ in cg_.reachable([f]).values() if h_ is not f and h_.get("cls") == "CDNS::Timestamp"]
        lossy = []
        for h_ in [f] + helpers:
            for node_, inner_, tgt_ in ranges.narrowing_conversions(h_, facts.enums):
                lossy.append((h_, node_, inner_, tgt_))
        for h_ in helpers:
            arith += [n for n in ir.walk(h_["body"]) if n.get("k") == "Bin" and n.get("op") in ("+", "-", "*", "/", "%", "<<", ">>")]
        if lossy:
            h_, node_, inner_, tgt_ = lossy[0]
            run.ob(rule, "%s:no-lossy-conversion" % opname, False, h_, node_.get("l", 0),
                   "%s converts %s (range [%d, %d]) to %s on the way to the comparison: timestamps far enough apart compare in the wrong "
                   "order or as equal" % (short(h_["qn"]), show(node_.get("e"))[:60], inner_[0], inner_[1], tgt_))
            continue
        if arith:
            run.ob(rule, "%s:comparisons-only" % opname, None, f, arith[0].get("l", 0), "operator uses arithmetic; the order abstraction does not apply")
            continue
        bad = []
        for a, b, s in cells:
            for c, d, t in cells:
                env = {"this.m_secs": a, rhs + ".m_secs": b, "this.m_ticks": c, rhs + ".m_ticks": d}
                r = minieval.run_straightline(ir.stmts(f["body"]), dict(env), facts.enums)
                val = None
                if r[0] == "return":
                    try:
                        val = minieval.ev(unwrap(r[1]["e"]), env, facts.enums)
                    except minieval.Unknown:
                        val = None
                if val is None:
                    bad.append("secs%s ticks%s: not evaluable" % (s, t))
                elif bool(val) != want(s, t):
                    bad.append("secs %s, ticks %s -> %s" % (s, t, bool(val)))
        run.ob(rule, "%s:lexicographic-over-9-cells" % opname, not bad, f, f["line"],
               "equals the lexicographic order on (secs, ticks) in all 9 order cells" if not bad else
               "%s disagrees with the order of instants in cell(s): %s" % (opname, "; ".join(bad)))
    run.floor(rule, 2, "comparison operators")


def check_earliest(run, rule):
    facts = run.facts
    B = "CDNS::CdnsBlock::"
    opt = "const boost::optional<CDNS::BlockStatistics> &"
    overloads = [
        (B + "add_question_response_record", "const CDNS::GenericQueryResponse &", "m_query_responses", ("ts",)),
        (B + "add_question_response_record", "const CDNS::QueryResponse &", "m_query_responses", ("time_offset",)),
        (B + "add_malformed_message", "const CDNS::GenericMalformedMessage &", "m_malformed_messages", ("ts",)),
        (B + "add_malformed_message", "const CDNS::MalformedMessage &", "m_malformed_messages", ("time_offset",)),
    ]
    E = ("this", "m_block_preamble", "earliest_time")
    EK = path_str(E)
    empty_both = f_and(f_not(("nonempty", ("this", "m_malformed_messages"))), f_not(("nonempty", ("this", "m_query_responses"))))
    for qn, sig0, vec, tfield in overloads:
        f = ir.normal_path(facts.fn(qn, sig=[sig0, opt], rule=rule))     # (a guard that restores the old value while unwinding is not an update)
        tag = "%s(%s)" % (short(qn).split("::")[-1], short(sig0).replace("const ", "").replace(" &", ""))
        env = Env(f["body"])
        order = {}
        for i, n in enumerate(ir.walk(f["body"])):
            order[id(n)] = i
        prm = "p:%s" % f["params"][0]["n"]
        tpath = (prm,) + tfield
        upd = []
        stores = []
        for st, g, loops in ir.guarded_statements(f["body"], env):
            if st.get("k") in ("IfCond", "LoopHead", "SwitchHead"):
                continue
            for lp, rhs, node in consumption.assignment_targets([st]):
                if lp == E:
                    upd.append((node, g, rhs))
            for c in ir.calls_in(st):
                if callee_name(c) in ("push_back", "emplace_back") and path(c.get("recv")) == ("this", vec):
                    stores.append((c, g))
        if len(upd) == 0 and stores:
            # the update may live in a helper of the class: inline one level (guards of the helper rewritten to the caller's paths)
            for st, g, loops in ir.guarded_statements(f["body"], env):
                if st.get("k") in ("IfCond", "LoopHead", "SwitchHead"):
                    continue
                for c in ir.calls_in(st):
                    cal = c.get("callee") or {}
                    if cal.get("cls") != "CDNS::CdnsBlock" or c.get("k") != "MCall":
                        continue
                    hs = [h_ for h_ in facts.fns(cal.get("qn")) if h_["sig"] == cal.get("sig")]
                    if len(hs) != 1:
                        continue
                    h_ = hs[0]
                    henv = Env(h_["body"])
                    pmap = {}
                    for prm, a in zip(h_["params"], c.get("args", [])):
                        ap = path(a)
                        pmap["p:%s" % prm["n"]] = env.resolve_ref_path(ap) if ap else None
                    for st2, g2, loops2 in ir.guarded_statements(h_["body"], henv):
                        if st2.get("k") in ("IfCond", "LoopHead", "SwitchHead"):
                            continue
                        for lp2, rhs2, node2 in consumption.assignment_targets([st2]):
                            if lp2 == E:
                                rp2 = path(rhs2)
                                rhs_path = None
                                if rp2 and rp2[0] in pmap and pmap[rp2[0]] is not None:
                                    rhs_path = tuple(pmap[rp2[0]]) + tuple(rp2[1:])
                                gg = ir.f_and(g, ir.subst_formula(g2, pmap))
                                upd.append((c, gg, {"k": "PathRef", "p": rhs_path}))
        if len(upd) != 1 or not stores:
            run.ob(rule, tag + ":earliest-update", False if len(upd) == 0 else None, f, f["line"],
                   "no statement lowers m_block_preamble.earliest_time before the record is stored" if len(upd) == 0 else
                   "expected one earliest-time update and a store (found %d/%d)" % (len(upd), len(stores)))
            continue
        node, g, rhs = upd[0]
        rp = rhs.get("p") if isinstance(rhs, dict) and rhs.get("k") == "PathRef" else path(rhs)
        src_ok = rp is not None and tuple(x for x in rp if x != "$") == tpath
        # guard: present(T) && (both containers empty || T < earliest)
        atoms = conjuncts(g)
        present_ok = ("present", tpath) in atoms
        lt_forms = [("cmp", "<", path_str(tpath + ("$",)), EK), ("cmp", "<", path_str(tpath), EK)]
        disj = [a for a in atoms if a[0] == "or"]
        shape_ok = False
        why = ""
        for d in disj:
            parts = set(d[1:])
            has_lt = any(l in parts for l in lt_forms)
            has_first = empty_both in parts
            rest = parts - set(lt_forms) - {empty_both}
            if has_lt and has_first and not rest:
                shape_ok = True
            else:
                why = "condition is %s" % show_f(d)
        # what has to come before the store is the *test* (it asks whether the containers are still empty); the assignment itself
        # may follow the store when the test's outcome was put into a local in front of it
        test_at = order[id(node)]
        for n_, ps_ in ir.walk_with_parents(f["body"]):
            if n_ is node:
                for p_ in reversed(ps_):
                    if isinstance(p_, dict) and p_.get("k") == "If":
                        cu_ = ir.unwrap_all_casts(p_.get("cond"))
                        if isinstance(cu_, dict) and cu_.get("k") == "Ref" and cu_.get("d") == "local":
                            for d_ in ir.walk(f["body"]):
                                if d_.get("k") == "Decl" and any(v_.get("id") == cu_.get("id") and v_.get("n") == cu_.get("n") and v_.get("init") is not None
                                                                  for v_ in d_.get("vars", [])):
                                    test_at = min(test_at, order[id(d_)])
                        break
        before = all(test_at < order[id(c)] for c, _ in stores)
        ok = src_ok and present_ok and shape_ok and before
        run.ob(rule, tag + ":earliest-update", ok, f, node.get("l", 0),
               "earliest_time is lowered to the record's time when it is the first timed item or earlier, before the record is stored" if ok else
               "earliest-time bookkeeping is wrong: source ok=%s, present-test ok=%s, (first || ts < earliest) ok=%s %s, precedes store=%s — a stored offset can become negative" % (
                   src_ok, present_ok, shape_ok, why, before))
    cl = facts.fn(B + "clear", rule=rule)
    resets = [lp for lp, rhs, node in consumption.assignment_targets(ir.stmts(cl["body"])) if lp == E]
    run.ob(rule, "CdnsBlock::clear:earliest-reset", len(resets) == 1, cl, cl["line"], "clear() resets the earliest time")
    run.floor(rule, 5, "earliest-time obligations")


def check_offset_formula(run, rule):
    """R17.6 get_time_offset = (secs*rate + ticks) - (ref.secs*rate + ref.ticks), with the refusal of rate 0."""
    facts = run.facts
    f = facts.fn("CDNS::Timestamp::get_time_offset", rule=rule)
    env = Env(f["body"])
    ref = "p:%s" % f["params"][0]["n"]
    rate = "p:%s" % f["params"][1]["n"]
    rets = [n for n in ir.walk(f["body"]) if n.get("k") == "Return" and n.get("e") is not None]

    def total_of(e, root):
        """is e == root.m_secs * rate + root.m_ticks (operands in any order)?"""
        e = unwrap_all_casts(e)
        if isinstance(e, dict) and e.get("k") == "Ref":
            d = env.definition(path(e))
            if d is not None:
                return total_of(d, root)
        if not (isinstance(e, dict) and e.get("k") == "Bin" and e.get("op") == "+"):
            return False
        a, b = unwrap_all_casts(e["lhs"]), unwrap_all_casts(e["rhs"])
        for m, t in ((a, b), (b, a)):
            if isinstance(m, dict) and m.get("k") == "Bin" and m.get("op") == "*":
                ps = {path_str(path(unwrap_all_casts(m["lhs"])) or ()), path_str(path(unwrap_all_casts(m["rhs"])) or ())}
                if ps == {root + ".m_secs", rate} and path_str(path(t) or ()) == root + ".m_ticks":
                    return True
        return False
    ok = False
    why = "expected `return (secs*rate + ticks) - (reference.secs*rate + reference.ticks)`"
    # a shortcut `return 0` is the formula's value when its guard says the two timestamps are the same object or have equal
    # seconds and equal ticks: such returns need no further look
    def same_timestamp(g_):
        for alt in (g_[1:] if g_[0] == "or" else [g_]):
            at = conjuncts(alt)
            txt = repr(at)
            ident = any(a_[0] == "cmp" and a_[1] == "==" and "this" in (a_[2], a_[3]) and ref in a_[2] + a_[3] for a_ in at)
            eq_s = any(a_[0] == "cmp" and a_[1] == "==" and {a_[2], a_[3]} == {"this.m_secs", ref + ".m_secs"} for a_ in at)
            eq_t = any(a_[0] == "cmp" and a_[1] == "==" and {a_[2], a_[3]} == {"this.m_ticks", ref + ".m_ticks"} for a_ in at)
            if not (ident or (eq_s and eq_t)):
                return False
        return True
    shortcut = []
    for st_, g_, loops_ in ir.guarded_statements(f["body"], env):
        if st_.get("k") == "Return" and const_value(st_.get("e")) == 0:
            core = [a_ for a_ in conjuncts(g_) if a_ != ("nz", rate)]
            disj = [a_ for a_ in core if a_[0] == "or"]
            if (len(core) == 1 and disj and same_timestamp(disj[0])) or (core and not disj and same_timestamp(ir.f_and(*core))):
                shortcut.append(st_)
    rets = [r_ for r_ in rets if not any(r_ is s_ for s_ in shortcut)]
    if len(rets) == 1:
        e = unwrap_all_casts(rets[0]["e"])
        if isinstance(e, dict) and e.get("k") == "Bin" and e.get("op") == "-":
            l_this, r_ref = total_of(e["lhs"], "this"), total_of(e["rhs"], ref)
            l_ref, r_this = total_of(e["lhs"], ref), total_of(e["rhs"], "this")
            if l_this and r_ref:
                ok = True
            elif l_ref and r_this:
                why = "the offset is computed as reference - this (sign reversed)"
            else:
                why = "the operands of the difference are not the two tick totals (secs*rate + ticks)"
    run.ob(rule, "get_time_offset:this-minus-reference", ok, f, rets[0].get("l", f["line"]) if rets else f["line"],
           "offset = (secs*rate + ticks) - (ref.secs*rate + ref.ticks)" if ok else why)
    run.floor(rule, 1, "offset formula")


def check_offset_arithmetic(run, rule):
    """R17.7: add_time_offset(offset, rate) moves the time by exactly `offset` ticks.  With T the tick count the function
    computes first (`secs * rate + ticks`, taken as one symbol), the statements up to the first member store are explored
    path by path in linear arithmetic (affine.py; comparisons split the cases): on every path that does not throw the tick
    local holds T + offset, and the members are then set to that local / rate and that local % rate.  get_time_offset
    returns the difference of two such tick counts, this one minus the reference."""
    from .. import affine
    facts = run.facts
    f = facts.fn("CDNS::Timestamp::add_time_offset", rule=rule)
    sts = ir.stmts(f["body"])
    off = "p:%s" % f["params"][0]["n"]
    rate = "p:%s" % f["params"][1]["n"]

    def is_tick_count(e, obj=None):
        """secs * rate + ticks of one object"""
        u = ir.unwrap_all_casts(e)
        if not (isinstance(u, dict) and u.get("k") == "Bin" and u.get("op") == "+"):
            return None
        for a, b in ((u["lhs"], u["rhs"]), (u["rhs"], u["lhs"])):
            a_ = ir.unwrap_all_casts(a)
            while isinstance(a_, dict) and a_.get("k") == "Paren":
                a_ = ir.unwrap_all_casts(a_.get("e"))
            if isinstance(a_, dict) and a_.get("k") == "Bin" and a_.get("op") == "*":
                ps = [path(a_["lhs"]), path(a_["rhs"])]
                pb = path(b)
                if pb and pb[-1] == "m_ticks" and any(p_ and p_[-1] == "m_secs" and p_[:-1] == pb[:-1] for p_ in ps) and any(p_ and p_[0].startswith("p:") and len(p_) == 1 for p_ in ps):
                    return pb[:-1]
        return None
    idx = None
    tick_key = None
    for i, st in enumerate(sts):
        if st.get("k") == "Decl":
            for v in st.get("vars", []):
                if v.get("init") is not None and is_tick_count(v["init"]) == ("this",):
                    idx, tick_key = i, "l:%s#%s" % (v["n"], v["id"])
    stores = [i for i, st in enumerate(sts) if isinstance(unwrap(st), dict) and unwrap(st).get("k") == "Bin" and unwrap(st).get("op") == "=" and
              path(unwrap(st).get("lhs")) and path(unwrap(st)["lhs"])[0] == "this"]
    if idx is None or not stores or stores[0] <= idx:
        # another shape (a helper with a result struct, a per-rate switch ..): not decided by this rule
        run.info["add_time_offset_form"] = "not the straight-line form (tick count in a local, then the member stores): R17.7 not applied"
        return
    env = {tick_key: affine.Lin.sym("T")}
    affine.THROW_IS_OUTCOME = True
    try:
        try:
            res = affine.explore(sts[idx + 1:stores[0]], env, lambda *a: False)
        finally:
            affine.THROW_IS_OUTCOME = False
    except affine.NotAffine as ex:
        run.info["add_time_offset_form"] = "not linear (%s): R17.7 not applied" % ex
        return
    want = affine.Lin.sym("T") + affine.Lin.sym(off)
    n = 0
    for out, e, events, ass in res:
        if out == "throw":
            continue
        n += 1
        got = e.get(tick_key)
        d = (got - want) if got is not None else None
        ok = d is not None and d.is_const() and d.c == 0
        cases = " && ".join("%s %s" % (_lin_show(a[0]), a[1]) for a in ass) or "always"
        run.ob(rule, "add_time_offset:moves-by-offset#%d" % n, ok, f, sts[stores[0]].get("l", f["line"]),
               "for %s the new tick count is T + offset" % cases if ok else
               "for %s the new tick count is %s, not T + %s: the time is moved by something other than the offset" % (cases, _lin_show(got) if got is not None else "?", off[2:]))
    if n == 0:
        run.ob(rule, "add_time_offset:moves-by-offset", False, f, f["line"], "every path through add_time_offset throws")
    # the members take the quotient and the remainder of that local
    for mem, op in (("m_secs", "/"), ("m_ticks", "%")):
        st = [unwrap(sts[i]) for i in stores if path(unwrap(sts[i])["lhs"]) == ("this", mem)]
        r_ = ir.unwrap_all_casts(st[-1]["rhs"]) if st else None
        ok = isinstance(r_, dict) and r_.get("k") == "Bin" and r_.get("op") == op and path(r_["lhs"]) == (tick_key,) and path(r_["rhs"]) == (rate,)
        run.ob(rule, "add_time_offset:%s=ticks%srate" % (mem, op), ok if st else None, f, st[-1].get("l", f["line"]) if st else f["line"],
               "%s is the new tick count %s the rate" % (mem, op) if ok else "%s is set to %s" % (mem, show(st[-1]["rhs"]) if st else "nothing"))


def _lin_show(l):
    if l is None:
        return "?"
    parts = []
    for k, v in sorted(l.t.items()):
        nm = k[2:].split("#")[0] if k[:2] in ("p:", "l:") else k
        parts.append(("%s" % nm) if v == 1 else ("-%s" % nm) if v == -1 else "%d*%s" % (v, nm))
    if l.c or not parts:
        parts.append(str(l.c))
    return " + ".join(parts).replace("+ -", "- ")


def check(run):
    check_arith(run, "R17.1")
    check_refusal_order(run, "R17.2")
    check_order_ops(run, "R17.3")
    check_earliest(run, "R17.4")
    C01.check_time_reference(run, "R17.5")
    check_offset_formula(run, "R17.6")
    check_offset_arithmetic(run, "R17.7")
