// Verif-owned translation unit: controls for the IR normalisation (cdnsverif/normalize.py).
// Every function states in its name what the normalisation must do with the named local:
//   <name>_keep_<var>   the local must survive (substituting it would change the meaning)
//   <name>_subst_<var>  every use of the local must have been replaced by its initialiser
// normalize.self_check() verifies this on every run; a wrong answer stops every check with exit 2.
#include <vector>
#include <cstddef>
namespace verif_fx {
struct S {
    int a;
    int b;
    void bump();                       // body unknown: may write anything of *this
    void touch_b() { b = 1; }          // writes b only
    int get() const { return a; }
};

int w1_keep_x(S& s) { const int x = s.a; s.a = 5; return x; }
int w2_subst_x(S& s) { const int x = s.a; return x + s.b; }
int w3_subst_r(S& s) { int& r = s.a; r = 7; return s.a; }
int w4_keep_x(S& s) { const int x = s.get(); s.bump(); return x; }
int w5_subst_x(S& s) { const int x = s.a; s.touch_b(); return x; }
int w6_subst_y(S& s) { int t = 0; for (int i = 0; i < 3; i++) { const int y = s.a; t += y; s.a++; } return t; }
int w7_keep_y(S& s) { const int y = s.a; int t = 0; for (int i = 0; i < 3; i++) { t += y; s.a++; } return t; }
int w8_keep_old(S& s) { auto g = [&](int& out) { const int old = out; out = 1; return old; }; return g(s.a); }
int w9_keep_x(S& s, int* p) { const int x = s.a; int* q = &s.a; *q = 3; (void)p; return x; }
int w10_keep_n(S& s) { int n = s.a; n += 1; return n; }
int w11_keep_x(std::vector<int>& v) { const int x = v[0]; v[0] = 5; return x; }
std::size_t w12_subst_n(std::vector<int>& v) { const std::size_t n = v.size(); v[0] = 1; return n; }
std::size_t w13_keep_n(std::vector<int>& v) { const std::size_t n = v.size(); v.push_back(1); return n; }
int w14_keep_x(std::vector<S>& v) { const int x = v[0].a; v[0].bump(); return x; }
// N6 memo elimination: a one-entry memo around a lookup is the lookup when nothing it reads changes in the memo's scope
int w15_subst_val(const std::vector<int>& keys, const std::vector<int>& table) {
    bool have = false; int last_key = 0; int val = 0; int t = 0;
    for (int k : keys) { if (!have || k != last_key) { last_key = k; val = table[k]; have = true; } t += val; }
    return t;
}
int w16_keep_val(const std::vector<int>& keys, std::vector<int>& table) {
    bool have = false; int last_key = 0; int val = 0; int t = 0;
    for (int k : keys) { if (!have || k != last_key) { last_key = k; val = table[k]; have = true; } t += val; table[0] = t; }
    return t;
}
// N9 local flags: a flag that is set after the last thing that can throw is still false in the handler, and true after the try
void may_throw();
void undo();
void done();
void w17_subst_armed() {
    bool armed = false;
    try { may_throw(); armed = true; } catch (...) { if (armed) undo(); throw; }
    if (armed) done();
}
// ... but not when something can throw after the store
void w18_keep_armed() {
    bool armed = false;
    try { armed = true; may_throw(); } catch (...) { if (armed) undo(); throw; }
}
// N9 jump threading + N10 store splitting: a result flag and value set in both branches and tested right after
int w19_subst_found(const std::vector<int>& v, int k) {
    bool found; int index;
    if (v.empty()) { found = false; index = 0; } else { found = true; index = v[0] + k; }
    if (found) return index;
    return -1;
}
// N10 must not split a local that is read after the branches joined
int w20_keep_index(const std::vector<int>& v, int k) {
    int index = 0;
    if (v.empty()) { index = 1; may_throw(); } else { index = v[0] + k; may_throw(); }
    return index;
}
// N6b hit/miss memo: removed when every write to what the lookup reads is followed by an invalidation
int w21_subst_mval(const std::vector<int>& keys, std::vector<int>& table) {
    bool have = false; int mkey = 0; int mval = 0; int t = 0;
    for (int k : keys) {
        int out = 0;
        if (have && mkey == k) { out = mval; t += out; }
        else { int e = table[k]; mkey = k; mval = e; have = true; out = e; t += out; }
        if (t > 100) { table[0] = t; have = false; }
    }
    return t;
}
// ... kept when a write is not followed by one
int w22_keep_mval(const std::vector<int>& keys, std::vector<int>& table) {
    bool have = false; int mkey = 0; int mval = 0; int t = 0;
    for (int k : keys) {
        int out = 0;
        if (have && mkey == k) { out = mval; t += out; }
        else { int e = table[k]; mkey = k; mval = e; have = true; out = e; t += out; }
        if (t > 100) { table[0] = t; }
    }
    return t;
}
// N13 refined stores + copy coalescing: `if (h == 0) x = 0; else { ..; x = h; }` stores h on both edges; h then only feeds x
int next_count();
int w23_subst_h(S& s) {
    int x;
    const int h = next_count();
    if (h == 0) { x = 0; } else { s.b = h; x = h; }
    return x;
}
// ... not when the branch reads x before its final store (the store cannot sink, h stays)
int w24_keep_h(S& s) {
    int x = 1;
    const int h = next_count();
    if (h == 0) { x = 0; } else { s.b = x; x = h; }
    return x;
}
// N14 loop re-switching + branch-end merging: a loop specialised on an invariant test is one loop again (u becomes v)
int w25_subst_u(S& s, const std::vector<int>& xs) {
    int t = 0;
    if (s.a == 0) { for (int u : xs) { t += u; } return t; }
    for (int v : xs) { t += v; s.b = v; }
    return t;
}
// ... not when the loops can change what the test reads
int w26_keep_u(S& s, const std::vector<int>& xs) {
    int t = 0;
    if (s.b == 0) { for (int u : xs) { t += u; } return t; }
    for (int v : xs) { t += v; s.b = v; }
    return t;
}
}
