"""C09 File preamble and block parameters survive write -> read unchanged (structural clauses)."""
from .. import ir, emission, consumption, agreement, tables
from ..ir import (path, path_str, unwrap, unwrap_all_casts, callee_name, callee_qn, const_value, show, show_f, Env, conjuncts)
from ..facts import AnalysisBroken

META = {
    "level": "other",
    "rule_text": "R09.1 writer/reader table agreement (same key set, same member under each key, compatible CBOR kinds, "
                 "reader-required keys always written) for FilePreamble, BlockParameters, StorageParameters, StorageHints, "
                 "CollectionParameters, plus RFC 8618 key numbers/types; R09.2 every optional member starts read() absent; "
                 "R09.3 present-but-empty optional structures are written as one item; R09.4 no narrowing between member "
                 "and wire; R09.5 header functions delegate to the preamble and lists keep their order. list-replaced: an array-valued member is emptied before elements are appended or replaced unconditionally by the decoded list. R09.6: no exception in a preamble reader is control-dependent on a decoded value unless the writer validates too (taint from the value readers; positive and negative control in tu/rule_controls.cpp). R09.7 = R06.2: no write_int call can be refused for lack of space - per-item thresholds, head-size functions of the value, or a run of items whose length was computed from m_avail with nothing advancing the cursor in between.",
    "explanation": "Cross-check of sibling implementations (write vs read) of five structs, decided on the AST for every "
                   "preamble value; equality of text payloads is delegated to the string paths of C06/C07.",
    "trusted_base": ["clang 14 AST", "rfc8618_tables.json"],
    "assumptions": [],
}

STRUCTS = ["CDNS::FilePreamble", "CDNS::BlockParameters", "CDNS::StorageParameters", "CDNS::StorageHints",
           "CDNS::CollectionParameters"]
MAPNAMES = ["FilePreamble", "BlockParameters", "StorageParameters", "StorageHints", "CollectionParameters"]


def short(q):
    return q.replace("CDNS::", "")


# ------------------------------------------------------------------ R09.6 the reader rejects nothing the writer emits

VALUE_READERS = ("read_textstring", "read_bytestring", "read_unsigned", "read_negative", "read_integer", "read_bool")


def content_dependent_throws(fn):
    """Throws in fn that are control-dependent on a value decoded from the input (not on its CBOR type or on bookkeeping):
    [(throw node, tainted name)].  Taint: locals / members that receive the result of a value reader, and whatever is computed
    from them (fixpoint over declarations, assignments and range-for variables)."""
    tainted = set()

    def mentions(e):
        for x in ir.walk(e) if isinstance(e, dict) else []:
            if x.get("k") in ("MCall", "Call") and callee_qn(x) and callee_qn(x).split("::")[-1] in VALUE_READERS and \
                    (x.get("callee") or {}).get("cls") == "CDNS::CdnsDecoder":
                return "decoded value"
            p_ = path(x)
            if p_ is not None:
                for i in range(1, len(p_) + 1):
                    if p_[:i] in tainted:
                        return path_str(p_[:i])
        return None
    changed = True
    while changed:
        changed = False
        for n in ir.walk(fn["body"]):
            k = n.get("k")
            tgt = src = None
            if k == "Decl":
                for v in n.get("vars", []):
                    if v.get("init") is not None and "n" in v and mentions(v["init"]):
                        t = ("l:%s#%s" % (v["n"], v["id"]),)
                        if t not in tainted:
                            tainted.add(t)
                            changed = True
                continue
            if k == "Bin" and n.get("op", "").endswith("=") and n["op"] not in ("==", "!=", "<=", ">="):
                tgt, src = path(n["lhs"]), n["rhs"]
            elif k == "OpCall" and n.get("op") in ("=", "+=") and len(n.get("args", [])) == 2:
                tgt, src = path(n["args"][0]), n["args"][1]
            elif k == "RangeFor" and isinstance(n.get("var"), dict) and n.get("range") is not None:
                tgt, src = ("l:%s#%s" % (n["var"].get("n"), n["var"].get("id")),), n["range"]
            if tgt and src is not None and tgt not in tainted and mentions(src):
                tainted.add(tuple(x for x in tgt if not x.startswith("[")))
                changed = True
    out = []
    for n, parents in ir.walk_with_parents(fn["body"]):
        if n.get("k") != "Throw" or n.get("rethrow") or (n.get("e") is None and any(a.get("k") == "Try" or "handlers" in a for a in parents)):
            continue          # `throw;` passes an exception on, it does not reject anything itself
        for a in parents:
            c = None
            if a.get("k") == "If":
                c = a.get("cond")
            elif a.get("k") in ("While", "Do", "For"):
                c = a.get("cond")
            elif a.get("k") == "Switch":
                c = a.get("cond")
            why = mentions(c) if c is not None else None
            if why and not any(x is n for x in ir.walk(c)):
                out.append((n, why))
                break
    return out


def check_no_reader_only_rejection(run, rule, pairs):
    n = 0
    # controls: the detector reports a value-dependent rejection and is silent on a type check
    if not content_dependent_throws(run.facts.control("r09_6_rejecting_reader", rule)) or \
            content_dependent_throws(run.facts.control("r09_6_type_check_only", rule)):
        raise AnalysisBroken(rule, "the value-dependent-rejection detector gives the wrong answer on its controls (tu/rule_controls.cpp)")
    for s, (wa, mr, w, r) in pairs.items():
        n += 1
        rt = content_dependent_throws(r)
        # the writer's own checks: throws that depend on a member of the object being written
        wt = [x for x, parents in ir.walk_with_parents(w["body"]) if x.get("k") == "Throw" and any(
            a.get("k") in ("If", "While", "For", "Do") and a.get("cond") is not None and any(
                (path(y) or ("",))[0] == "this" and len(path(y)) > 1 for y in ir.walk(a["cond"])) for a in parents)]
        if not rt:
            run.ob(rule, "%s:reader-accepts-what-writer-emits" % short(s), True, r, r["line"],
                   "no exception in read() depends on a decoded value: every value write() emits is accepted", nontrivial=False)
        elif not wt:
            run.ob(rule, "%s:reader-accepts-what-writer-emits" % short(s), False, r, rt[0][0].get("l", r["line"]),
                   "read() throws depending on %s, write() emits every value without any check: some preamble an application can "
                   "construct is written but cannot be read back" % rt[0][1])
        else:
            run.ob(rule, "%s:reader-accepts-what-writer-emits" % short(s), None, r, rt[0][0].get("l", r["line"]),
                   "both read() and write() validate values (%s); whether the two checks accept the same set is not decided" % rt[0][1])
    run.floor(rule, 5, "preamble structs")


def check(run):
    facts = run.facts
    # every member written is written completely: no integer of a (possibly long) list is refused by the encoder and dropped
    # (R06.2 imported - constant thresholds, head-size functions, and runs whose length was taken from the free space)
    from . import C06 as _C06
    _C06.check_public_writes(run, rename={"R06.2": "R09.7", "R06.3": None})
    was = {}
    pairs = {}
    for s in STRUCTS:
        w, r = agreement.find_pair(facts, s)
        if w is None or r is None:
            raise AnalysisBroken("R09.1", "write/read pair of %s not found" % s)
        wa, mr = agreement.check_pair(run, "R09.1", s, w, r, width_rule="R09.4")
        pairs[s] = (wa, mr, w, r)
        if wa.rows:
            was[(s, wa.rows[0]["enum"])] = wa
    tables.check_rfc_keys(run, "R09.1", was, only=MAPNAMES)
    run.floor("R09.1", 120, "key rows x (keyset, member, kind) + RFC rows for 5 structs / 30 keys")
    run.floor("R09.4", 12, "scalar members with a width")

    check_no_reader_only_rejection(run, "R09.6", pairs)

    # R09.2 absent stays absent
    n = 0
    for s, (wa, mr, w, r) in pairs.items():
        for row in wa.rows:
            g = row["guard"]
            atoms = conjuncts(g)
            for a in atoms:
                if a[0] in ("present", "nonempty") and a[1][0] == "this" and len(a[1]) == 2:
                    member = a[1][1]
                    n += 1
                    ok, f, line = agreement.reset_clears(facts, s, member, r)
                    if ok is None:
                        ok = False
                    run.ob("R09.2", "%s.%s:starts-absent" % (short(s), member), ok, f or r, line or r["line"],
                           "read() starts with %s empty (%s)" % (member, short(f["qn"]) if f else "?") if ok else
                           ("optional member %s is written only when present, but %s installs a value before reading: a file "
                            "without the member reads back with a phantom value" % (member, short(f["qn"]) if f else "nothing in read()/reset() empties it, or a default")
                            if ok is False else "read() neither calls a reset()/clear() that empties %s nor clears it itself: a value of a previous "
                            "read survives when this encoding omits the member" % member))
    run.floor("R09.2", 15, "optional members")

    # R09.3 present-but-empty stays present: struct-valued members emit exactly one item under the caller's guard
    for s, (wa, mr, w, r) in pairs.items():
        for ev in wa.struct_sites:
            cal = ev.detail
            cands = [g for g in facts.fns(cal["qn"]) if g["sig"] == cal["sig"]]
            if len(cands) != 1:
                continue
            cwa = pairs.get(cal.get("cls"), (None,))[0] or emission.analyse_writer(cands[0], facts)
            ok = cwa.top is not None and cwa.top_guard == ("T",)
            if not ok and cwa.top is None and cwa.unrecognised:
                ok = None       # the callee hands part of its output to something the emission grammar does not know: no claim
            run.ob("R09.3", "%s->%s" % (short(w["qn"]), short(cal["qn"])), ok, w, ev.line,
                   "nested structure is always written as exactly one item (also when no member is set)" if ok else
                   "%s emits nothing when %s: a present-but-empty value is written as a key without value and reads back absent/corrupt" % (
                       short(cal["qn"]), show_f(ir.f_not(cwa.top_guard)) if cwa.top is not None else "?"))
    run.floor("R09.3", 3, "nested preamble structures")

    # R09.5 header functions and list order
    wh = facts.fn("CDNS::CdnsExporter::write_file_header", rule="R09.5")
    rh = facts.fn("CDNS::CdnsReader::read_file_header", rule="R09.5")
    wcalls = [c for c in ir.calls_in(wh["body"]) if callee_qn(c) == "CDNS::FilePreamble::write"]
    rcalls = [c for c in ir.calls_in(rh["body"]) if callee_qn(c) == "CDNS::FilePreamble::read"]
    ok = len(wcalls) == 1 and path(wcalls[0].get("recv")) == ("this", "m_file_preamble")
    run.ob("R09.5", "write_file_header:preamble", ok, wh, wh["line"], "header serialises m_file_preamble exactly once")
    ok = len(rcalls) == 1 and path(rcalls[0].get("recv")) == ("this", "m_file_preamble")
    why = "header parses into m_file_preamble exactly once"
    if len(rcalls) == 1 and not ok:
        # the other shape: parsed into a local FilePreamble that is then committed to the member unconditionally
        rp = path(rcalls[0].get("recv"))
        env_h = Env(rh["body"])
        commits = [(g, rhs, node) for st, g, loops in ir.guarded_statements(rh["body"], env_h) if st.get("k") not in ("IfCond", "LoopHead", "SwitchHead")
                   for lp, rhs, node in consumption.assignment_targets([st]) if lp == ("this", "m_file_preamble")]
        g_read = [g for st, g, loops in ir.guarded_statements(rh["body"], env_h) if st.get("k") not in ("IfCond", "LoopHead", "SwitchHead")
                  and any(c is rcalls[0] for c in ir.calls_in(st))]
        # "unconditionally": on exactly the paths on which the preamble was parsed (the checks before it leave by throw)
        if rp and len(rp) == 1 and rp[0].startswith("l:") and len(commits) == 1 and g_read and commits[0][0] == g_read[0] and \
                path(commits[0][1]) == rp and commits[0][2].get("l", 0) >= rcalls[0].get("l", 0):
            ok, why = True, "header parses into a local preamble exactly once and commits it to m_file_preamble unconditionally"
        elif rp and len(rp) == 1 and rp[0].startswith("l:") and g_read:
            # committed member by member (assignments, swaps): every member of FilePreamble, from the same member of the local,
            # on the paths on which the preamble was parsed
            fp_fields = [f_["n"] for f_ in facts.record("CDNS::FilePreamble", rule="R09.5")["fields"]]
            got = {}
            for st, g, loops in ir.guarded_statements(rh["body"], env_h):
                if st.get("k") in ("IfCond", "LoopHead", "SwitchHead"):
                    continue
                for lp, rhs, node in consumption.assignment_targets([st]):
                    if lp and len(lp) == 3 and lp[:2] == ("this", "m_file_preamble") and path(unwrap_all_casts(rhs)) == rp + (lp[2],):
                        got[lp[2]] = g
                for c_ in ir.calls_in(st):
                    if c_.get("k") == "MCall" and callee_name(c_) == "swap" and len(c_.get("args", [])) == 1:
                        a_, b_ = path(c_.get("recv")), path(unwrap_all_casts(c_["args"][0]))
                        for x_, y_ in ((a_, b_), (b_, a_)):
                            if x_ and y_ and len(x_) == 3 and x_[:2] == ("this", "m_file_preamble") and y_ == rp + (x_[2],):
                                got[x_[2]] = g
            if sorted(got) == sorted(fp_fields) and all(g_ == g_read[0] for g_ in got.values()):
                ok, why = True, "header parses into a local preamble exactly once and commits every member of it to m_file_preamble unconditionally"
    run.ob("R09.5", "read_file_header:preamble", ok, rh, rh["line"], why if ok else
           "the file preamble is not parsed exactly once into m_file_preamble (directly, or through a local that is committed unconditionally)")
    # reader sequence: array start, text, preamble, array start
    seq = []
    for c in ir.calls_in(rh["body"]):
        dn = consumption.decoder_call(c)
        if dn in ("read_array_start", "read_textstring", "read_map_start", "read_unsigned", "skip_item"):
            seq.append(dn)
        if callee_qn(c) == "CDNS::FilePreamble::read":
            seq.append("preamble")
    ok = seq == ["read_array_start", "read_textstring", "preamble", "read_array_start"]
    run.ob("R09.5", "read_file_header:sequence", ok, rh, rh["line"],
           "reads file array, type id, preamble, block array in this order" if ok else "header read sequence is %s" % seq)
    # list members: writer iterates the vector front to back, reader appends
    for s, (wa, mr, w, r) in pairs.items():
        for row in mr.rows:
            if row["kind"] != "ARRAY" or row["consume"] is None:
                continue
            lam = row["consume"].detail
            appends = [c for c in ir.calls_in(lam.get("body")) if callee_name(c) in ("push_back", "emplace_back")] if lam else []
            others = [c for c in ir.calls_in(lam.get("body")) if callee_name(c) in ("insert", "push_front", "emplace")] if lam else []
            ok = len(appends) == 1 and not others
            run.ob("R09.5", "%s.%s:list-order" % (short(s), row["name"]), ok, r, row["line"],
                   "list elements are appended in file order" if ok else "list reader does not append each element once at the end")
            # the vector is emptied before reading (defaults do not survive)
            pre = [c for st in [row] for c in []]
    run.floor("R09.5", 8, "header and list obligations")
