#!/usr/bin/env python3
"""usage: tool/showfn.py <repo> <substring of qualified name> [raw]   prints the (normalised) IR of matching functions"""
import sys, json, os
sys.path.insert(0, os.path.dirname(os.path.dirname(os.path.abspath(__file__))))
if len(sys.argv) > 3:
    os.environ["VERIF_NO_NORMALISE"] = "1"
from cdnsverif import facts as F, ir
fx = F.load(sys.argv[1])
def pp(n, ind=0):
    pad = "  " * ind
    if isinstance(n, list):
        for x in n: pp(x, ind)
        return
    if not isinstance(n, dict):
        print(pad + repr(n)); return
    k = n.get("k")
    if k == "Block":
        for x in n.get("s", []): pp(x, ind)
    elif k == "If":
        print("%sif (%s)  [l%s]" % (pad, ir.show(n.get("cond") or n.get("c")), n.get("l")))
        pp(n.get("then"), ind + 1)
        if n.get("else") is not None:
            print(pad + "else"); pp(n.get("else"), ind + 1)
    elif k in ("While", "Do", "For", "RangeFor"):
        print("%s%s (%s) [l%s]" % (pad, k, ir.show(n.get("c")) if n.get("c") else ir.show(n.get("range")) if n.get("range") else "", n.get("l")))
        pp(n.get("body"), ind + 1)
    elif k == "Decl":
        for v in n.get("vars", []):
            print("%s%s %s#%s = %s [l%s]" % (pad, v.get("t"), v.get("n"), v.get("id"), ir.show(v["init"]) if v.get("init") is not None else "-", n.get("l")))
    elif k == "Return":
        print("%sreturn %s [l%s]" % (pad, ir.show(n["e"]) if n.get("e") is not None else "", n.get("l")))
    elif k == "Try":
        print(pad + "try"); pp(n.get("body"), ind + 1)
        for h in n.get("handlers", []):
            print("%scatch (%s)" % (pad, h.get("t"))); pp(h.get("body"), ind + 1)
    elif k == "Switch":
        print("%sswitch (%s)" % (pad, ir.show(n.get("c"))))
        for c in n.get("cases", []):
            print("%s case %s:" % (pad, c.get("labels") or c.get("vals"))); pp(c.get("body") or c.get("s"), ind + 2)
    else:
        try:
            print("%s%s [l%s]" % (pad, ir.show(n), n.get("l")))
        except Exception:
            print(pad + json.dumps(n)[:200])
for f in fx.functions.values():
    if sys.argv[2] in f["qn"] and f.get("body") is not None:
        print("==", f["qn"], f.get("sig"), f.get("file"), f.get("line"))
        pp(f["body"])
