"""Affine (linear) value analysis for straight-line regions.

A value is a linear form  c0 + sum(ci * Xi)  over symbols Xi = the values the region's variables hold at region
entry.  The interpreter walks a statement list in order, keeps an environment  variable key -> linear form,  and hands
every call to a hook that may record it and apply the callee's summary.  Anything it cannot express (branches,
non-linear arithmetic, unknown writes) raises NotAffine: callers report *unrecognised*, never a verdict.

This is Karr-style affine relation analysis restricted to straight-line code; it decides equalities such as
"the source pointer advanced by exactly the number of bytes copied" independently of how the code spells or orders the
updates (`n -= m_avail; p += m_avail` or `chunk = m_avail; ... p += chunk; n -= chunk`)."""
from . import ir
from .ir import path, path_str, unwrap, const_value


class NotAffine(Exception):
    pass


THROW_IS_OUTCOME = False        # (set by callers that explore functions which refuse by throwing)


class Lin:
    __slots__ = ("c", "t")

    def __init__(self, c=0, t=None):
        self.c = c
        self.t = dict(t or {})

    @staticmethod
    def sym(name):
        return Lin(0, {name: 1})

    def __add__(self, o):
        t = dict(self.t)
        for k, v in o.t.items():
            t[k] = t.get(k, 0) + v
            if t[k] == 0:
                del t[k]
        return Lin(self.c + o.c, t)

    def __neg__(self):
        return Lin(-self.c, {k: -v for k, v in self.t.items()})

    def __sub__(self, o):
        return self + (-o)

    def scale(self, k):
        if k == 0:
            return Lin(0)
        return Lin(self.c * k, {s: v * k for s, v in self.t.items()})

    def subst(self, name, repl):
        """self with symbol `name` replaced by the linear form repl"""
        k = self.t.get(name)
        if not k:
            return self
        rest = Lin(self.c, {s: v for s, v in self.t.items() if s != name})
        return rest + repl.scale(k)

    def symbols(self):
        return set(self.t)

    def is_const(self):
        return not self.t

    def __eq__(self, o):
        return isinstance(o, Lin) and self.c == o.c and self.t == o.t

    def __hash__(self):
        return hash((self.c, tuple(sorted(self.t.items()))))

    def __repr__(self):
        parts = []
        for k in sorted(self.t):
            v = self.t[k]
            parts.append(("%s" % k) if v == 1 else ("-%s" % k if v == -1 else "%d*%s" % (v, k)))
        if self.c or not parts:
            parts.append(str(self.c))
        return " + ".join(parts).replace("+ -", "- ")


def key_of(e):
    p = path(e)
    return path_str(p) if p is not None else None


def ev(e, env):
    """Linear form of expression e under env (key -> Lin); unknown keys become their own entry symbol."""
    e0 = e
    e = ir.unwrap_all_casts(e)
    if not isinstance(e, dict):
        raise NotAffine("?")
    cv = const_value(e0)
    if cv is None:
        cv = const_value(e)
    if cv is not None and not isinstance(cv, str):
        return Lin(int(cv))
    k = e.get("k")
    key = key_of(e)
    if key is not None and k in ("Ref", "Member", "Un"):
        if key not in env:
            env[key] = Lin.sym(key)
        return env[key]
    if k == "Bin":
        op = e["op"]
        if op in ("+", "-"):
            a, b = ev(e["lhs"], env), ev(e["rhs"], env)
            return a + b if op == "+" else a - b
        if op == "*":
            a, b = ev(e["lhs"], env), ev(e["rhs"], env)
            if a.is_const():
                return b.scale(a.c)
            if b.is_const():
                return a.scale(b.c)
        raise NotAffine("operator %s" % op)
    if k == "Un" and e.get("op") == "-":
        return -ev(e["e"], env)
    if k == "Un" and e.get("op") == "+":
        return ev(e["e"], env)
    if k == "Sizeof" or k == "SizeOf":
        raise NotAffine("sizeof without constant value")
    raise NotAffine("%s: %s" % (k, ir.show(e)[:60]))


def run(stmts, env, on_call=None):
    """Interpret a straight-line statement list.  on_call(call, env) handles Call/MCall expression statements (and may
    update env); returning False means the call is not understood."""
    for s in stmts:
        u = unwrap(s)
        if not isinstance(u, dict):
            continue
        k = u.get("k")
        if k == "Block":
            run(u.get("s", []), env, on_call)
            continue
        if k == "Null":
            continue
        if k == "Decl":
            for v in u.get("vars", []):
                if "n" not in v:
                    continue
                key = "l:%s#%s" % (v["n"], v["id"])
                if v.get("init") is not None:
                    try:
                        env[key] = ev(v["init"], env)
                    except NotAffine:
                        env[key] = Lin.sym(key + "@decl")
                else:
                    env[key] = Lin.sym(key + "@uninit")
            continue
        if k == "Bin" and u.get("op", "").endswith("=") and u["op"] not in ("==", "!=", "<=", ">="):
            key = key_of(u.get("lhs"))
            if key is None:
                raise NotAffine("assignment to %s" % ir.show(u.get("lhs")))
            if u["op"] == "=":
                env[key] = ev(u["rhs"], env)
            elif u["op"] in ("+=", "-="):
                cur = ev(u["lhs"], env)
                r = ev(u["rhs"], env)
                env[key] = cur + r if u["op"] == "+=" else cur - r
            else:
                raise NotAffine("operator %s" % u["op"])
            continue
        if k == "Un" and u.get("op") in ("pre++", "post++", "pre--", "post--"):
            key = key_of(u.get("e"))
            if key is None:
                raise NotAffine("update of %s" % ir.show(u.get("e")))
            cur = ev(u["e"], env)
            env[key] = cur + Lin(1 if "++" in u["op"] else -1)
            continue
        if k in ("Call", "MCall", "OpCall"):
            if on_call is None or on_call(u, env) is False:
                raise NotAffine("call %s" % ir.show(u)[:60])
            continue
        if k == "Return":
            if on_call is not None:
                on_call(u, env)
            continue
        raise NotAffine("statement %s" % k)
    return env


# ------------------------------------------------------------------------------------------------ paths with branches
#
# explore() follows every path through a statement list whose branch conditions are comparisons of affine forms.
# A comparison the assumptions do not decide splits the exploration (both outcomes, each recorded as an assumption);
# std::min / std::max of two affine forms split the same way.  Loops inside the region are not followed (NotAffine).

class NeedSplit(Exception):
    def __init__(self, d):
        self.d = d


_FLIP = {"<0": ">0", ">0": "<0", ">=0": "<=0", "<=0": ">=0", "==0": "==0", "!=0": "!=0"}


def _sign_direct(d, assumptions):
    if d.is_const():
        return "<0" if d.c < 0 else ("==0" if d.c == 0 else ">0")
    for (a, rel) in assumptions:
        if a == d:
            return rel
        if a == -d:
            return _FLIP[rel]
    return None


def _sign_unsigned(d):
    """every symbol stands for an unsigned quantity (a size, a count, a byte offset): a form with no negative coefficient and
    no negative constant is >= 0 (> 0 with a positive constant)"""
    if d.t and all(v > 0 for v in d.t.values()) and d.c >= 0 and not any("@" in k_ or k_.startswith(("p:str", "this.m_p", "buffer-start")) for k_ in d.t):
        return ">0" if d.c > 0 else ">=0"
    return None


def sign_of(d, assumptions):
    """'<0' | '==0' | '>0' | '>=0' | '<=0' | '!=0' | None for the linear form d under the assumptions (direct matches, and one
    step of addition: d = a + r with the sign of a assumed and r a constant or a sum of unsigned quantities)."""
    s = _sign_direct(d, assumptions)
    if s is not None:
        return s
    for (a, rel) in assumptions:
        for part, prel in ((a, rel), (-a, _FLIP[rel])):
            r = d - part
            rs = _sign_direct(r, ()) if r.is_const() else _sign_unsigned(r)
            if rs is None:
                continue
            pair = {prel, rs}
            if pair <= {">0", ">=0", "==0"}:
                return ">0" if ">0" in pair else (">=0" if ">=0" in pair else "==0")
            if pair <= {"<0", "<=0", "==0"} and rs in ("<0", "==0"):
                return "<0" if "<0" in pair else ("<=0" if "<=0" in pair else "==0")
    return None


def decide_cmp(op, d, assumptions):
    """Truth of (lhs op rhs) with d = lhs - rhs, or None."""
    s = sign_of(d, assumptions)
    if s is None:
        return None
    table = {
        "<": {"<0": True, "==0": False, ">0": False, ">=0": False, "<=0": None, "!=0": None},
        "<=": {"<0": True, "==0": True, ">0": False, ">=0": None, "<=0": True, "!=0": None},
        ">": {"<0": False, "==0": False, ">0": True, ">=0": None, "<=0": False, "!=0": None},
        ">=": {"<0": False, "==0": True, ">0": True, ">=0": True, "<=0": None, "!=0": None},
        "==": {"<0": False, "==0": True, ">0": False, ">=0": None, "<=0": None, "!=0": False},
        "!=": {"<0": True, "==0": False, ">0": True, ">=0": None, "<=0": None, "!=0": True},
    }
    return table[op][s]


def ev2(e, env, assumptions):
    """ev() extended with std::min / std::max of affine forms (decided by the assumptions, else NeedSplit)."""
    u = ir.unwrap_all_casts(e)
    if isinstance(u, dict) and u.get("k") == "Call" and (ir.callee_qn(u) or "").split("<")[0] in ("std::min", "std::max") and len(u.get("args", [])) == 2:
        a, b = ev2(u["args"][0], env, assumptions), ev2(u["args"][1], env, assumptions)
        lt = decide_cmp("<", a - b, assumptions)
        if lt is None:
            raise NeedSplit(a - b)
        is_min = (ir.callee_qn(u) or "").split("<")[0] == "std::min"
        return (a if lt else b) if is_min else (b if lt else a)
    if isinstance(u, dict) and u.get("k") == "Bin" and u.get("op") in ("+", "-"):
        a, b = ev2(u["lhs"], env, assumptions), ev2(u["rhs"], env, assumptions)
        return a + b if u["op"] == "+" else a - b
    return ev(e, env)


def cond_truth(c, env, assumptions):
    """True / False for a branch condition, raising NeedSplit(d) when a comparison is open."""
    u = unwrap(c)
    if not isinstance(u, dict):
        raise NotAffine("condition")
    k = u.get("k")
    if k == "Un" and u.get("op") == "!":
        return not cond_truth(u["e"], env, assumptions)
    if k == "Bin" and u.get("op") == "&&":
        return cond_truth(u["lhs"], env, assumptions) and cond_truth(u["rhs"], env, assumptions)
    if k == "Bin" and u.get("op") == "||":
        return cond_truth(u["lhs"], env, assumptions) or cond_truth(u["rhs"], env, assumptions)
    if k == "Lit":
        return bool(u.get("v"))
    if k == "Bin" and u.get("op") in ("<", "<=", ">", ">=", "==", "!="):
        d = ev2(u["lhs"], env, assumptions) - ev2(u["rhs"], env, assumptions)
        r = decide_cmp(u["op"], d, assumptions)
        if r is None:
            raise NeedSplit(d)
        return r
    cv = const_value(c)
    if cv is not None:
        return bool(cv)
    raise NotAffine("condition %s" % ir.show(u)[:50])


def explore(stmts, env0, on_call, assumptions=(), depth=0):
    """All paths through a loop-free statement list.  Returns [(outcome, env, events, assumptions)] with outcome in
    'end' | 'break' | 'continue' | 'return'.  on_call(call, env, events, assumptions) records events / applies summaries."""
    if depth > 8:
        raise NotAffine("too many case splits")
    try:
        env = dict(env0)
        events = []
        out = _run2(list(stmts), env, events, list(assumptions), on_call)
        return [(out, env, events, tuple(assumptions))]
    except NeedSplit as ns:
        res = []
        cur = sign_of(ns.d, assumptions)
        options = {None: ("<0", ">=0"), ">=0": ("==0", ">0"), "<=0": ("<0", "==0"), "!=0": ("<0", ">0")}.get(cur)
        if options is None:
            raise NotAffine("comparison stays open under %s" % cur)
        rest = tuple(a for a in assumptions if a[0] != ns.d and a[0] != -ns.d)
        for rel in options:
            res += explore(stmts, env0, on_call, rest + ((ns.d, rel),), depth + 1)
        return res


def _run2(stmts, env, events, assumptions, on_call):
    for s in stmts:
        u = unwrap(s)
        if not isinstance(u, dict):
            continue
        k = u.get("k")
        if k == "Block":
            r = _run2(u.get("s", []), env, events, assumptions, on_call)
            if r != "end":
                return r
            continue
        if k == "Null":
            continue
        if k == "If":
            t = cond_truth(u["cond"], env, assumptions)
            br = u.get("then") if t else u.get("else")
            if br is not None:
                r = _run2(ir.stmts(br), env, events, assumptions, on_call)
                if r != "end":
                    return r
            continue
        if k == "Break":
            return "break"
        if k == "Continue":
            return "continue"
        if k == "Return":
            events.append(("return", ev2(u["e"], env, assumptions) if u.get("e") is not None else None, None, None, u))
            return "return"
        if k == "Decl":
            for v in u.get("vars", []):
                if "n" not in v:
                    continue
                key = "l:%s#%s" % (v["n"], v["id"])
                if v.get("init") is not None:
                    try:
                        env[key] = ev2(v["init"], env, assumptions)
                    except NotAffine:
                        env[key] = Lin.sym(key + "@decl")
                else:
                    env[key] = Lin.sym(key + "@uninit")
            continue
        if k == "Bin" and u.get("op", "").endswith("=") and u["op"] not in ("==", "!=", "<=", ">="):
            key = key_of(u.get("lhs"))
            if key is None:
                raise NotAffine("assignment to %s" % ir.show(u.get("lhs")))
            if u["op"] == "=":
                env[key] = ev2(u["rhs"], env, assumptions)
            elif u["op"] in ("+=", "-="):
                cur = ev2(u["lhs"], env, assumptions)
                r = ev2(u["rhs"], env, assumptions)
                env[key] = cur + r if u["op"] == "+=" else cur - r
            else:
                raise NotAffine("operator %s" % u["op"])
            continue
        if k == "Un" and u.get("op") in ("pre++", "post++", "pre--", "post--"):
            key = key_of(u.get("e"))
            if key is None:
                raise NotAffine("update of %s" % ir.show(u.get("e")))
            env[key] = ev2(u["e"], env, assumptions) + Lin(1 if "++" in u["op"] else -1)
            continue
        if k in ("Call", "MCall", "OpCall"):
            if on_call(u, env, events, assumptions) is False:
                raise NotAffine("call %s" % ir.show(u)[:60])
            continue
        if k == "Throw" and THROW_IS_OUTCOME:
            return "throw"
        raise NotAffine("statement %s" % k)
    return "end"


# ------------------------------------------------------------------------------------------------ copy functions
#
# analyse_copy(): a function that copies a source range into a cursor-addressed buffer in pieces.  Ghost G = bytes
# copied so far.  Obligations: every memcpy writes at the cursor, reads from source + G, copies no more than is free, and is
# followed by the matching cursor update; at every return G equals the size.  Loops are handled by the invariant
# "source expression == source + G" (and "remainder expression == size - G" when the loop has one): checked on entry,
# assumed for an arbitrary iteration (loop-written variables become fresh symbols, one of them solved from the invariant),
# checked again at the end of the iteration.  Values the domain cannot express (division, modulo, calls) become opaque
# symbols; an obligation that depends on one is *unknown*, never a failure.

class Restart(Exception):
    pass


class Choice(Exception):
    def __init__(self, node):
        self.node = node


def analyse_copy(body, src_param, size_param, is_avail, is_cursor, classify_call, av_key, mp_key, max_runs=200, capacity=None):
    """Returns (problems, returns, notes): problems = [(line, text, definite)], returns = [(G, assumptions, decided)]

    Loop invariants: `source expression == str + G` and `remainder expression == size - G` for the expressions the loop
    itself names (memcpy source, the partner of m_avail in the condition or in std::min) are *demanded* - a loop that
    breaks them is reported.  Every other variable a loop writes gets a *candidate* invariant of one of the forms
    `x == x0`, `x == x0 + (G - G0)`, `x == x0 - (G - G0)` (x0, G0: the values on entry), tried in that order; a candidate
    is assumed at the head of an arbitrary iteration and must be re-established by every path that goes round, else it
    is dropped and the whole analysis starts again (Houdini).  What is finally assumed holds on entry by construction
    and is preserved, hence is an invariant.  `capacity`: the value flush_buffer leaves in m_avail, if known."""
    form_idx = {}
    while True:
        try:
            return _analyse_copy(body, src_param, size_param, is_avail, is_cursor, classify_call, av_key, mp_key, max_runs, capacity, form_idx)
        except Restart:
            continue


def _analyse_copy(body, src_param, size_param, is_avail, is_cursor, classify_call, av_key, mp_key, max_runs, capacity, form_idx):
    problems = []
    returns = []
    notes = []
    seen_problem = set()
    SRC, SIZE = Lin.sym(src_param), Lin.sym(size_param)
    fresh = [0]
    tagn = [0]

    def opaque(l):
        return any("@" in s_ for s_ in l.symbols())

    def havoc(l):
        """mentions a value some loop left unconstrained: no invariant was found for it, so nothing is known"""
        return any("~" in s_ for s_ in l.symbols())

    def problem(line, text, definite):
        k_ = (line, text)
        if k_ not in seen_problem:
            seen_problem.add(k_)
            problems.append((line, text, definite))

    def loop_exprs(lp):
        src_e = rem_e = None
        for x in ir.walk(lp.get("body")):
            if x.get("k") == "Call" and ir.callee_name(x) == "memcpy" and len(x.get("args", [])) == 3 and src_e is None:
                src_e = x["args"][1]
            if x.get("k") == "Call" and (ir.callee_qn(x) or "").split("<")[0] == "std::min" and len(x.get("args", [])) == 2:
                a0, a1 = x["args"]
                if is_avail(a0):
                    rem_e = rem_e or a1
                elif is_avail(a1):
                    rem_e = rem_e or a0
        cu = unwrap(lp.get("cond")) if lp.get("cond") is not None else None
        if isinstance(cu, dict) and cu.get("k") == "Bin" and cu.get("op") in ("<", "<=", ">", ">="):
            if is_avail(cu["lhs"]):
                rem_e = cu["rhs"]
            elif is_avail(cu["rhs"]):
                rem_e = cu["lhs"]
        return src_e, rem_e

    class St:
        def __init__(self):
            self.env = {}
            self.G = Lin(0)
            self.asm = ()
            self.pending = None
            self.choices = {}

    opaque_memo = {}

    def evx(e, st):
        try:
            return ev2(e, st.env, st.asm)
        except NotAffine:
            # the same expression over the same variable values is the same (unknown) number
            keys = sorted(set(k_ for k_ in (key_of(x) for x in ir.walk(e)) if k_))
            mk = (ir.show(e), tuple((k_, repr(st.env.get(k_))) for k_ in keys))
            if mk not in opaque_memo:
                fresh[0] += 1
                opaque_memo[mk] = Lin.sym("v%d@opaque" % fresh[0])
            return opaque_memo[mk]

    def truth(c, st):
        try:
            return cond_truth(c, st.env, st.asm)
        except NotAffine:
            if id(c) in st.choices:
                return st.choices[id(c)]
            raise Choice(c)

    def do_call(u, st):
        kind = classify_call(u)
        line = u.get("l", 0)
        if kind == "memcpy":
            a = u["args"]
            dst, sv, n = evx(a[0], st), evx(a[1], st), evx(a[2], st)
            cur = st.env.get(mp_key, Lin.sym(mp_key))
            av = st.env.get(av_key, Lin.sym(av_key))
            if dst != cur:
                problem(line, "memcpy writes to %r, the cursor stands at %r" % (dst, cur), not opaque(dst - cur))
            want = SRC + st.G
            if sv != want:
                d = sv - want
                problem(line, "memcpy reads from %r but %r bytes have been copied so far: the next byte to copy is at %r" % (sv, st.G, want), not opaque(d))
            fits = sign_of(av - n, st.asm)
            if fits not in ("==0", ">0", ">=0"):
                problem(line, "memcpy copies %r bytes while %r are free" % (n, av), not opaque(av - n) and fits in ("<0",))
            st.pending = (n, line)
            return True
        if kind == "update":
            n = evx(u["args"][0], st)
            if st.pending is None or st.pending[0] != n:
                problem(line, "update_buffer(%r) does not match the copy before it (%r)" % (n, st.pending[0] if st.pending else None),
                        st.pending is not None and not opaque(n - st.pending[0]))
            if st.pending is not None:
                st.G = st.G + st.pending[0]
            st.pending = None
            st.env[mp_key] = st.env.get(mp_key, Lin.sym(mp_key)) + n
            st.env[av_key] = st.env.get(av_key, Lin.sym(av_key)) - n
            return True
        if kind == "gather":
            # the staged bytes and n bytes of the source handed to the output in one call: n bytes of the string are out
            a = u["args"]
            sv, n = evx(a[2], st), evx(a[3], st)
            want = SRC + st.G
            if sv != want:
                problem(line, "the gathering write takes the string from %r but %r bytes have been copied so far: the next byte to copy is at %r" % (sv, st.G, want),
                        not opaque(sv - want))
            st.G = st.G + n
            st.pending = None
            return True
        if kind == "flush":
            st.env[mp_key] = Lin.sym("buffer-start")
            st.env[av_key] = Lin(capacity) if capacity is not None else Lin.sym("buffer-capacity")
            return True
        return False

    def run(stmts, st):
        for s in stmts:
            u = unwrap(s)
            if not isinstance(u, dict):
                continue
            k = u.get("k")
            if k == "Block":
                r = run(u.get("s", []), st)
                if r != "end":
                    return r
            elif k == "Null":
                continue
            elif k == "If":
                br = u.get("then") if truth(u["cond"], st) else u.get("else")
                if br is not None:
                    r = run(ir.stmts(br), st)
                    if r != "end":
                        return r
            elif k == "Break":
                return "break"
            elif k == "Continue":
                return "continue"
            elif k == "Return":
                if st.pending is not None:
                    problem(u.get("l", 0), "a copy is not followed by update_buffer before the function returns", True)
                d = st.G - SIZE
                sg = sign_of(d, st.asm)
                returns.append((st.G, st.asm, True if sg == "==0" else (None if opaque(d) or havoc(d) else False)))
                return "return"
            elif k == "Decl":
                for v in u.get("vars", []):
                    if "n" in v:
                        key = "l:%s#%s" % (v["n"], v["id"])
                        st.env[key] = evx(v["init"], st) if v.get("init") is not None else Lin.sym(key + "@uninit")
            elif k == "Bin" and u.get("op", "").endswith("=") and u["op"] not in ("==", "!=", "<=", ">="):
                key = key_of(u.get("lhs"))
                if key is None:
                    raise NotAffine("assignment to %s" % ir.show(u.get("lhs")))
                if u["op"] == "=":
                    st.env[key] = evx(u["rhs"], st)
                elif u["op"] in ("+=", "-="):
                    cur = evx(u["lhs"], st)
                    r_ = evx(u["rhs"], st)
                    st.env[key] = cur + r_ if u["op"] == "+=" else cur - r_
                else:
                    fresh[0] += 1
                    st.env[key] = Lin.sym("v%d@opaque" % fresh[0])
            elif k == "Un" and u.get("op") in ("pre++", "post++", "pre--", "post--"):
                key = key_of(u.get("e"))
                if key is None:
                    raise NotAffine("update")
                st.env[key] = evx(u["e"], st) + Lin(1 if "++" in u["op"] else -1)
            elif k in ("Call", "MCall", "OpCall"):
                if do_call(u, st) is False:
                    raise NotAffine("call %s" % ir.show(u)[:50])
            elif k in ("While", "For", "Do"):
                r = run_loop(u, st)
                if r != "end":
                    return r
            else:
                raise NotAffine("statement %s" % k)
        return "end"

    def run_loop(lp, st):
        k = lp["k"]
        if k == "For" and lp.get("init") is not None:
            run([lp["init"]], st)
        src_e, rem_e = loop_exprs(lp)
        body = ir.stmts(lp.get("body")) + ([lp["inc"]] if k == "For" and lp.get("inc") is not None else [])
        line = lp.get("l", 0)
        # phase selection is a choice point: 'base' (first iteration from the real state), 'step' (arbitrary iteration)
        phase = st.choices.get(("phase", id(lp)))
        if phase is None:
            raise Choice(("phase", id(lp)))
        if phase == "base":
            # invariants on entry
            if src_e is not None:
                d = evx(src_e, st) - (SRC + st.G)
                if d != Lin(0) and sign_of(d, st.asm) != "==0":
                    problem(line, "on entry to the loop the source expression %s stands at %r but %r bytes have been copied: the loop "
                            "starts reading at the wrong place" % (ir.show(src_e), evx(src_e, st), st.G), not opaque(d))
            if rem_e is not None:
                d = evx(rem_e, st) - (SIZE - st.G)
                if d != Lin(0) and sign_of(d, st.asm) != "==0":
                    problem(line, "on entry to the loop the remainder %s is %r but %r bytes are left" % (ir.show(rem_e), evx(rem_e, st), SIZE - st.G), not opaque(d))
            if k != "Do" and lp.get("cond") is not None and not truth(lp["cond"], st):
                return "end"           # zero iterations: straight to what follows
            r = run(body, st)
            return "stop" if r in ("end", "continue") else ("end" if r == "break" else r)
        # ---- arbitrary iteration: havoc what the loop writes, assume the invariants
        written = set(ir.written_locals(lp)) | {av_key, mp_key}
        entry = dict((key, st.env.get(key, Lin.sym(key))) for key in written)
        G0 = st.G
        # (loop tags are numbered per run: the same path has to produce the same symbols when it is re-run under a refined
        # assumption, or the assumption recorded for `avail~3 - ..` never matches the `avail~5 - ..` of the next attempt)
        tagn[0] += 1
        tag = "~%d" % tagn[0]
        for key in sorted(written):
            st.env[key] = Lin.sym(key + tag)
        Gh = Lin.sym("G" + tag)
        st.G = Gh
        st.pending = None

        def solve(expr, target):
            """make ev(expr) == target hold by solving for one havoc'd symbol of expr"""
            cur = evx(expr, st)
            d = cur - target
            cand = [s_ for s_ in d.symbols() if s_.endswith(tag) and s_ != "G" + tag]
            if not cand:
                return d == Lin(0)
            x = sorted(cand)[0]
            kx = d.t[x]
            from fractions import Fraction
            repl = (Lin(d.c, {s_: v for s_, v in d.t.items() if s_ != x})).scale(Fraction(-1, 1) / kx)
            for key in list(st.env):
                st.env[key] = st.env[key].subst(x, repl)
            return True
        if src_e is not None:
            solve(src_e, SRC + Gh)
        if rem_e is not None:
            solve(rem_e, SIZE - Gh)
        assumed = []
        for key in sorted(written):
            if st.env[key] != Lin.sym(key + tag):
                continue               # already determined by a demanded invariant
            fi = form_idx.get((id(lp), key), 0)
            if fi > 2:
                continue
            sgn = (0, 1, -1)[fi]
            c = entry[key] - G0.scale(sgn)
            st.env[key] = c + Gh.scale(sgn)
            assumed.append((key, sgn, c))
        if k != "Do" and lp.get("cond") is not None and not truth(lp["cond"], st):
            return "end"               # the loop is left from an arbitrary iteration: go on with what follows
        r = run(body, st)
        if r == "break":
            return "end"
        if r == "return":
            return r
        for key, sgn, c in assumed:
            d = st.env.get(key, Lin.sym(key)) - (c + st.G.scale(sgn))
            if d != Lin(0) and sign_of(d, st.asm) != "==0":
                form_idx[(id(lp), key)] = form_idx.get((id(lp), key), 0) + 1
                raise Restart()
        # invariants preserved?
        if src_e is not None:
            d = evx(src_e, st) - (SRC + st.G)
            if d != Lin(0) and sign_of(d, st.asm) != "==0":
                problem(line, "after a round the source expression %s stands at %r, %r bytes have been copied" % (ir.show(src_e), evx(src_e, st), st.G), not opaque(d))
        if rem_e is not None:
            d = evx(rem_e, st) - (SIZE - st.G)
            if d != Lin(0) and sign_of(d, st.asm) != "==0":
                problem(line, "after a round the remainder %s is %r, %r bytes are left" % (ir.show(rem_e), evx(rem_e, st), SIZE - st.G), not opaque(d))
        return "stop"

    # ---- driver: depth-first over assumption splits and choices
    work = [((), {})]
    runs = 0
    while work:
        asm, choices = work.pop()
        runs += 1
        if runs > max_runs:
            notes.append("exploration cut after %d runs" % max_runs)
            break
        st = St()
        st.asm = asm
        st.choices = choices
        tagn[0] = 0
        try:
            r = run(ir.stmts(body), st)
            if r == "end":
                d = st.G - SIZE
                sg = sign_of(d, st.asm)
                returns.append((st.G, st.asm, True if sg == "==0" else (False if not (opaque(d) or havoc(d)) else None)))
        except NeedSplit as ns:
            cur = sign_of(ns.d, asm)
            options = {None: ("<0", ">=0"), ">=0": ("==0", ">0"), "<=0": ("<0", "==0"), "!=0": ("<0", ">0")}.get(cur)
            if options is None:
                notes.append("comparison stays open")
                continue
            rest = tuple(a for a in asm if a[0] != ns.d and a[0] != -ns.d)
            for rel in options:
                work.append((rest + ((ns.d, rel),), dict(choices)))
        except Choice as ch:
            node = ch.node
            if isinstance(node, tuple) and node[0] == "phase":
                for ph in ("base", "step"):
                    c2 = dict(choices)
                    c2[node] = ph
                    work.append((asm, c2))
            else:
                for val in (True, False):
                    c2 = dict(choices)
                    c2[id(node)] = val
                    work.append((asm, c2))
    return problems, returns, notes
