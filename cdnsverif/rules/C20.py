"""C20 Independent exporter/reader instances are safe to use from concurrent threads (sufficient condition)."""
from .. import ir, callgraph
from ..ir import path, path_str, unwrap, unwrap_all_casts, callee_name, callee_qn, show, const_value
from ..facts import AnalysisBroken

META = {
    "level": "proof",
    "rule_text": "Sufficient condition for 'no shared mutable state': R20.1 every object with static or thread storage "
                 "duration declared in the library (namespace scope, static members, function-local statics) is const/"
                 "constexpr without mutable sub-objects; R20.2 every external function the library calls is on an allow-list "
                 "of MT-safe functions (one reason per entry) and none is on the POSIX list of functions that need not be "
                 "thread-safe; R20.3 the only raw pointers stored in library objects point into the object's own buffer. R20.4: after a method released a descriptor member with ::close(), the member takes a new value and is never set back to a copy taken before the close. R20.5 = the name obligations of R15.1/R15.2 (distinct outputs are written through distinct scratch files). R20.6: a data member that is always assigned the same function of other members (cdnsverif/derived.py) is recomputed by every member function that changes those members; the lazy form under a validity flag / stored key is refreshed before every read and invalidated after every change. thread_local objects are per-thread state.",
    "explanation": "Effect analysis over declarations and the resolved call graph: a statement about the program text, hence "
                   "about all schedules. Every obligation is enumerated and must be discharged. Byte-identical outputs follow "
                   "from determinism plus absence of sharing; they are not observed here.",
    "trusted_base": ["zlib, liblzma, libstdc++ and boost keep no unsynchronised global state for distinct stream objects",
                     "POSIX.1-2017 section 2.9.1 list of functions that need not be thread-safe",
                     "clang 14 AST"],
    "assumptions": ["std::cerr writes from destructors/close paths are thread-safe per the C++ standard (may interleave)"],
}

# POSIX.1-2017 2.9.1: functions that need not be thread-safe (subset relevant to C/C++ code) + classic offenders
NOT_MT_SAFE = {
    "asctime", "basename", "catgets", "crypt", "ctime", "dbm_clearerr", "dbm_close", "dbm_delete", "dbm_error", "dbm_fetch",
    "dbm_firstkey", "dbm_nextkey", "dbm_open", "dbm_store", "dirname", "dlerror", "drand48", "encrypt", "endgrent", "endpwent",
    "endutxent", "ftw", "getc_unlocked", "getchar_unlocked", "getdate", "getenv", "getgrent", "getgrgid", "getgrnam",
    "gethostent", "getlogin", "getnetbyaddr", "getnetbyname", "getnetent", "getopt", "getprotobyname", "getprotobynumber",
    "getprotoent", "getpwent", "getpwnam", "getpwuid", "getservbyname", "getservbyport", "getservent", "getutxent",
    "getutxid", "getutxline", "gmtime", "hcreate", "hdestroy", "hsearch", "inet_ntoa", "l64a", "lgamma", "lgammaf",
    "lgammal", "localeconv", "localtime", "lrand48", "mrand48", "nftw", "nl_langinfo", "ptsname", "putc_unlocked",
    "putchar_unlocked", "putenv", "pututxline", "rand", "readdir", "setenv", "setgrent", "setkey", "setpwent", "setutxent",
    "strerror", "strsignal", "strtok", "system", "ttyname", "unsetenv", "wcstombs", "wctomb", "gethostbyname",
    "gethostbyaddr", "srand", "setlocale", "tmpnam", "ecvt", "fcvt", "gcvt",
}
# compiler builtins that are pure functions of their operands (bit counts, byte swaps, overflow-checked arithmetic on
# caller-supplied result slots, branch hints)
PURE_BUILTINS = ("__builtin_clz", "__builtin_ctz", "__builtin_popcount", "__builtin_ffs", "__builtin_bswap", "__builtin_parity",
                 "__builtin_expect", "__builtin_add_overflow", "__builtin_sub_overflow", "__builtin_mul_overflow", "__builtin_unreachable")
ALLOW = {
    "inet_ntop": "POSIX: thread-safe, writes only into the caller's buffer",
    "rename": "POSIX: thread-safe system call on caller-supplied paths",
    "fstat": "POSIX: thread-safe system call", "__fstat": "glibc alias of fstat", "fstat64": "glibc alias of fstat",
    "write": "POSIX: thread-safe system call on the object's own descriptor",
    "writev": "POSIX: thread-safe system call on the object's own descriptor",
    "close": "POSIX: thread-safe system call on the object's own descriptor",
    "strlen": "pure", "memcpy": "pure on caller buffers", "memset": "pure on caller buffers", "memcmp": "pure", "memmove": "pure on caller buffers",
    "toupper": "reads the global locale only (no write)", "tolower": "reads the global locale only (no write)",
    "deflateInit2_": "zlib: state in the caller's z_stream", "deflate": "zlib: state in the caller's z_stream",
    "deflateEnd": "zlib: state in the caller's z_stream",
    "__assert_fail": "glibc assert(): reports and aborts the whole process; touches no state of another instance",
    "abort": "terminates the process",
    "deflateReset": "zlib: state in the caller's z_stream", "deflateResetKeep": "zlib: state in the caller's z_stream",
    "deflateInit_": "zlib: state in the caller's z_stream", "deflateParams": "zlib: state in the caller's z_stream",
    "deflateBound": "zlib: reads the caller's z_stream", "deflatePending": "zlib: reads the caller's z_stream",
    "deflateSetHeader": "zlib: state in the caller's z_stream", "deflateSetDictionary": "zlib: state in the caller's z_stream",
    "crc32": "zlib: pure function of its arguments", "adler32": "zlib: pure function of its arguments",
    "lzma_stream_encoder": "liblzma: state in the caller's lzma_stream", "lzma_alone_encoder": "liblzma: state in the caller's lzma_stream",
    "lzma_lzma_preset": "liblzma: fills the caller's options structure",
    "lzma_easy_encoder": "liblzma: state in the caller's lzma_stream", "lzma_code": "liblzma: state in the caller's lzma_stream",
    "lzma_end": "liblzma: state in the caller's lzma_stream",
    "_mm_crc32_u8": "SSE4.2 intrinsic, pure", "_mm_crc32_u16": "SSE4.2 intrinsic, pure", "_mm_crc32_u32": "SSE4.2 intrinsic, pure",
    "_mm_crc32_u64": "SSE4.2 intrinsic, pure",
    "__builtin_ia32_crc32qi": "intrinsic", "__builtin_ia32_crc32hi": "intrinsic", "__builtin_ia32_crc32si": "intrinsic", "__builtin_ia32_crc32di": "intrinsic",
}


def lib_file(facts, f):
    p = f if isinstance(f, str) else f.get("file", "")
    return p.startswith(facts.repo + "/src/") and "/src/bin/" not in p


def short(q):
    return q.replace("CDNS::", "")


def guarded_static(facts, v):
    """A mutable function-local static is no shared *unprotected* state when it is the function's own std::mutex, or when every
    use of it in the function lies behind a lock of such a mutex taken in the function's outermost block (std::lock_guard /
    unique_lock / scoped_lock declared before the first use and alive to the end) and nothing of it leaves the function by
    reference: the function returns by value and does not hand out its address.  Returns the reason, or None."""
    t = (v.get("t") or "").replace("const ", "")
    if t in ("std::mutex", "std::recursive_mutex", "std::shared_mutex"):
        return "function-local static %s: the synchronisation object itself" % t
    fns = [f for f in facts.functions.values() if f.get("body") is not None and (f["qn"] == v.get("infunc") or f["qn"].split("(")[0] == (v.get("infunc") or "").split("(")[0])]
    if len(fns) != 1:
        return None
    f = fns[0]
    if (f.get("ret") or "").rstrip().endswith(("&", "*")):
        return None                 # a reference / pointer into the guarded object would be used after the lock is gone
    top = ir.stmts(f["body"])
    lock_at = None
    mutex = None
    for i, st in enumerate(top):
        if st.get("k") == "Decl":
            for d in st.get("vars", []):
                dt = (d.get("t") or "")
                if dt.startswith(("std::lock_guard<", "std::unique_lock<", "std::scoped_lock<")) and d.get("init") is not None:
                    for x in ir.walk(d["init"]):
                        if x.get("k") == "Ref" and x.get("d") == "staticlocal" and "mutex" in (x.get("t") or ""):
                            lock_at, mutex = i, x.get("n")
        if lock_at is not None:
            break
    if lock_at is None:
        return None
    name = v["qn"].split("::")[-1]
    for i, st in enumerate(top):
        for x in ir.walk(st):
            if x.get("k") == "Ref" and x.get("d") == "staticlocal" and x.get("n") == name:
                if i <= lock_at and st.get("k") != "Decl":
                    return None
                if i <= lock_at and not any(d.get("n") == name for d in st.get("vars", [])):
                    return None
            if x.get("k") == "MCall" and callee_name(x) in ("unlock", "release") and "lock" in show(x.get("recv")):
                return None
    # nothing of it escapes: no address taken into a member / global / returned pointer
    for x in ir.walk(f["body"]):
        if x.get("k") == "Return" and x.get("e") is not None:
            u = unwrap_all_casts(x["e"])
            if isinstance(u, dict) and u.get("k") == "Un" and u.get("op") == "&":
                return None
    return "function-local static of type %s: every use lies behind the lock of %s taken at the top of %s, which returns by value" % (
        v.get("t"), mutex, short(f["qn"]))


def check(run):
    # distinct outputs are written through distinct scratch files: scratch name = final name + .part (R15.1/R15.2 imported)
    from .. import derived as _derived
    _derived.report(run, "R20.6", ["CDNS::Writer<std::basic_string<char>>", "CDNS::Writer<int>", "CDNS::CdnsEncoder", "CDNS::CborOutputWriter", "CDNS::GzipCborOutputWriter", "CDNS::XzCborOutputWriter", "CDNS::CdnsExporter"])
    from . import C15 as _C15, C06 as _C06
    _C15.check_names(_C06._Renamed(run, {"R15.1": "R20.5", "R15.2": "R20.5"}), "R15.1", "R15.2", only_names=True)
    facts = run.facts
    # ---------------- R20.1 static storage
    n = 0
    for v in sorted(facts.vars, key=lambda v: (v["file"], v["line"])):
        if not lib_file(facts, v["file"]):
            continue
        n += 1
        immutable = (v["const"] or v["constexpr"]) and not v["mutable_fields"] and not v["tls"]
        if v.get("ptr") and not v.get("pointee_const", True):
            immutable = False
        if v["tls"] and not (v.get("ptr") or (v.get("t") or "").endswith(("*", "&"))):
            # one object per thread: instances used by different threads never meet in it (what it does to instances that
            # share a thread is a question of the property whose values it caches, not of thread safety)
            run.ob("R20.1", "static:%s" % short(v["qn"]), True, v["file"], v["line"], "thread_local object of type %s: not shared between threads" % v["t"])
            continue
        where = "function-local static in %s" % v["infunc"] if v.get("staticlocal") else ("static member" if v.get("staticmember") else "namespace scope")
        if not immutable and v.get("staticlocal"):
            how = guarded_static(facts, v)
            if how:
                run.ob("R20.1", "static:%s" % short(v["qn"]) + "@%s" % short(v.get("infunc", "")), True, v["file"], v["line"], how)
                continue
        run.ob("R20.1", "static:%s" % short(v["qn"]) + ("@%s" % short(v.get("infunc", "")) if v.get("staticlocal") else ""), immutable,
               v["file"], v["line"],
               "%s object of type %s is immutable" % (where, v["t"]) if immutable else
               "%s object %s of type %s is mutable and shared by all instances: concurrent use of independent exporters/readers races on it" % (where, v["qn"], v["t"]))
    # static locals inside function bodies (also caught through vars, this is the positive floor)
    run.floor("R20.1", 12, "static-storage declarations in library headers/sources")
    run.info["static_storage_objects"] = n

    # ---------------- R20.2 external callees
    ext = {}
    for f in facts.functions.values():
        if not lib_file(facts, f):
            continue
        for c in ir.calls_in(f["body"]):
            cal = c.get("callee") or {}
            q = cal.get("qn")
            if not q or cal.get("inrepo"):
                continue
            is_c = bool(cal.get("externc") or cal.get("builtin"))
            if cal.get("cls"):
                continue
            if not is_c and (q.startswith("std::") or q.startswith("boost::") or q.startswith("__gnu_cxx::")):
                continue      # C++ library templates/functions: trusted base; C functions re-exported in std:: are classified below
            if c.get("k") == "OpCall" and not is_c:
                continue
            ext.setdefault(q, []).append((f, c.get("l", 0)))
    for q, sites in sorted(ext.items()):
        f, line = sites[0]
        base = q.split("::")[-1]
        if base in NOT_MT_SAFE:
            run.ob("R20.2", "extern:%s" % q, False, f, line,
                   "%s() need not be thread-safe (POSIX.1-2017 2.9.1): it keeps hidden static state shared by all threads; called from %s" % (base, short(f["qn"])))
        elif base in ALLOW:
            run.ob("R20.2", "extern:%s" % q, True, f, line, "%s: %s (%d call sites)" % (base, ALLOW[base], len(sites)))
        elif base.startswith(PURE_BUILTINS):
            run.ob("R20.2", "extern:%s" % q, True, f, line, "%s: compiler builtin computing a value from its operands, no state (%d call sites)" % (base, len(sites)))
        else:
            run.ob("R20.2", "extern:%s" % q, None, f, line,
                   "external function %s is neither on the allow-list nor on the POSIX not-thread-safe list; add it with a reason" % q)
    run.floor("R20.2", 8, "external callees")
    run.info["external_callees"] = sorted(ext)

    # ---------------- R20.3 stored raw pointers point into the object's own buffer
    npt = 0
    local_types = set(f_.get("cls") for f_ in facts.functions.values() if f_.get("cls") and ")::" in (f_.get("qn") or ""))
    for q, r in sorted(facts.records.items()):
        if not lib_file(facts, r["file"]):
            continue
        if "::" not in q or q in local_types:
            continue      # a helper type declared inside a function: its objects live and die within one call of that function
        for fld in r["fields"]:
            if not fld.get("ptr"):
                continue
            npt += 1
            bad = []
            good = 0
            for f in facts.functions.values():
                if f.get("cls") != q:
                    continue
                sources = []
                for n_ in ir.walk(f["body"]):
                    if n_.get("k") == "Bin" and n_.get("op") == "=" and path(n_["lhs"]) == ("this", fld["n"]):
                        sources.append(n_["rhs"])
                for i in f.get("inits", []) or []:
                    if i.get("member") == fld["n"] and i.get("written"):
                        sources.append(i["init"])
                for src in sources:
                    u_src = ir.unwrap_all_casts(src)
                    if isinstance(u_src, dict) and (u_src.get("null") or u_src.get("k") == "NullPtr" or const_value(src) == 0 or const_value(u_src) == 0):
                        good += 1                 # a null pointer aliases nothing
                        continue
                    roots = set()
                    envs_ = ir.Env(f["body"]) if f.get("body") is not None else None

                    def add_roots(e_, depth=0):
                        for x in ir.walk(e_):
                            t = x.get("t") or ""
                            is_ptr = t.endswith("*") or "[" in t
                            if x.get("k") == "Member" and x.get("field"):
                                p = path(x)
                                if p and p[0] == "this" and (is_ptr or depth > 0 or addr_of):
                                    roots.add(p[1])
                            if x.get("k") == "Ref" and x.get("d") in ("param", "global", "local"):
                                lp_ = path(x)
                                d_ = envs_.defs.get(lp_[0]) if (envs_ is not None and lp_ and x.get("d") == "local") else None
                                if d_ is not None and depth < 3:
                                    # a local reference / pointer: what it was bound to
                                    add_roots(d_, depth + 1)
                                elif is_ptr or (addr_of and depth == 0) or (depth > 0 and t.endswith("&")):
                                    roots.add("<%s %s>" % (x.get("d"), x.get("n")))
                    addr_of = isinstance(u_src, dict) and u_src.get("k") == "Un" and u_src.get("op") == "&"
                    add_roots(src)
                    # (pointing into a member of the same object - an array, a container - shares nothing with another instance;
                    # whether the pointer survives what happens to that member is C19's and C03's business)
                    own_arrays = {g["n"] for g in r["fields"]}
                    if roots and roots <= own_arrays:
                        good += 1
                    else:
                        bad.append((f, show(src)))
            ok = not bad and good > 0
            run.ob("R20.3", "%s.%s" % (short(q), fld["n"]), ok, r["file"], fld.get("l", r["line"]),
                   "raw pointer member only ever points into the object's own buffer (%d assignments)" % good if ok else
                   ("raw pointer member is assigned from %s in %s: it may alias storage shared with other instances" % (bad[0][1], short(bad[0][0]["qn"])) if bad else
                    "no assignment of the pointer member found"))
    run.floor("R20.3", 3, "raw pointer members")

    # R20.4 a descriptor the object has released is not kept: the process-wide descriptor table hands the same number to
    # whoever opens a file next (possibly another thread's exporter), so a later write()/close() on the stale number
    # lands in an unrelated output.  This is the assumption behind the allow-list entries for write/close/fstat.
    n4 = 0
    for f in sorted(facts.functions.values(), key=lambda f: (f.get("file", ""), f.get("line", 0))):
        if not lib_file(facts, f) or f.get("body") is None or not f.get("cls"):
            continue
        body = f["body"]
        order = {id(x): i for i, x in enumerate(ir.walk(body))}
        # which member does this class hand to ::close()?
        closers = {}          # method qn -> member name released by it
        for g in facts.functions.values():
            if g.get("cls") != f["cls"] or g.get("body") is None:
                continue
            for c in ir.calls_in(g["body"]):
                if c.get("k") == "Call" and callee_name(c) == "close" and (c.get("callee") or {}).get("externc") and c.get("args"):
                    p = path(c["args"][0])
                    if p and len(p) == 1 and p[0].startswith("l:"):
                        # `int fd = m_fd; m_fd = -1; ::close(fd);` releases the member's descriptor through a local copy
                        for d_ in ir.walk(g["body"]):
                            if d_.get("k") == "Decl":
                                for v_ in d_.get("vars", []):
                                    if "n" in v_ and "l:%s#%s" % (v_["n"], v_["id"]) == p[0] and v_.get("init") is not None:
                                        p = path(v_["init"]) or p
                    if p and p[0] == "this" and len(p) == 2:
                        closers[g["qn"]] = p[1]
        if not closers or f.get("dtor") or f["qn"] in closers:
            continue
        for c in ir.calls_in(body):
            mem = None
            if c.get("k") == "MCall" and callee_qn(c) in closers and unwrap(c.get("recv") or {}).get("k") == "This":
                mem = closers[callee_qn(c)]
            if mem is None:
                continue
            n4 += 1
            # copies of the descriptor taken before the release
            stale = set()
            for d in ir.walk(body):
                if d.get("k") == "Decl" and order[id(d)] < order[id(c)]:
                    for v in d.get("vars", []):
                        if v.get("init") is not None and path(v["init"]) == ("this", mem) and "n" in v:
                            stale.add("l:%s#%s" % (v["n"], v["id"]))
            after = []
            for x in ir.walk(body):
                if x.get("k") == "Bin" and x.get("op") == "=" and path(x.get("lhs")) == ("this", mem) and order[id(x)] > order[id(c)]:
                    after.append(x)
            bad = [x for x in after if path(x.get("rhs")) and path_str(path(x["rhs"])) in stale]
            ok = bool(after) and not bad
            run.ob("R20.4", "%s:%s-not-kept-after-close" % (short(f["qn"]), mem), ok, f, (bad[0] if bad else c).get("l", 0),
                   "after releasing the descriptor the member takes a new value" if ok else
                   ("`%s` is set back to the descriptor that was just closed (copied before the close): the object keeps a number the "
                    "process may hand to another thread's output; its later write()/close() hit that output" % mem if bad else
                    "`%s` still holds the closed descriptor when %s returns" % (mem, short(f["qn"]))))
    run.floor("R20.4", 1, "release sites of a descriptor member")

