"""Mutation corpus for the thorough-tier self-test.

MUTANTS: property-breaking edits that keep the tree compiling (and, as validated during design,
passing the repository's test-suite).  Each names the rule that must report it.
NEUTRAL: behaviour-preserving edits that every listed property's rules must stay silent on.
An edit is (file, old text, new text); old must occur exactly once, otherwise the edit is skipped.
"""

B = "src/block.cpp"
BH = "src/block.h"
FP = "src/file_preamble.cpp"
EN = "src/cdns_encoder.cpp"
ENH = "src/cdns_encoder.h"
DE = "src/cdns_decoder.cpp"
DEH = "src/cdns_decoder.h"
CH = "src/cdns.h"
CC = "src/cdns.cpp"
WH = "src/writer.h"
WC = "src/writer.cpp"
TS = "src/timestamp.cpp"
TSH = "src/timestamp.h"
BT = "src/block_table.h"
IF = "src/interface.cpp"
MG = "src/bin/cdns_merge.cpp"
IC = "src/bin/cdns_itemcount.cpp"


def m(id, prop, rule, edits, desc, **kw):
    d = {"id": id, "prop": prop, "rule": rule, "edits": edits, "desc": desc}
    d.update(kw)
    return d


MUTANTS = [
    # ---------------------------------------------------------------- C02
    m("c02-rr-count", "C02", "R02.1", [(B, "std::size_t fields = 2 + !!ttl + !!rdata_index;", "std::size_t fields = 2 + !!ttl;")],
      "RR::write forgets rdata_index in the declared count"),
    m("c02-sp-count", "C02", "R02.1", [(FP, " + !!sampling_method\n", "\n")],
      "StorageParameters::write forgets sampling_method in the declared count"),
    m("c02-early-return", "C02", "R02.2",
      [(B, "    std::size_t fields = !!bailiwick_index + !!processing_flags;\n\n    std::size_t written = 0;",
        "    std::size_t fields = !!bailiwick_index + !!processing_flags;\n\n    if (fields == 0)\n        return 0;\n\n    std::size_t written = 0;")],
      "ResponseProcessingData::write returns 0 for an empty value (reverted fix F1)"),
    m("c02-no-reset", "C02", "R02.3", [(CH, "            m_encoder.rotate_output(out);\n            m_blocks_written = 0;", "            m_encoder.rotate_output(out);")],
      "rotate_output does not reset m_blocks_written: next output gets no header"),
    m("c02-break-always", "C02", "R02.3", [(CH, "            if (m_blocks_written > 0)\n                written += m_encoder.write_break();", "            written += m_encoder.write_break();")],
      "rotate_output writes a break into an output that has no blocks"),
    m("c02-header-late", "C02", "R02.3", [(CC, "    if (m_blocks_written == 0)\n        written += write_file_header();\n\n    // Write the given C-DNS block to output\n    written += block.write(m_encoder);",
                                            "    // Write the given C-DNS block to output\n    written += block.write(m_encoder);\n    if (m_blocks_written == 0)\n        written += write_file_header();")],
      "file header written after the first block"),
    m("c02-index-wrong-table", "C02", "R02.6", [(B, "rr.rdata_index = add_name_rdata(*grr.rdata);", "rr.rdata_index = add_ip_address(*grr.rdata);")],
      "rdata index taken from the ip-address table"),
    m("c02-mandatory-optional", "C02", "R02.5", [(B, "    // Write Ae count\n    written += enc.write(get_map_index(CDNS::AddressEventCountMapIndex::ae_count));\n    written += enc.write(ae_count);",
                                                  "    // Write Ae count\n    if (ae_count > 1) {\n    written += enc.write(get_map_index(CDNS::AddressEventCountMapIndex::ae_count));\n    written += enc.write(ae_count);\n    }"),
                                                 (B, "std::size_t fields = 3 + !!ae_code + !!ae_transport_flags;", "std::size_t fields = 2 + !!ae_code + !!ae_transport_flags + (ae_count > 1);")],
      "mandatory ae-count emitted only when > 1 (count kept consistent)"),
    m("c02-empty-block", "C02", "R02.4", [(CC, "    if (block.get_item_count() == 0)\n        return 0;\n\n", "")],
      "write_block(block) writes header + empty block"),
    # ---------------------------------------------------------------- C06
    m("c06-threshold16", "C06", "R06.2", [(EN, "std::size_t CDNS::CdnsEncoder::write(uint16_t value)\n{\n    if (m_avail < 3)", "std::size_t CDNS::CdnsEncoder::write(uint16_t value)\n{\n    if (m_avail < 2)")],
      "write(uint16_t) flushes only when fewer than 2 bytes are free"),
    m("c06-threshold-map", "C06", "R06.2", [(EN, "std::size_t CDNS::CdnsEncoder::write_map_start(std::size_t size)\n{\n    if (m_avail < 9)", "std::size_t CDNS::CdnsEncoder::write_map_start(std::size_t size)\n{\n    if (m_avail < 5)")],
      "write_map_start threshold 5 for a size_t argument"),
    m("c06-boundary24", "C06", "R06.1", [(EN, "if (value <= 23) {", "if (value <= 24) {")], "head boundary at 24"),
    m("c06-shift", "C06", "R06.1", [(EN, "            m_p[1] = value >> 24;\n            m_p[2] = value >> 16;", "            m_p[1] = value >> 24;\n            m_p[2] = value >> 8;")],
      "wrong big-endian shift in the 5-byte head"),
    m("c06-ai", "C06", "R06.1", [(EN, "m_p[0] = static_cast<uint8_t>(major) | 26;", "m_p[0] = static_cast<uint8_t>(major) | 27;")], "wrong additional information"),
    m("c06-neg", "C06", "R06.3", [(EN, "std::size_t CDNS::CdnsEncoder::write(int8_t value)\n{\n    std::size_t written;\n\n    if (m_avail < 2)\n        flush_buffer();\n    if (value < 0) {\n        written = write_int(~value, CborType::NEGATIVE);",
                                   "std::size_t CDNS::CdnsEncoder::write(int8_t value)\n{\n    std::size_t written;\n\n    if (m_avail < 2)\n        flush_buffer();\n    if (value < 0) {\n        written = write_int(-value, CborType::NEGATIVE);")],
      "negative int8 encoded as -n instead of -1-n"),
    m("c06-bool", "C06", "R06.3", [(EN, "        written = write_int(21, CborType::SIMPLE);\n    else\n        written = write_int(20, CborType::SIMPLE);", "        written = write_int(20, CborType::SIMPLE);\n    else\n        written = write_int(21, CborType::SIMPLE);")],
      "true/false codes swapped"),
    m("c06-text-major", "C06", "R06.3", [(EN, "std::size_t written = write_int(size, CborType::TEXT_STRING);", "std::size_t written = write_int(size, CborType::BYTE_STRING);")],
      "text strings written with the byte-string major"),
    m("c06-break-code", "C06", "R06.3", [(EN, "m_p[0] = static_cast<uint8_t>(CborType::SIMPLE) | 31;", "m_p[0] = static_cast<uint8_t>(CborType::SIMPLE) | 30;")], "wrong break code"),
    m("c06-string-order", "C06", "R06.5", [(EN, "        size_left -= m_avail;\n        str_left += m_avail;\n        update_buffer(m_avail);", "        update_buffer(m_avail);\n        size_left -= m_avail;\n        str_left += m_avail;")],
      "write_string updates the buffer before subtracting (m_avail already 0)"),
    m("c06-string-noflush", "C06", "R06.5", [(EN, "        update_buffer(m_avail);\n        flush_buffer();\n    }", "        update_buffer(m_avail);\n    }")],
      "write_string never flushes between rounds"),
    m("c06-ret", "C06", "R06.6", [(EN, "    write_string(str, size);\n    return written + size;\n}\n\nstd::size_t CDNS::CdnsEncoder::write_break()", "    write_string(str, size);\n    return written;\n}\n\nstd::size_t CDNS::CdnsEncoder::write_break()")],
      "write_textstring returns only the head bytes"),
    # ---------------------------------------------------------------- C10
    m("c10-drop", "C10", "R10.1", [(B, "        written += enc.write_textstring(asn.value());", "        enc.write_textstring(asn.value());")],
      "byte count of the asn text string dropped"),
    m("c10-overwrite", "C10", "R10.1", [(B, "        written += enc.write_textstring(country_code.value());", "        written = enc.write_textstring(country_code.value());")],
      "accumulator overwritten"),
    m("c10-header-uncounted", "C10", "R10.1", [(CC, "        written += write_file_header();", "        write_file_header();")], "header bytes not counted"),
    m("c10-break-uncounted", "C10", "R10.1", [(CH, "                written += m_encoder.write_break();", "                m_encoder.write_break();")], "rotate break not counted"),
    m("c10-prim-ret", "C10", "R10.2", [(EN, "    write_string(str, size);\n    return written + size;\n}\n\nstd::size_t CDNS::CdnsEncoder::write_textstring", "    write_string(str, size);\n    return size;\n}\n\nstd::size_t CDNS::CdnsEncoder::write_textstring")],
      "write_bytestring omits the head from its count"),
    m("c10-return-const", "C10", "R10.1", [(TS, "    written += enc.write(m_ticks);\n\n    return written;", "    written += enc.write(m_ticks);\n\n    return 3;")],
      "Timestamp::write returns a constant"),
]

NEUTRAL_PLACEHOLDER = None
NEUTRAL = [
    {"id": "n-reorder-rr", "props": ["C02", "C10", "C09", "C01"],
     "edits": [(B, "    // Write TTL\n    if (ttl) {\n        written += enc.write(get_map_index(CDNS::RrMapIndex::ttl));\n        written += enc.write(ttl.value());\n    }\n\n    // Write RDATA index\n    if (rdata_index) {\n        written += enc.write(get_map_index(CDNS::RrMapIndex::rdata_index));\n        written += enc.write(rdata_index.value());\n    }",
                "    // Write RDATA index\n    if (rdata_index) {\n        written += enc.write(get_map_index(CDNS::RrMapIndex::rdata_index));\n        written += enc.write(rdata_index.value());\n    }\n\n    // Write TTL\n    if (ttl) {\n        written += enc.write(get_map_index(CDNS::RrMapIndex::ttl));\n        written += enc.write(ttl.value());\n    }")]},
    {"id": "n-is-initialized", "props": ["C02", "C10", "C09", "C01"],
     "edits": [(B, "    // Write TTL\n    if (ttl) {\n        written += enc.write(get_map_index(CDNS::RrMapIndex::ttl));\n        written += enc.write(ttl.value());",
                "    // Write TTL\n    if (ttl.is_initialized()) {\n        written += enc.write(get_map_index(CDNS::RrMapIndex::ttl));\n        written += enc.write(*ttl);")]},
    {"id": "n-rename-acc", "props": ["C02", "C10"],
     "edits": [(TS, "    std::size_t written = 0;\n\n    // Start Timestamp array\n    written += enc.write_array_start(2);\n\n    // Write Seconds\n    written += enc.write(m_secs);\n\n    // Write Ticks\n    written += enc.write(m_ticks);\n\n    return written;",
                "    std::size_t total = 0;\n\n    total += enc.write_array_start(2);\n    total += enc.write(m_secs);\n    total = total + enc.write(m_ticks);\n\n    return total;")]},
    {"id": "n-string-le", "props": ["C06"],
     "edits": [(EN, "    while(m_avail < size_left) {", "    while(m_avail <= size_left) {")]},
    {"id": "n-threshold-generous", "props": ["C06"],
     "edits": [(EN, "std::size_t CDNS::CdnsEncoder::write(uint8_t value)\n{\n    if (m_avail < 2)", "std::size_t CDNS::CdnsEncoder::write(uint8_t value)\n{\n    if (m_avail < 9)")]},
    {"id": "n-value-lt", "props": ["C06"],
     "edits": [(EN, "if (value <= 23) {", "if (value < 24) {")]},
    {"id": "n-empty-check-size", "props": ["C02", "C12"],
     "edits": [(CC, "    if (block.get_item_count() == 0)\n        return 0;", "    if (!(block.get_item_count() > 0))\n        return 0;")]},
]

MUTANTS += [
    # ---------------------------------------------------------------- C05
    m("c05-revert-f2", "C05", "R05.1", [(DE, "        if (m_p == m_end)\n            throw CdnsDecoderEnd(\"End of input stream\");\n", "")],
      "read_to_buffer returns after a 0-byte refill (reverted fix F2)"),
    m("c05-eof-only", "C05", "R05.1", [(DE, "        if (m_p == m_end)\n            throw CdnsDecoderEnd(\"End of input stream\");\n", "        if (m_input.bad())\n            throw CdnsDecoderEnd(\"End of input stream\");\n")],
      "post-refill test looks at badbit only", expect_broken=True),
    m("c05-stale-read", "C05", "R05.2", [(DE, "            for (unsigned i = 0; i < chunk_length; i++) {\n                read_to_buffer();\n", "            for (unsigned i = 0; i < chunk_length; i++) {\n")],
      "chunk bytes read without refill check"),
    m("c05-move-then-read", "C05", "R05.2", [(DE, "    additional = m_p[0] & 0x1F;\n    m_p++;", "    m_p++;\n    additional = m_p[-1] & 0x1F;")],
      "cursor moved before the head byte is read (offset -1 not covered by the refill check)"),
    m("c05-swallow", "C05", "R05.3", [(CC, "    block.read(m_decoder, m_file_preamble.m_block_parameters);\n    m_blocks_read++;",
                                       "    try {\n        block.read(m_decoder, m_file_preamble.m_block_parameters);\n    }\n    catch (CdnsDecoderEnd& e) {\n    }\n    m_blocks_read++;")],
      "read_block swallows end-of-input and returns a partial block"),
    # ---------------------------------------------------------------- C07
    m("c07-no-simple-arm", "C07", "R07.1", [(DE, "            case CborType::SIMPLE:\n                if (item_length >= 28 && item_length <= 30) {\n                    throw CdnsDecoderException((\"Unsupported CBOR additional information value: \" +\n                                                std::to_string(item_length)).c_str());\n                }\n                read_int(item_length);\n                break;\n\n", "")],
      "skip_item has no arm for simple values/floats"),
    m("c07-revert-f3a", "C07", "R07.2", [(DE, "        while (peek_type() != CborType::BREAK) {", "        while (peek_type() != CborType::SIMPLE) {")], "read_string stop-code test against SIMPLE (reverted F3)"),
    m("c07-revert-f3b", "C07", "R07.2", [(DE, "            if (peek_type() == CborType::BREAK) {\n                read_break();\n                pending.pop_back();", "            if (peek_type() == CborType::SIMPLE) {\n                read_break();\n                pending.pop_back();")], "skip_item stop-code test against SIMPLE (reverted F3)"),
    m("c07-revert-f4", "C07", "R07.3", [(DE, "                read_int(item_length);\n                // A tag is a single data item together with its content\n                pending.push_back({1, false});\n                break;", "                read_int(item_length);\n                break;")], "tag content not skipped (reverted F4)"),
    m("c07-width", "C07", "R07.4", [(DE, "for (int i = 1 << (item_length - 24); i > 0; i--) {", "for (int i = item_length - 23; i > 0; i--) {")], "argument widths 1,2,3,4 instead of 1,2,4,8"),
    m("c07-endian", "C07", "R07.4", [(DE, "value += (static_cast<uint64_t>(m_p[0]) << ((i - 1) * 8));", "value += (static_cast<uint64_t>(m_p[0]) << (((1 << (item_length - 24)) - i) * 8));")], "little-endian assembly"),
    m("c07-reserved", "C07", "R07.4", [(DE, "    if (cbor_type != CborType::UNSIGNED) {\n        throw CdnsDecoderException((\"read_unsigned() called on wrong major type \" +\n                                    std::to_string(static_cast<uint8_t>(cbor_type) >> 5)).c_str());\n    }\n    else if (item_length >= 28) {", "    if (cbor_type != CborType::UNSIGNED) {\n        throw CdnsDecoderException((\"read_unsigned() called on wrong major type \" +\n                                    std::to_string(static_cast<uint8_t>(cbor_type) >> 5)).c_str());\n    }\n    else if (item_length > 28) {")],
      "read_unsigned accepts reserved additional information 28"),
    # ---------------------------------------------------------------- C08
    m("c08-default-noskip", "C08", "R08.1", [(B, "                malformed_items = dec.read_unsigned();\n                break;\n            default:\n                dec.skip_item();\n                break;", "                malformed_items = dec.read_unsigned();\n                break;\n            default:\n                break;")],
      "BlockStatistics::read ignores unknown keys without skipping their value"),
    m("c08-extra-dec", "C08", "R08.1", [(B, "            case get_map_index(RrMapIndex::ttl):\n                ttl = dec.read_unsigned();\n                break;", "            case get_map_index(RrMapIndex::ttl):\n                ttl = dec.read_unsigned();\n                length--;\n                break;")],
      "extra length-- in the ttl case of RR::read"),
    m("c08-fallthrough", "C08", "R08.1", [(B, "                mm_transport_flags = static_cast<QueryResponseTransportFlagsMask>(dec.read_unsigned());\n                break;\n            case get_map_index(MalformedMessageDataMapIndex::mm_payload):", "                mm_transport_flags = static_cast<QueryResponseTransportFlagsMask>(dec.read_unsigned());\n            case get_map_index(MalformedMessageDataMapIndex::mm_payload):")],
      "missing break in MalformedMessageData::read"),
    m("c08-definite-only", "C08", "R08.1", [(B, "    bool is_name_index = false;\n    bool is_classtype_index = false;\n\n    bool indef = false;\n    uint64_t length = dec.read_map_start(indef);\n\n    while (length > 0 || indef) {\n        if (indef && dec.peek_type() == CborType::BREAK) {\n            dec.read_break();\n            break;\n        }\n\n        switch (dec.read_integer()) {\n            case get_map_index(QuestionMapIndex::name_index):",
                                             "    bool is_name_index = false;\n    bool is_classtype_index = false;\n\n    bool indef = false;\n    uint64_t length = dec.read_map_start(indef);\n\n    while (length > 0) {\n        if (indef && dec.peek_type() == CborType::BREAK) {\n            dec.read_break();\n            break;\n        }\n\n        switch (dec.read_integer()) {\n            case get_map_index(QuestionMapIndex::name_index):")],
      "Question::read handles only definite-length maps"),
    m("c08-conditional-consume", "C08", "R08.1", [(B, "            case get_map_index(QueryResponseMapIndex::client_port):\n                client_port = dec.read_unsigned();\n                break;", "            case get_map_index(QueryResponseMapIndex::client_port):\n                if (!client_port)\n                    client_port = dec.read_unsigned();\n                break;")],
      "value consumed only if the member is not set yet (duplicate key desynchronises)"),
    m("c08-no-reset", "C08", "R08.4", [(B, "void CDNS::RR::read(CdnsDecoder& dec)\n{\n    reset();", "void CDNS::RR::read(CdnsDecoder& dec)\n{")], "RR::read keeps members of a previous read"),
    m("c08-offset-in-loop", "C08", "R08.2", [(B, "                dec.read_array([this](CdnsDecoder& dec){\n                    MalformedMessage tmp;\n                    tmp.read(dec);\n                    m_malformed_messages.push_back(std::move(tmp));\n                });",
                                              "                dec.read_array([this](CdnsDecoder& dec){\n                    MalformedMessage tmp;\n                    tmp.read(dec);\n                    if (tmp.time_offset) {\n                        uint64_t off = tmp.time_offset->m_secs;\n                        tmp.time_offset = m_block_preamble.earliest_time;\n                        tmp.time_offset->add_time_offset(off, m_block_parameters.storage_parameters.ticks_per_second);\n                    }\n                    m_malformed_messages.push_back(std::move(tmp));\n                });"),
                                             (B, "    for (auto& mm : m_malformed_messages) {\n        if (mm.time_offset) {\n            uint64_t offset = mm.time_offset->m_secs;\n            mm.time_offset = m_block_preamble.earliest_time;\n            mm.time_offset->add_time_offset(offset, m_block_parameters.storage_parameters.ticks_per_second);\n        }\n    }\n\n", "")],
      "malformed-message offsets resolved while the map is still being read (depends on member order)"),
]

NEUTRAL += [
    {"id": "n-for-header-dec", "props": ["C08", "C09", "C01"],
     "edits": [(B, "    bool is_name_index = false;\n    bool is_classtype_index = false;\n\n    bool indef = false;\n    uint64_t length = dec.read_map_start(indef);\n\n    while (length > 0 || indef) {\n        if (indef && dec.peek_type() == CborType::BREAK) {\n            dec.read_break();\n            break;\n        }\n\n        switch (dec.read_integer()) {\n            case get_map_index(QuestionMapIndex::name_index):\n                name_index = dec.read_unsigned();\n                is_name_index = true;\n                break;\n            case get_map_index(QuestionMapIndex::classtype_index):\n                classtype_index = dec.read_unsigned();\n                is_classtype_index = true;\n                break;\n            default:\n                dec.skip_item();\n                break;\n        }\n\n        length--;\n    }",
                "    bool is_name_index = false;\n    bool is_classtype_index = false;\n\n    bool indef = false;\n    uint64_t length = dec.read_map_start(indef);\n\n    for (; indef || length != 0; length--) {\n        if (indef && dec.peek_type() == CborType::BREAK) {\n            dec.read_break();\n            break;\n        }\n\n        switch (dec.read_integer()) {\n            case get_map_index(QuestionMapIndex::classtype_index):\n                classtype_index = dec.read_unsigned();\n                is_classtype_index = true;\n                break;\n            case get_map_index(QuestionMapIndex::name_index):\n                name_index = dec.read_unsigned();\n                is_name_index = true;\n                break;\n            default:\n                dec.skip_item();\n                break;\n        }\n    }")]},
    {"id": "n-gcount-test", "props": ["C05", "C03"],
     "edits": [(DE, "        if (m_p == m_end)\n            throw CdnsDecoderEnd(\"End of input stream\");", "        if (m_input.gcount() == 0)\n            throw CdnsDecoderEnd(\"End of input stream\");")]},
    {"id": "n-skip-break-explicit", "props": ["C07", "C08"],
     "edits": [(DE, "        else if (pending.back().items_left == 0) {\n            pending.pop_back();\n            continue;\n        }\n        else {\n            pending.back().items_left--;\n        }", "        else if (!(pending.back().items_left > 0)) {\n            pending.pop_back();\n            continue;\n        }\n        else {\n            pending.back().items_left -= 1;\n        }")]},
]

FS = "src/format_specification.h"
MUTANTS += [
    # ---------------------------------------------------------------- C01
    m("c01-generic-swap", "C01", "R01.3", [(B, "    gqr.response_size = qr.response_size;", "    gqr.response_size = qr.query_size;")], "read_generic_qr restores response_size from query_size"),
    m("c01-wrong-table-read", "C01", "R01.3", [(B, "        gqr.query_name = get_name_rdata(*qr.query_name_index);", "        gqr.query_name = get_ip_address(*qr.query_name_index);")], "query name looked up in the ip-address table"),
    m("c01-wrong-table-write", "C01", "R01.3", [(B, "            rpd.bailiwick_index = add_name_rdata(*gr.bailiwick);", "            rpd.bailiwick_index = add_ip_address(*gr.bailiwick);")], "bailiwick stored in the ip-address table"),
    m("c01-key-renumber", "C01", "R01.2", [(FS, "        response_delay = 6,\n        query_name_index = 7,", "        response_delay = 7,\n        query_name_index = 6,")], "two QueryResponse keys renumbered consistently on both sides (invisible to write/read agreement)"),
    m("c01-symmetric-swap", "C01", "R01.6", [(B, "        written += enc.write(get_map_index(CDNS::QueryResponseMapIndex::client_port));\n        written += enc.write(client_port.value());", "        written += enc.write(get_map_index(CDNS::QueryResponseMapIndex::transaction_id));\n        written += enc.write(client_port.value());"),
                                             (B, "        written += enc.write(get_map_index(CDNS::QueryResponseMapIndex::transaction_id));\n        written += enc.write(transaction_id.value());", "        written += enc.write(get_map_index(CDNS::QueryResponseMapIndex::client_port));\n        written += enc.write(transaction_id.value());"),
                                             (B, "            case get_map_index(QueryResponseMapIndex::client_port):\n                client_port = dec.read_unsigned();", "            case get_map_index(QueryResponseMapIndex::client_port):\n                transaction_id = dec.read_unsigned();"),
                                             (B, "            case get_map_index(QueryResponseMapIndex::transaction_id):\n                transaction_id = dec.read_unsigned();", "            case get_map_index(QueryResponseMapIndex::transaction_id):\n                client_port = dec.read_unsigned();")],
      "client_port and transaction_id swapped between their keys on both sides"),
    m("c01-reader-member", "C01", "R01.1", [(B, "            case get_map_index(QueryResponseSignatureMapIndex::query_nscount):\n                query_nscount = dec.read_unsigned();", "            case get_map_index(QueryResponseSignatureMapIndex::query_nscount):\n                query_arcount = dec.read_unsigned();")], "nscount read into arcount"),
    m("c01-kind", "C01", "R01.1", [(B, "                response_delay = dec.read_integer();", "                response_delay = dec.read_unsigned();")], "signed response_delay read with read_unsigned"),
    m("c01-time-ref", "C01", "R01.4", [(B, "            written += mm.write(enc, m_block_preamble.earliest_time, m_block_parameters.storage_parameters.ticks_per_second);", "            written += mm.write(enc, Timestamp(), m_block_parameters.storage_parameters.ticks_per_second);")], "malformed messages written relative to the epoch instead of earliest_time"),
    m("c01-time-rate", "C01", "R01.4", [(B, "            mm.time_offset->add_time_offset(offset, m_block_parameters.storage_parameters.ticks_per_second);", "            mm.time_offset->add_time_offset(offset, DEFAULT_TICKS_PER_SECOND);")], "offset restored with the default rate instead of the block's"),
    m("c01-aec-miss", "C01", "R01.5", [(B, "        found->second++;\n    else\n        m_address_event_counts[aec] = 1;\n\n    // Update block statistics", "        found->second++;\n    else\n        m_address_event_counts[aec] = 0;\n\n    // Update block statistics")], "first occurrence of an address event counted as 0"),
    m("c01-mm-payload-text", "C01", "R01.2", [(B, "        written += enc.write_bytestring(mm_payload.value());", "        written += enc.write_textstring(mm_payload.value());"), (B, "                mm_payload = dec.read_bytestring();", "                mm_payload = dec.read_textstring();")],
      "mm-payload written and read as text string (RFC: bstr)"),
    # ---------------------------------------------------------------- C09
    m("c09-wrong-member", "C09", "R09.1", [(FP, "                sampling_method = dec.read_textstring();", "                anonymization_method = dec.read_textstring();")], "sampling-method read into anonymization_method"),
    m("c09-narrow", "C09", "R09.4", [(FP, "            written += enc.write(id);", "            written += enc.write(static_cast<uint8_t>(id));")], "VLAN ids narrowed to 8 bits on the way out"),
    m("c09-revert-f9", "C09", "R09.2", [(FP, "    // Private version is optional: it is set only if the input contains it\n    m_private_version = boost::none;\n", "")], "absent private version reads back as 1 (reverted F9)"),
    m("c09-kind", "C09", "R09.1", [(FP, "                promisc = dec.read_bool();", "                promisc = dec.read_unsigned();")], "promisc written as simple value, read with read_unsigned"),
    m("c09-missing-case", "C09", "R09.1", [(FP, "            case get_map_index(CollectionParametersMapIndex::host_id):\n                host_id = dec.read_textstring();\n                break;\n", "")], "host-id never read back"),
    m("c09-empty-cp", "C09", "R09.3", [(FP, "                         + !!server_address.size() + !!vlan_ids.size() + !!filter + !!generator_id + !!host_id;\n\n    std::size_t written = 0;", "                         + !!server_address.size() + !!vlan_ids.size() + !!filter + !!generator_id + !!host_id;\n\n    if (fields == 0)\n        return 0;\n\n    std::size_t written = 0;")], "empty collection parameters written as nothing (reverted F1)"),
    m("c09-list-front", "C09", "R09.5", [(FP, "                    interfaces.push_back(dec.read_textstring());", "                    interfaces.insert(interfaces.begin(), dec.read_textstring());")], "interfaces read back in reverse order"),
    m("c09-key", "C09", "R09.1", [(FS, "        sampling_method = 10,\n        anonymization_method = 11,", "        sampling_method = 11,\n        anonymization_method = 10,")], "storage-parameter keys renumbered"),
]

MUTANTS += [
    # ---------------------------------------------------------------- C04
    m("c04-hoist-insert", "C04", "R04.2", [(B, "    // Client IP address\n    if ((qr_hints & QueryResponseHintsMask::client_address_index) && gr.client_ip) {\n        qr.client_address_index = add_ip_address(*gr.client_ip);",
                                             "    // Client IP address\n    index_t client_idx = gr.client_ip ? add_ip_address(*gr.client_ip) : 0;\n    if ((qr_hints & QueryResponseHintsMask::client_address_index) && gr.client_ip) {\n        qr.client_address_index = client_idx;")],
      "client address inserted into the table before its hint is tested"),
    m("c04-wrong-bit", "C04", "R04.1", [(B, "    if ((qr_hints & QueryResponseHintsMask::transaction_id) && gr.transaction_id) {", "    if ((qr_hints & QueryResponseHintsMask::client_port) && gr.transaction_id) {")],
      "transaction_id guarded by the client_port bit"),
    m("c04-wrong-word", "C04", "R04.1", [(B, "        if ((qr_sig_hints & QueryResponseSignatureHintsMask::server_port) && gr.server_port) {", "        if ((qr_hints & QueryResponseSignatureHintsMask::server_port) && gr.server_port) {")],
      "server_port bit tested in the query-response hint word"),
    m("c04-ttl-unguarded", "C04", "R04.1", [(B, "        if ((rr_hints & RrHintsMask::ttl) && grr.ttl)\n            rr.ttl = *grr.ttl;", "        if (grr.ttl)\n            rr.ttl = *grr.ttl;")], "rr.ttl stored regardless of its hint"),
    m("c04-aec-nohint", "C04", "R04.4", [(B, "    if (!(m_block_parameters.storage_parameters.storage_hints.other_data_hints & OtherDataHintsMask::address_event_counts))\n        return false;\n\n    auto found", "    auto found")],
      "direct add_address_event_count without the hint test"),
    m("c04-revert-f17", "C04", "R04.4", [(B, "    // Check if Malformed messages are buffered in this Block\n    if (!(m_block_parameters.storage_parameters.storage_hints.other_data_hints & OtherDataHintsMask::malformed_messages))\n        return false;\n\n    std::size_t fields", "    std::size_t fields")],
      "direct add_malformed_message without the hint test (reverted F17)"),
    m("c04-mm-wrong-bit", "C04", "R04.4", [(B, "    // Check if Malformed messages are buffered in this Block\n    if (!(m_block_parameters.storage_parameters.storage_hints.other_data_hints & OtherDataHintsMask::malformed_messages))\n        return false;\n\n    // Check if it'll be the first item", "    // Check if Malformed messages are buffered in this Block\n    if (!(m_block_parameters.storage_parameters.storage_hints.other_data_hints & OtherDataHintsMask::address_event_counts))\n        return false;\n\n    // Check if it'll be the first item")],
      "malformed messages gated by the address-event bit"),
    m("c04-unreachable", "C04", "R04.3", [(B, "        if ((qr_sig_hints & QueryResponseSignatureHintsMask::query_opt_rdata_index) && gr.query_opt_rdata) {\n            qrs.query_opt_rdata_index = add_name_rdata(*gr.query_opt_rdata);\n            qrs_filled = true;\n        }", "        if ((qr_sig_hints & QueryResponseSignatureHintsMask::query_opt_rdata_index) && gr.query_opt_rdata) {\n            qrs.query_opt_rdata_index = add_name_rdata(*gr.query_opt_rdata);\n        }")],
      "OPT rdata inserted without marking the signature filled (table entry can be unreachable)"),
    m("c04-section-bit", "C04", "R04.1", [(B, "    if ((qr_hints & QueryResponseHintsMask::response_authority_sections) && gr.response_authority", "    if ((qr_hints & QueryResponseHintsMask::query_authority_sections) && gr.response_authority")],
      "response authority section gated by the query authority bit"),
    m("c04-rearm-index", "C04", "R04.5", [(CH, "            m_block.set_block_parameters(m_file_preamble.get_block_parameters(m_active_block_parameters),\n                                         m_active_block_parameters);", "            m_block.set_block_parameters(m_file_preamble.get_block_parameters(m_active_block_parameters),\n                                         0);")],
      "new block records parameter index 0 while using the active parameters"),
    m("c04-hint-word-swap", "C04", "R04.5", [(FP, "    written += enc.write(get_map_index(CDNS::StorageHintsMapIndex::rr_hints));\n    written += enc.write(rr_hints);", "    written += enc.write(get_map_index(CDNS::StorageHintsMapIndex::rr_hints));\n    written += enc.write(other_data_hints);")],
      "preamble writes other_data_hints under the rr-hints key"),
]

NEUTRAL += [
    {"id": "n-hints-ref-binding", "props": ["C04"],
     "edits": [(B, "    uint32_t qr_hints = m_block_parameters.storage_parameters.storage_hints.query_response_hints;\n    uint32_t qr_sig_hints = m_block_parameters.storage_parameters.storage_hints.query_response_signature_hints;",
                "    const auto& hints = m_block_parameters.storage_parameters.storage_hints;\n    const uint32_t& qr_hints = hints.query_response_hints;\n    uint32_t qr_sig_hints = hints.query_response_signature_hints;")]},
    {"id": "n-hint-test-swapped", "props": ["C04"],
     "edits": [(B, "    if ((qr_hints & QueryResponseHintsMask::client_port) && gr.client_port) {", "    if (gr.client_port && (QueryResponseHintsMask::client_port & qr_hints) != 0) {")]},
]

MUTANTS += [
    # ---------------------------------------------------------------- C11
    m("c11-eq-missing", "C11", "R11.1", [(BH, "            return (name_index == rhs.name_index) && (classtype_index == rhs.classtype_index) &&\n                   (ttl == rhs.ttl) && (rdata_index == rhs.rdata_index);", "            return (name_index == rhs.name_index) && (classtype_index == rhs.classtype_index) &&\n                   (ttl == rhs.ttl);")],
      "RR::operator== ignores rdata_index"),
    m("c11-hash-extra", "C11", "R11.1", [(BH, "            hash = hash_value(aec.ae_address_index, hash);\n", "            hash = hash_value(aec.ae_address_index, hash);\n            hash = hash_value(aec.ae_count, hash);\n"),
                                          (BH, "                   (ae_address_index == rhs.ae_address_index) &&\n                   (ae_count == rhs.ae_count);", "                   (ae_address_index == rhs.ae_address_index);")],
      "AddressEventCount hash reads ae_count, which equality no longer compares"),
    m("c11-revert-f10", "C11", "R11.2", [(BH, "                hash = hash_value(mmd.mm_payload.value().data(), mmd.mm_payload.value().size(), hash);", "                hash = hash_value(mmd.mm_payload.value(), hash);")],
      "payload hashed through the raw bytes of the std::string object (reverted F10)"),
    m("c11-clear-rr", "C11", "R11.5", [(BH, "            m_rrlist.clear();\n            m_rr.clear();", "            m_rrlist.clear();")], "CdnsBlock::clear forgets m_rr"),
    m("c11-clear-index", "C11", "R11.3", [(BT, "            items_.clear();\n            indexes_.clear();", "            items_.clear();")], "BlockTable::clear keeps the reverse index"),
    m("c11-vector-store", "C11", "R11.3", [(BT, "        std::deque<T> items_;", "        std::vector<T> items_;"), (BT, "        typename std::deque<T>::size_type size() const", "        typename std::vector<T>::size_type size() const"),
                                            (BT, "        typename std::deque<T>::iterator begin()", "        typename std::vector<T>::iterator begin()"), (BT, "        typename std::deque<T>::iterator end()", "        typename std::vector<T>::iterator end()"),
                                            (BT, "#include <deque>", "#include <deque>\n#include <vector>")],
      "value store is a vector: references held by the index dangle on growth"),
    m("c11-keyref-local", "C11", "R11.3", [(BT, "        CDNS::index_t add_value(const T& val)\n        {\n            items_.push_back(val);\n            return record_last_key();", "        CDNS::index_t add_value(const T& val)\n        {\n            items_.push_back(val);\n            CDNS::index_t res = items_.size() - 1;\n            indexes_[KeyRef<K>(val.key())] = res;\n            return res;")],
      "index references the caller's argument instead of the stored element", expect_broken=False),
    m("c11-unchecked-index", "C11", "R11.3", [(BT, "            if ( pos < items_.size() )\n                return items_[pos];\n            \n            throw std::runtime_error(\"Block index out of range\");", "            return items_[pos];")], "unchecked operator[]"),
    m("c11-wrapper-layout", "C11", "R11.4", [(BH, "        std::string data;\n    };", "        uint32_t flags = 0;\n        std::string data;\n    };")], "StringItem gets a second member: reinterpret_cast lookups read foreign memory"),
    # ---------------------------------------------------------------- C19
    m("c19-revert-f15", "C19", "R19.1", [(BT, "        BlockTable(const BlockTable& other) : items_(other.items_)\n        {\n            rebuild_indexes();\n        }", "        BlockTable(const BlockTable& other) = default;"),
                                          (BT, "        BlockTable& operator=(const BlockTable& other)\n        {\n            if ( this != &other )\n            {\n                indexes_.clear();\n                items_ = other.items_;\n                rebuild_indexes();\n            }\n            return *this;\n        }", "        BlockTable& operator=(const BlockTable& other) = default;")],
      "BlockTable copies its reverse index verbatim (reverted F15)"),
    m("c19-copy-index", "C19", "R19.1", [(BT, "                indexes_.clear();\n                items_ = other.items_;\n                rebuild_indexes();", "                items_ = other.items_;\n                indexes_ = other.indexes_;")],
      "copy assignment copies the index from the source"),
    m("c19-missing-member", "C19", "R19.2", [(BH, "                this->m_rrlist = rhs.m_rrlist;\n", "")], "CdnsBlock::operator= forgets m_rrlist"),
    m("c19-cursor-from-rhs", "C19", "R19.2", [(BH, "                this->m_aec_read = this->m_address_event_counts.begin();\n                this->m_mm_read = 0;\n            }\n\n            return *this;", "                this->m_aec_read = rhs.m_address_event_counts.begin();\n                this->m_mm_read = 0;\n            }\n\n            return *this;")],
      "CdnsBlockRead copy iterates the source's address-event map"),
    m("c19-default-move", "C19", "R19.3", [(BH, "        CdnsBlock(CdnsBlock&& copy) {\n            *this = copy;\n        }", "        CdnsBlock(CdnsBlock&& copy) = default;")], "defaulted move constructor bypasses the assignment"),
    # ---------------------------------------------------------------- C20
    m("c20-static-buffer", "C20", "R20.1", [(IF, "    char addrBuf[buflen];", "    static char addrBuf[INET6_ADDRSTRLEN + 4];")], "static scratch buffer in the address renderer"),
    m("c20-global-cache", "C20", "R20.1", [(IF, "static std::string get_readable_dname(std::string& wire_dname)\n{", "static std::string g_last_rendered;\n\nstatic std::string get_readable_dname(std::string& wire_dname)\n{\n    g_last_rendered = wire_dname;")],
      "namespace-scope mutable cache written by a renderer"),
    m("c20-inet-ntoa", "C20", "R20.2", [(IF, "    auto ret = inet_ntop(ipv, wire_ip.data(), addrBuf, sizeof(addrBuf));\n\n    if (!ret)\n        return wire_ip;", "    auto ret = inet_ntop(ipv, wire_ip.data(), addrBuf, sizeof(addrBuf));\n\n    if (!ret)\n        return wire_ip;\n    if (!ipv6 && wire_ip.size() == 4) {\n        struct in_addr a4;\n        memcpy(&a4, wire_ip.data(), 4);\n        return std::string(inet_ntoa(a4));\n    }")],
      "inet_ntoa (static buffer) used for IPv4"),
    m("c20-static-counter", "C20", "R20.1", [(EN, "void CDNS::CdnsEncoder::flush_buffer()\n{", "void CDNS::CdnsEncoder::flush_buffer()\n{\n    static std::size_t flushes = 0;\n    flushes++;")], "function-local static counter in flush_buffer"),
]

NEUTRAL += [
    {"id": "n-items-index", "props": ["C11", "C19"],
     "edits": [(BT, "            indexes_[KeyRef<K>(items_.back().key())] = res;", "            indexes_[KeyRef<K>(items_[res].key())] = res;")]},
    {"id": "n-const-table", "props": ["C20"],
     "edits": [(IF, "static std::string get_readable_dname(std::string& wire_dname)\n{", "static const char kDot = '.';\n\nstatic std::string get_readable_dname(std::string& wire_dname)\n{\n    (void)kDot;")]},
]

BL = "src/bin/cdns_blocks.cpp"
PR = "src/bin/cdns_preamble.cpp"
MUTANTS += [
    # ---------------------------------------------------------------- C03
    m("c03-bp-index", "C03", "R03.2", [(B, "                    if (*m_block_preamble.block_parameters_index < block_parameters.size())\n                        m_block_parameters = block_parameters[*m_block_preamble.block_parameters_index];\n                    else\n                        throw CdnsDecoderException(\"Block parameters index for C-DNS block is too high\");",
                                        "                    m_block_parameters = block_parameters[*m_block_preamble.block_parameters_index];")],
      "block-parameters index from the file used unchecked"),
    m("c03-qr-cursor", "C03", "R03.2", [(B, "    if (m_qr_read >= m_query_responses.size()) {", "    if (m_qr_read > m_query_responses.size()) {")], "read_generic_qr reads one element past the end"),
    m("c03-revert-f6", "C03", "R03.3", [(B, "    list.reserve(std::min<uint64_t>(length, static_cast<uint64_t>(CdnsDecoder::BUFFER_SIZE)));", "    list.reserve(length);")], "reserve sized by the wire length (reverted F6)"),
    m("c03-revert-f6b", "C03", "R03.3", [(DE, "            ret.reserve(ret.size() + std::min<uint64_t>(chunk_length, static_cast<uint64_t>(BUFFER_SIZE)));", "            ret.reserve(ret.size() + chunk_length);")], "chunk reserve sized by the wire length"),
    m("c03-revert-f7a", "C03", "R03.2", [(IF, "        // The next label length byte has to lie inside the domain name\n        if (pos >= dname.size())\n            return wire_dname;\n\n", "")], "label walk without position check (reverted F7)"),
    m("c03-off-by-one", "C03", "R03.2", [(IF, "        if (pos >= dname.size())\n            return wire_dname;", "        if (pos > dname.size())\n            return wire_dname;")], "label walk accepts pos == size and then writes the terminator position"),
    m("c03-revert-f7b", "C03", "R03.6", [(IF, "    // Wire format address has to be exactly 4 (IPv4) or 16 (IPv6) bytes long\n    if (wire_ip.size() != (ipv6 ? 16 : 4))\n        return wire_ip;\n\n", "")], "inet_ntop on an address of unchecked length (reverted F7)"),
    m("c03-revert-f18", "C03", "R03.5", [(TS, "    uint64_t ticks = (m_secs * ticks_per_second) + m_ticks;\n    uint64_t ref_ticks = (reference.m_secs * ticks_per_second) + reference.m_ticks;\n\n    // Subtract the unsigned tick counts (wrap-around is defined) and convert the difference afterwards\n    return static_cast<int64_t>(ticks - ref_ticks);",
       "    int64_t ticks = (m_secs * ticks_per_second) + m_ticks;\n    int64_t ref_ticks = (reference.m_secs * ticks_per_second) + reference.m_ticks;\n\n    return ticks - ref_ticks;")],
      "tick totals subtracted as int64_t (F18: overflow for totals >= 2^63 re-exported by cdns-merge)"),
    m("c03-revert-f8", "C03", "R03.5", [(TS, "        uint64_t back = static_cast<uint64_t>(-(offset + 1)) + 1;", "        uint64_t back = static_cast<uint64_t>(-offset);")], "negation of INT64_MIN"),
    m("c03-revert-f5", "C03", "R03.4", [(DE, "                // A tag is a single data item together with its content\n                pending.push_back({1, false});", "                // A tag is a single data item together with its content\n                skip_item();")], "tag content skipped recursively: depth controlled by the input"),
    m("c03-throw-int", "C03", "R03.7", [(B, "        throw CdnsDecoderException(\"Given Block parameters array is empty!\");", "        throw -1;")], "an int is thrown on the read path"),
    m("c03-main-no-try", "C03", "R03.7", [(BL, "    try {\n        std::ifstream ifs(input_file, std::ifstream::binary);\n        CDNS::CdnsReader reader(ifs);\n        bool end = false;", "    std::ifstream ifs(input_file, std::ifstream::binary);\n    CDNS::CdnsReader reader(ifs);\n    try {\n        bool end = false;")],
      "cdns-blocks constructs the reader outside its try block"),
    m("c03-vla", "C03", "R03.4", [(IF, "    char addrBuf[buflen];", "    char addrBuf[buflen + wire_ip.size()];")], "stack array sized by a string taken from the file"),
    m("c03-stale", "C03", "R03.1", [(DE, "        for (unsigned i = 0; i < length; i++) {\n            read_to_buffer();\n", "        for (unsigned i = 0; i < length; i++) {\n")], "string bytes read without refill check"),
]
NEUTRAL += [
    {"id": "n-dname-not-lt", "props": ["C03"],
     "edits": [(IF, "        if (pos >= dname.size())\n            return wire_dname;", "        if (!(pos < dname.size()))\n            return wire_dname;")]},
    {"id": "n-qr-cursor-not", "props": ["C03"],
     "edits": [(B, "    if (m_qr_read >= m_query_responses.size()) {", "    if (!(m_qr_read < m_query_responses.size())) {")]},
]

MUTANTS += [
    # ---------------------------------------------------------------- C12
    m("c12-full-missing-mm", "C12", "R12.3", [(BH, "                   m_address_event_counts.size() >= m_block_parameters.storage_parameters.max_block_items ||\n                   m_malformed_messages.size() >= m_block_parameters.storage_parameters.max_block_items;", "                   m_address_event_counts.size() >= m_block_parameters.storage_parameters.max_block_items;")],
      "full() ignores the malformed-message array"),
    m("c12-full-gt", "C12", "R12.3", [(BH, "            return m_query_responses.size() >= m_block_parameters.storage_parameters.max_block_items ||", "            return m_query_responses.size() > m_block_parameters.storage_parameters.max_block_items ||")], "full() uses > for the query/response array"),
    m("c12-no-rearm", "C12", "R12.4", [(CH, "            m_block.clear();\n            m_block.set_block_parameters(m_file_preamble.get_block_parameters(m_active_block_parameters),\n                                         m_active_block_parameters);\n            return written;", "            m_block.clear();\n            return written;")],
      "write_block() does not re-arm the block with the active parameters"),
    m("c12-clear-first", "C12", "R12.4", [(CH, "            std::size_t written = write_block(m_block);\n            m_block.clear();", "            CdnsBlock copy(m_block);\n            m_block.clear();\n            std::size_t written = write_block(copy);")], "block cleared before it is written"),
    m("c12-swallow", "C12", "R12.4", [(CH, "            std::size_t written = write_block(m_block);\n            m_block.clear();", "            std::size_t written = 0;\n            try {\n                written = write_block(m_block);\n            }\n            catch (std::exception& e) {\n            }\n            m_block.clear();")],
      "write failure swallowed and the block cleared anyway"),
    m("c12-flush-inverted", "C12", "R12.1", [(CH, "            if (m_block.add_malformed_message(mm, stats))\n                written = write_block();", "            if (!m_block.add_malformed_message(mm, stats))\n                written = write_block();")], "buffer_mm flushes when the block is not full"),
    m("c12-return-false", "C12", "R12.2", [(B, "    m_malformed_messages.push_back(mm);\n\n    if (stats)\n        m_block_statistics = stats;\n\n    return full() ? true : false;", "    m_malformed_messages.push_back(mm);\n\n    if (stats)\n        m_block_statistics = stats;\n\n    return false;")],
      "direct add_malformed_message never reports a full block"),
    m("c12-double-insert", "C12", "R12.5", [(B, "    if (qr_filled)\n        m_query_responses.push_back(qr);", "    if (qr_filled) {\n        m_query_responses.push_back(qr);\n        if (qr.asn)\n            m_query_responses.push_back(qr);\n    }")], "records with an asn are stored twice"),
    m("c12-rotate-clears", "C12", "R12.5", [(CH, "            if (export_current_block)\n                written += write_block();\n", "            if (export_current_block)\n                written += write_block();\n            else\n                m_block.clear();\n")], "rotation without export drops the buffered records"),
    m("c12-counter", "C12", "R12.6", [(CH, "            return m_block.get_aec_count();", "            return m_block.get_qr_count();")], "aec counter reports the qr count"),
    # ---------------------------------------------------------------- C17
    m("c17-write-before-throw", "C17", "R17.2", [(TS, "        if (back > ticks)\n            throw std::runtime_error(\"Adding offset to Timestamp would create invalid Timestamp!\");\n\n        ticks -= back;", "        m_secs = 0;\n        if (back > ticks)\n            throw std::runtime_error(\"Adding offset to Timestamp would create invalid Timestamp!\");\n\n        ticks -= back;")],
      "member written before the refusal test"),
    m("c17-revert-f8", "C17", "R17.1", [(TS, "        uint64_t back = static_cast<uint64_t>(-(offset + 1)) + 1;", "        uint64_t back = static_cast<uint64_t>(-1 * offset);")], "-1 * INT64_MIN"),
    m("c17-lt-ticks", "C17", "R17.3", [(TSH, "            if ((m_secs == rhs.m_secs) && (m_ticks < rhs.m_ticks))\n                return true;\n\n            return false;\n        }\n\n        /**\n         * @brief Operator `smaller or equal than`", "            if (m_ticks < rhs.m_ticks)\n                return true;\n\n            return false;\n        }\n\n        /**\n         * @brief Operator `smaller or equal than`")],
      "operator< compares ticks without requiring equal seconds"),
    m("c17-le-strict", "C17", "R17.3", [(TSH, "            if ((m_secs == rhs.m_secs) && (m_ticks <= rhs.m_ticks))", "            if ((m_secs == rhs.m_secs) && (m_ticks < rhs.m_ticks))")], "operator<= is not reflexive"),
    m("c17-earliest-reversed", "C17", "R17.4", [(B, "    if (gmm.ts && ((m_query_responses.size() == 0 && m_malformed_messages.size() == 0) ||\n                  (*gmm.ts < m_block_preamble.earliest_time)))", "    if (gmm.ts && ((m_query_responses.size() == 0 && m_malformed_messages.size() == 0) ||\n                  (m_block_preamble.earliest_time < *gmm.ts)))")],
      "earliest time raised instead of lowered by malformed messages"),
    m("c17-earliest-first-only-qr", "C17", "R17.4", [(B, "    if (gr.ts && ((m_query_responses.size() == 0 && m_malformed_messages.size() == 0) ||", "    if (gr.ts && ((m_query_responses.size() == 0) ||")], "first-record test ignores buffered malformed messages"),
    m("c17-no-rate-check", "C17", "R17.1", [(TS, "void CDNS::Timestamp::add_time_offset(int64_t offset, uint64_t ticks_per_second)\n{\n    if (ticks_per_second == 0)\n        throw std::runtime_error(\"Ticks per second resolution is zero!\");\n", "void CDNS::Timestamp::add_time_offset(int64_t offset, uint64_t ticks_per_second)\n{\n")], "division by a zero tick rate"),
    m("c17-earliest-after-store", "C17", "R17.4", [(B, "    if (mm.time_offset && ((m_query_responses.size() == 0 && m_malformed_messages.size() == 0) ||\n                            (mm.time_offset < m_block_preamble.earliest_time)))\n        m_block_preamble.earliest_time = *mm.time_offset;\n\n    m_malformed_messages.push_back(mm);", "    m_malformed_messages.push_back(mm);\n\n    if (mm.time_offset && ((m_query_responses.size() == 0 && m_malformed_messages.size() == 0) ||\n                            (mm.time_offset < m_block_preamble.earliest_time)))\n        m_block_preamble.earliest_time = *mm.time_offset;")],
      "earliest time updated after the store (first-record test sees the new item)"),
]
NEUTRAL += [
    {"id": "n-full-not-lt", "props": ["C12"],
     "edits": [(BH, "            return m_query_responses.size() >= m_block_parameters.storage_parameters.max_block_items ||", "            return !(m_query_responses.size() < m_block_parameters.storage_parameters.max_block_items) ||")]},
    {"id": "n-lt-nested-if", "props": ["C17"],
     "edits": [(TSH, "            if ((m_secs == rhs.m_secs) && (m_ticks < rhs.m_ticks))\n                return true;\n\n            return false;\n        }\n\n        /**\n         * @brief Operator `smaller or equal than`", "            if (m_secs == rhs.m_secs) {\n                if (m_ticks < rhs.m_ticks)\n                    return true;\n            }\n\n            return false;\n        }\n\n        /**\n         * @brief Operator `smaller or equal than`")]},
]

MUTANTS += [
    # ---------------------------------------------------------------- C13
    m("c13-revert-f11", "C13", "R13.5", [(WH, "            if (value.type() != typeid(std::string))\n                throw CborOutputException(\"New output of a file name writer has to be given as std::string!\");", "            if (value.type() != typeid(std::string))\n                return;")], "silent no-op rotation (reverted F11)"),
    m("c13-clear-on-rotate", "C13", "R13.1", [(CH, "            if (export_current_block)\n                written += write_block();\n", "            if (export_current_block)\n                written += write_block();\n            else\n                m_block.clear();\n")], "rotation without export clears the buffered block"),
    m("c13-no-flush", "C13", "R13.2", [(ENH, "            flush_buffer();\n            m_cos->rotate_output(out);", "            m_cos->rotate_output(out);\n            flush_buffer();")], "staged bytes go to the new output"),
    m("c13-gzip-no-close", "C13", "R13.3", [(WH, "        void rotate_output(const boost::any& value) override {\n            close();\n            m_writer->rotate_output(value);\n            open();\n        }\n\n        private:\n        /**\n         * @brief Open the output with given identifier or check if its valid\n         * @throw CborOutputException if initialization of the output fails\n         */\n        void open() override;\n\n        /**\n         * @brief Close the opened output\n         */\n        void close() override;\n\n        /**\n         * @brief Compress data with GZIP",
                                             "        void rotate_output(const boost::any& value) override {\n            m_writer->rotate_output(value);\n            close();\n            open();\n        }\n\n        private:\n        /**\n         * @brief Open the output with given identifier or check if its valid\n         * @throw CborOutputException if initialization of the output fails\n         */\n        void open() override;\n\n        /**\n         * @brief Close the opened output\n         */\n        void close() override;\n\n        /**\n         * @brief Compress data with GZIP")],
      "gzip trailer written to the new output"),
    m("c13-leaf-order", "C13", "R13.4", [(WH, "            close();\n            m_value = boost::any_cast<std::string>(value);\n            open();", "            m_value = boost::any_cast<std::string>(value);\n            close();\n            open();")], "old file renamed to the new name"),
    m("c13-export-always", "C13", "R13.1", [(CH, "            if (export_current_block)\n                written += write_block();", "            written += write_block();")], "rotation always exports the buffered block"),
    m("c13-counter-not-reset", "C13", "R13.1", [(CH, "            m_encoder.rotate_output(out);\n            m_blocks_written = 0;", "            m_encoder.rotate_output(out);")], "second output gets no header"),
    # ---------------------------------------------------------------- C14
    m("c14-revert-f12", "C14", "R14.1", [(WC, "    (void) in_size;\n    constexpr std::size_t size = 16384;\n    uint8_t buff[size];\n\n    // Set output buffer\n    m_gzip.next_out = buff;", "    std::size_t size = in_size + in_size / 3 + 128;\n    uint8_t buff[size];\n\n    // Set output buffer\n    m_gzip.next_out = buff;")], "stack array sized by the chunk (reverted F12)"),
    m("c14-single-finish", "C14", "R14.2", [(WC, "            while (write_gzip(2048, Z_FINISH) != Z_STREAM_END);\n", "            write_gzip(2048, Z_FINISH);\n")], "gzip close() finishes with a single call"),
    m("c14-if-not-while", "C14", "R14.2", [(WC, "    while (m_lzma.avail_in > 0) {\n        write_lzma(size, LZMA_RUN);\n    }", "    if (m_lzma.avail_in > 0) {\n        write_lzma(size, LZMA_RUN);\n    }")], "xz write() runs the compressor once"),
    m("c14-forward-short", "C14", "R14.2", [(WC, "        m_writer->write(reinterpret_cast<const char*>(buff), sizeof(buff) - m_lzma.avail_out);", "        m_writer->write(reinterpret_cast<const char*>(buff), sizeof(buff) - m_lzma.avail_out - 1);")], "last produced byte of every chunk dropped"),
    m("c14-accept-buf-error", "C14", "R14.3", [(WC, "    if (ret == Z_OK || ret == Z_STREAM_END)", "    if (ret == Z_OK || ret == Z_STREAM_END || ret == Z_BUF_ERROR)")], "Z_BUF_ERROR accepted"),
    m("c14-zlib-framing", "C14", "R14.4", [(WC, "Z_DEFLATED, 31, 8,", "Z_DEFLATED, 15, 8,")], "zlib instead of gzip framing"),
    # (c14-no-end - lzma_end() dropped from close() - was retired: open() re-initialises the stream, so the edit leaks memory but
    #  every output is unchanged; R14.2 no longer asks for the release, see DESIGN 11.14 / neutral/C14e/refactor1.diff)
    m("c14-suffix", "C14", "R14.4", [(WH, "m_writer = std::make_unique<Writer<T>>(value, \".xz\");", "m_writer = std::make_unique<Writer<T>>(value, \".gz\");")], "xz output named .gz"),
    # ---------------------------------------------------------------- C15
    m("c15-rename-first", "C15", "R15.2", [(WH, "                    m_out.flush();\n                    m_out.close();\n                    if (std::rename(", "                    m_out.flush();\n                    if (std::rename("), (WH, "                        std::cerr << \"Couldn't rename the output file!\" << std::endl;\n", "                        std::cerr << \"Couldn't rename the output file!\" << std::endl;\n                    m_out.close();\n")],
      "file renamed before it is closed"),
    m("c15-open-final", "C15", "R15.1", [(WH, "            m_out.open(m_value + m_extension + \".part\");", "            m_out.open(m_value + m_extension);")], "data written directly under the final name"),
    m("c15-rename-wrong", "C15", "R15.2", [(WH, "(m_value + m_extension).c_str()))", "(m_value).c_str()))")], "renamed to the name without the compression suffix"),
    m("c15-no-encoder-flush", "C15", "R15.3", [(ENH, "            try {\n                flush_buffer();\n            }\n            catch (std::exception& e) {\n                std::cerr << e.what() << std::endl;\n            }", "")], "~CdnsEncoder does not flush: the closing break never reaches the file"),
    m("c15-gzip-dtor", "C15", "R15.3", [(WH, "        ~GzipCborOutputWriter() override { close(); }", "        ~GzipCborOutputWriter() override { }")], "gzip trailer never written on destruction"),
    m("c15-extra-rename", "C15", "R15.1", [(WH, "            m_out.open(m_value + m_extension + \".part\");\n            if (m_out.fail())", "            m_out.open(m_value + m_extension + \".part\");\n            std::rename((m_value + m_extension + \".part\").c_str(), (m_value + m_extension).c_str());\n            if (m_out.fail())")], "file renamed to its final name right after opening"),
    # ---------------------------------------------------------------- C16
    m("c16-ignore-write", "C16", "R16.1", [(WH, "            int ret = ::write(m_value, p, size);\n            if (ret != static_cast<int>(size)) {", "            int ret = ::write(m_value, p, size);\n            if (ret < 0 && size == 0) {")], "descriptor writer ignores short writes"),
    m("c16-swallow-write-block", "C16", "R16.4", [(CH, "            std::size_t written = write_block(m_block);\n            m_block.clear();", "            std::size_t written = 0;\n            try {\n                written = write_block(m_block);\n            }\n            catch (std::exception& e) {\n                std::cerr << e.what() << std::endl;\n            }\n            m_block.clear();")], "write failure swallowed, records dropped"),
    m("c16-swallow-rotate", "C16", "R16.2", [(CH, "            m_encoder.rotate_output(out);\n            m_blocks_written = 0;", "            try {\n                m_encoder.rotate_output(out);\n            }\n            catch (std::exception& e) {\n                std::cerr << e.what() << std::endl;\n            }\n            m_blocks_written = 0;")], "exporter swallows rotation failures"),
    m("c16-swallow-flush", "C16", "R16.2", [(EN, "    if (m_p != m_buffer) {\n        m_cos->write(reinterpret_cast<const char*>(m_buffer), m_p - m_buffer);", "    if (m_p != m_buffer) {\n        try {\n            m_cos->write(reinterpret_cast<const char*>(m_buffer), m_p - m_buffer);\n        }\n        catch (std::exception& e) {\n        }")], "flush_buffer drops the bytes of a failed write silently"),
    # ---------------------------------------------------------------- C18
    m("c18-revert-f14", "C18", "R18.1", [(MG, "                auto new_index = file_indexes->second.find(block.get_block_parameters_index());\n                if (new_index == file_indexes->second.end())\n                    throw std::runtime_error(\"Unknown block parameters index in a block of \" + input);\n\n                block.m_block_preamble.block_parameters_index = new_index->second;", "                block.m_block_preamble.block_parameters_index = block_indexes[input][block.get_block_parameters_index()];")],
      "remap through operator[] (reverted F14)"),
    m("c18-unchecked-iterator", "C18", "R18.1", [(MG, "                if (new_index == file_indexes->second.end())\n                    throw std::runtime_error(\"Unknown block parameters index in a block of \" + input);\n\n", "")], "find() result dereferenced without end() test"),
    m("c18-remap-late", "C18", "R18.2", [(MG, "                block.m_block_preamble.block_parameters_index = new_index->second;\n\n                writer.write_block(block);", "                writer.write_block(block);\n\n                block.m_block_preamble.block_parameters_index = new_index->second;")], "index remapped after the block was written"),
    m("c18-count-wrong", "C18", "R18.4", [(IC, "            aec_count += block.get_aec_count();", "            aec_count += block.get_qr_count();")], "address-event total accumulates the Q/R count"),
    m("c18-version-and", "C18", "R18.3", [(MG, "                if (reader.m_file_preamble.m_major_format_version != file_preamble.m_major_format_version ||\n                    reader.m_file_preamble.m_minor_format_version != file_preamble.m_minor_format_version ||", "                if (reader.m_file_preamble.m_major_format_version != file_preamble.m_major_format_version &&\n                    reader.m_file_preamble.m_minor_format_version != file_preamble.m_minor_format_version ||")], "version check requires major AND minor to differ"),
    m("c18-try-outside-loop", "C18", "R18.3", [(MG, "    for (auto input: input_files) {\n        // Input files that couldn't be merged in the first pass contribute nothing\n        auto file_indexes = block_indexes.find(input);\n        if (file_indexes == block_indexes.end())\n            continue;\n\n        try {", "    try {\n    for (auto input: input_files) {\n        // Input files that couldn't be merged in the first pass contribute nothing\n        auto file_indexes = block_indexes.find(input);\n        if (file_indexes == block_indexes.end())\n            continue;\n\n        {"),
                                                (MG, "        catch (std::exception& e) {\n            std::cerr << \"Couldn't merge file \" << input << \"! Reason: \" << e.what() << std::endl;\n        }\n    }\n\n    return 0;", "    }\n    }\n    catch (std::exception& e) {\n        std::cerr << \"Couldn't merge! Reason: \" << e.what() << std::endl;\n    }\n\n    return 0;")],
      "one unreadable input aborts the merge of all following inputs"),
    m("c18-label-swap", "C18", "R18.4", [(IC, "                std::cout << \"Address Event Counts: \" << aec_count << std::endl;", "                std::cout << \"Address Event Counts: \" << mm_count << std::endl;")], "total line labelled address events prints the malformed count"),
]
NEUTRAL += [
    {"id": "n-merge-at", "props": ["C18"],
     "edits": [(MG, "                auto new_index = file_indexes->second.find(block.get_block_parameters_index());\n                if (new_index == file_indexes->second.end())\n                    throw std::runtime_error(\"Unknown block parameters index in a block of \" + input);\n\n                block.m_block_preamble.block_parameters_index = new_index->second;", "                block.m_block_preamble.block_parameters_index = file_indexes->second.at(block.get_block_parameters_index());")]},
    {"id": "n-close-loop-do", "props": ["C14"],
     "edits": [(WC, "            while (write_lzma(2048, LZMA_FINISH) != LZMA_STREAM_END);\n", "            while (write_lzma(4096, LZMA_FINISH) != LZMA_STREAM_END) {\n            }\n")]},
]

MUTANTS += [
    m("c01-stats-first-only", "C01", "R01.7", [(B, "    // Update block statistics\n    if (stats)\n        m_block_statistics = stats;\n\n    // Indicate if the Block is full (DNS record is inserted anyway, the limit is just a guideline)", "    // Update block statistics\n    if (stats && !m_block_statistics)\n        m_block_statistics = stats;\n\n    // Indicate if the Block is full (DNS record is inserted anyway, the limit is just a guideline)")],
      "block keeps the first statistics supplied instead of the most recent"),
    m("c01-prepend", "C01", "R01.8", [(B, "    if (mm_filled)\n        m_malformed_messages.push_back(mm);", "    if (mm_filled)\n        m_malformed_messages.insert(m_malformed_messages.begin(), mm);")], "malformed messages stored in reverse order"),
    m("c07-negative", "C07", "R07.6", [(DE, "    return -1 - read_int(item_length);", "    return -read_int(item_length);")], "negative integers decoded as -n"),
    m("c07-bool-swapped", "C07", "R07.6", [(DE, "        return bool_value == 21;", "        return bool_value == 20;")], "simple values 20/21 decoded swapped"),
    m("c17-sign", "C17", "R17.6", [(TS, "    return static_cast<int64_t>(ticks - ref_ticks);", "    return static_cast<int64_t>(ref_ticks - ticks);")], "offset sign reversed"),
    m("c17-formula", "C17", "R17.6", [(TS, "    uint64_t ref_ticks = (reference.m_secs * ticks_per_second) + reference.m_ticks;", "    uint64_t ref_ticks = (reference.m_secs * ticks_per_second) + m_ticks;")], "reference total uses this->m_ticks"),
    m("c20-rand", "C20", "R20.2", [(EN, "void CDNS::CdnsEncoder::flush_buffer()\n{", "void CDNS::CdnsEncoder::flush_buffer()\n{\n    if (std::rand() == -1)\n        return;")], "std::rand (hidden global state) called on the write path"),
]


# ------------------------------------------------------------------------------------------------ stored corpora
# The seeded changes (seeded/<id>/patch.diff, written by independent sub-agents, each confirmed by a demonstration) are
# mutants of the property they were written against; the behaviour-preserving refactorings (neutral/<prop>[s]/refactorN.diff)
# are neutral edits for that property.  Both are applied as patches to the scratch copy.
import glob as _glob
import json as _json
import os as _os

_HERE = _os.path.dirname(_os.path.dirname(_os.path.abspath(__file__)))
for _mf in sorted(_glob.glob(_os.path.join(_HERE, "seeded", "*", "meta.json"))):
    try:
        _meta = _json.load(open(_mf))
    except (OSError, ValueError):
        continue
    _prop = _meta.get("property")
    _rules = [c.split()[1] for c in _meta.get("caught_by", []) if c.split() and c.split()[0] == _prop and len(c.split()) > 1]
    if not _prop or not _rules:
        continue
    MUTANTS.append(m("seed-" + _meta["id"], _prop, _rules[0].split(".")[0] if False else _rules[0],
                     [("@patch", _os.path.join(_os.path.dirname(_mf), "patch.diff"), "")], _meta.get("change", "")[:120], any_rule=True))

# Broken variants of stored behaviour-preserving patches (mutpatches/<id>.diff = the neutral patch with one detail made wrong):
# they check that the normalisation passes which make the correct variant transparent (guards with a dismiss flag, memos,
# validated caches, result structs, pointer-to-member helpers) do not also hide the incorrect one.  Where the honest answer
# is "not decided" the mutant must at least stop the check (exit 2, expect_broken).
_MP = _os.path.join(_HERE, "mutpatches")
for _id, _prop, _rule, _desc, _eb in [
    ("c15-cache-suffix", "C15", "R15.1", "validated path cache (C16g/1) composes <name><ext>.tmp", False),
    ("c15-cache-weak-test", "C15", "R15.1", "validated path cache (C16g/1) whose skip test does not compare the extension", True),
    ("c18-memo-no-invalidation", "C18", "R18.1", "BlockIndexMap memo (C18g/2) that set() does not invalidate", True),
    ("c18-remapper-stores-key", "C18", "R18.2", "BlockIndexRemapper look-aside (C18k/2) that remembers found->first, the old index, as the translation", False),
    ("c18-remap-takes-key", "C18", "R18.2", "cdns-merge pass 2 assigning new_index->first (the block's old index) instead of the mapped value", False),
    ("c18-remapper-key-not-compared", "C18", "R18.1", "BlockIndexRemapper look-aside (C18k/2) that reuses the remembered pair for any key", True),
    ("c18-version-test-inverted", "C18", "R18.3", "cdns-merge rejecting an input when its minor version EQUALS the reference's", False),
    ("c18-end-test-inverted", "C18", "R18.2", "cdns-merge pass 2 with `if (!end) break;`: every block dropped", False),
    ("c18-itemcount-end-test-inverted", "C18", "R18.4", "cdns-itemcount with `if (!end) break;`: nothing counted", False),
    ("c07-skip-level-not-popped", "C07", "R07.13", "skip_item that does not pop the level its stop code ends", False),
    ("c07-skip-indef-flag-inverted", "C07", "R07.13", "skip_item looking for the stop code on definite levels", False),
    ("c07-skip-items-not-counted", "C07", "R07.13", "skip_item that never counts items off a definite level", False),
    ("c07-skip-pop-when-items-left", "C07", "R07.13", "skip_item that pops a definite level while items are left", False),
    ("c07-indef-string-loop-inverted", "C07", "R07.2", "read_string looping while the next byte IS the stop code", False),
    ("c01-filled-flag-lowered", "C01", "R01.17", "add_malformed_message lowering mmd_filled after storing the payload", False),
    ("c01-filled-flag-not-raised", "C01", "R01.17", "add_question_response_record storing qrs.qr_type without raising qrs_filled", False),
    ("c06-branch-without-emission", "C06", "R06.8", "write(int16_t) whose non-negative branch lost its write_int call", False),
    ("c05-eof-true-with-block", "C05", "R05.7", "read_block starting with eof = true: every decoded block is announced as the end", False),
    ("c05-eof-not-set-at-break", "C05", "R05.7", "read_block that does not raise eof when it meets the stop code of the block array", False),
    ("c05-blocks-not-counted", "C05", "R05.7", "read_block that does not count the blocks of a definite-length block array", False),
    ("c01-rr-ttl-not-stored", "C01", "R01.3", "add_generic_rrlist that no longer stores the TTL the reader restores", False),
    ("c01-presence-test-inverted-read", "C01", "R01.18", "read_generic_qr with `if (!qr.response_processing_data)`", False),
    ("c01-presence-test-inverted-hash", "C01", "R01.18", "hash_value(QueryResponseSignature) with `if (!qrs.qr_transport_flags)`", False),
    ("c19-reindex-counts-down", "C19", "R19.5", "BlockTable::rebuild_indexes entering the items under 0, -1, -2 ..", False),
    ("c01-read-cursor-starts-at-one", "C01", "R01.19", "CdnsBlockRead::read leaving m_mm_read at 1: the first malformed message of every block is skipped", False),
    ("c17-negative-offset-added", "C17", "R17.7", "add_time_offset adding the magnitude of a negative offset", False),
    ("c17-positive-offset-dropped", "C17", "R17.7", "add_time_offset ignoring a non-negative offset", False),
    ("c07-head-not-consumed", "C07", "R07.14", "read_cbor_type that does not move the cursor past the head", False),
    ("c07-chunk-bytes-dropped", "C07", "R07.9", "read_string skipping the bytes of the chunks of an indefinite-length string", False),
    ("c18-registration-skips-index-0", "C18", "R18.1", "cdns-merge pass 1 registering the parameter sets of later inputs from index 1 on", False),
    ("c18-total-starts-at-one", "C18", "R18.4", "cdns-itemcount whose query-response total starts at 1", False),
    ("c19-memo-not-reset", "C19", "R19.2", "ip-address lookup memo (C12g/3) that CdnsBlock::operator= does not reset", False),
    ("c16-guard-armed-early", "C16", "R16.6", "BlockClearGuard (C12g/2) armed before the write it guards", False),
    ("c16-guard-armed-early-c12", "C12", "R12.4", "BlockClearGuard (C12g/2) armed before the write it guards", False),
    ("c11-lookup-always-found", "C11", "R11.3", "BlockTable::lookup result struct (C19g/4) reports found for a missing key", False),
    ("c12-wrong-member-pointer", "C12", "R12.1", "buffer_item(&CdnsBlock::add_*) (C12g/1) flushes when the block is NOT full", False),
    ("c02-worker-counts-before-write", "C02", "R02.3", "block writer moved into a private worker with a result struct (C12i/3) that counts the block before writing it", False),
    ("c12-worker-clear-before-write", "C12", "R12.4", "write_block() over the private worker (C12i/3) that clears the block before writing it", False),
    ("c06-result-wrong-count", "C06", "R06.1", "write_int returning a {stored, bytes} result (C02i/3) that reports 2 bytes for a 3-byte head", False),
    ("c06-result-not-committed", "C06", "R06.6", "commit_head over write_int's result (C02i/3) that does not advance the buffer", True),
    ("c10-result-count-dropped", "C10", "R10.2", "commit_head over write_int's result (C02i/3) that returns the flag instead of the byte count", False),
    ("c04-unswitched-ttl-hint-ignored", "C04", "R04.1", "add_generic_rrlist unswitched on the rdata hint (C04i/3) whose fast loop stores ttl without its hint", False),
    ("c04-unswitched-wrong-polarity", "C04", "R04.1", "add_generic_rrlist unswitched on the rdata hint (C04i/3) with the two loops swapped", False),
    ("c07-head-policy-wrong", "C07", "R07.4", "shared head reader (C07i/2) called by read_unsigned with the indefinite-length policy of containers", False),
    ("c07-head-wrong-type", "C07", "R07.4", "shared head reader (C07i/2) called by read_negative with the major type UNSIGNED", False),
    ("c07-runs-reset-at-refill", "C07", "R07.4", "read_int in runs (C07i/1) that restarts the value at every refill: wrong only for an argument split across refills", False),
    ("c07-fast-path-little-endian", "C07", "R07.4", "read_int fast path (C07i/1) that assembles the buffered argument least significant byte first", False),
    ("c07-switch-case-swapped", "C07", "R07.4", "read_int per-width switch (C20i/3) whose 2-byte case swaps the bytes", False),
    ("c12-worker2-clear-before-export", "C12", "R12.4", "exporter flush path over two workers (C12k/2) whose flush_block clears the block before exporting it", False),
    ("c12-worker2-no-rearm", "C12", "R12.1", "exporter flush path over two workers (C12k/2) where buffer_mm exports without clearing and re-arming", False),
    ("c06-switch-store-swapped", "C06", "R06.1", "write_int storing through a pointer to the last byte in a fall-through switch (C02k/2) with two bytes swapped", False),
    ("c14-result-unchecked", "C14", "R14.3", "compressor step reporting through a result struct (C14i/2) whose failure flag write() ignores", False),
    ("c14-result-ok-on-error", "C14", "R14.3", "compressor step reporting through a result struct (C14i/2) that says ok for a refused code", False),
    ("c06-flush-guard-inverted", "C06", "R06.4", "flush_buffer writes only when nothing is staged", False),
    ("c06-twin-not-stepped", "C06", "R06.4", "staged-byte twin counter (C06i/3) that update_buffer does not advance", False),
    ("c06-twin-not-reset", "C06", "R06.4", "staged-byte twin counter (C06i/3) that reset_buffer does not zero", False),
    ("c06-runs-remainder-stuck", "C06", "R06.5", "write_string in whole-buffer runs (C06i/2) whose run loop does not shrink the remainder", True),
    ("c06-runs-topup-not-flushed", "C06", "R06.5", "write_string in whole-buffer runs (C06i/2) that does not flush after topping up", False),
]:
    _pf = _os.path.join(_MP, _id.replace("-c12", "") + ".diff")
    if _os.path.exists(_pf):
        MUTANTS.append(m(_id, _prop, _rule, [("@patch", _pf, "")], _desc, expect_broken=_eb, any_rule=True))

# refactorings for which the analysis answers *unrecognised* (documented in DESIGN 11.12): not run as neutral edits
NEUTRAL_UNRECOGNISED = {
    # a one-entry memo of the encoded string head kept as *bytes* (memcpy out of the staging buffer and back): that the bytes
    # copied back are the bytes write_int() would produce is a fact about buffer contents, not about the shape of the code;
    # C06 answers "unrecognised" (exit 2) for it and says so (DESIGN 11.16)
    "C06g/refactor4.diff": "byte-level head memo in CdnsEncoder",
    # (repaired variants of round-F seeds, DESIGN 11.19)
    # a new encoder primitive that writes a whole index list in runs whose length is computed from m_avail by a division: the
    # emission grammar does not know the primitive and R06.2 does not decide the computed reservation - C01, C02, C06 exit 2
    # (neutral round 9)
    "C10j/refactor1.diff": "CdnsEncoder::write_array in runs sized by m_avail / MAX_INDEX_SIZE",
    # (same primitive as a template for the preamble's code lists: R06.2 proves the run reservation, the emission grammar of C02 /
    # C09 does not know the primitive - exit 2 there)
    "C09j/refactor1.diff": "CdnsEncoder::write_array<T> for opcodes / rr_types / vlan_ids",
    # a process-wide cache of rendered addresses behind a mutex, copied out while locked: R20.1 accepts the guarded static; the
    # inet_ntop call moved into the cache's worker while the test of the address length stayed in the caller, and R03.6 (which
    # looks for the test in the function that calls inet_ntop) finds no call site it can decide - C03 exits 2
    "C20j/refactor1.diff": "mutex-guarded cache of rendered IP addresses in get_readable_ip_address",
    # a look-aside of the last address and its index, validated by `index < table.size() && address == last` and parked out of
    # range by clear(): whether a remembered index still addresses its entry is a question about histories - R02.6 / R11.6 exit 2
    "C12j/refactor1.diff": "look-aside of the last IP address and its table index in CdnsBlock",
}
for _pf in sorted(_glob.glob(_os.path.join(_HERE, "neutral", "*", "refactor*.diff"))):
    _dir = _os.path.basename(_os.path.dirname(_pf))
    _prop = _dir[:3]
    if "%s/%s" % (_dir, _os.path.basename(_pf)) in NEUTRAL_UNRECOGNISED:
        continue
    NEUTRAL.append({"id": "n-%s-%s" % (_dir, _os.path.basename(_pf)[:-5]), "props": [_prop], "edits": [("@patch", _pf, "")]})
